"""Shared check logic of C07 / C12 / C15: scenario generator, direct oracles
on the real run (independent of the Lean model), batch runner with cache,
model/implementation diff (see runtime_model.py) and reporting.

Oracles only look at (a) what task bodies themselves logged through the
public API (`Sim.events`: start / spawn / await / saw / cancel / raise / ret,
client call outcomes), (b) the messages that crossed the simulated links and
(c) at quiescence, the tables of the real node objects.
"""
from __future__ import annotations

import hashlib
import json
import os
import random
import re
import time
import warnings
from pathlib import Path

from harness.common import Check, VERIF, REPO

warnings.simplefilter('ignore')


# ------------------------------------------------------------ program text
def misuse(prog) -> set[str]:
    """Error classes a body can legitimately cause by its own instructions."""
    kinds = set()
    state = {}
    nf = 0
    from harness.runtime_sim import eff_pids
    for ins in prog:
        op = ins[0]
        if op == 'm' and not eff_pids(ins):
            kinds.add('map-empty')      # RuntimeError('Unable to map 0 tasks.')
            break                       # the body dies here
        if op in 'sm':
            state[nf] = 'open'
            nf += 1
        elif op == 'a':
            if state.get(ins[1]) != 'open':
                kinds.add('await-gone')
            state[ins[1]] = 'gone'
        elif op == 'n':
            if state.get(ins[1]) != 'open':
                kinds.add('next-gone')
        elif op == 'c':
            if state.get(ins[1]) != 'open':
                kinds.add('cancel-gone')
            state[ins[1]] = 'gone'
        elif op == 'x':
            kinds.add('dsl-raise')
            break
        elif op == 'r':
            break
    return kinds


def reachable(table, pid, acc=None):
    acc = set() if acc is None else acc
    if pid in acc:
        return acc
    acc.add(pid)
    from harness.runtime_sim import children
    for ins in table[pid]:
        for p in children(ins):
            reachable(table, p, acc)
    return acc


def classify_error(text: str) -> str:
    if 'dsl-raise' in text:
        return 'dsl-raise'
    if 'Cannot await on a canceled task' in text:
        return 'await-gone'
    if 'Cannot wait on an already completed result' in text:
        return 'next-gone'
    if 'Unable to map 0 tasks' in text:
        return 'map-empty'
    m = re.findall(r'^(\w+(?:Error|Exception|Exit|Interrupt))\b', text, re.M)
    cls = m[-1] if m else 'Unknown'
    if cls == 'KeyError' and 'in cancel' in text:
        return 'cancel-gone'
    return cls


def gen_shape_submit(rng: random.Random):
    r = rng.random()
    return None if r < 0.7 else 'kw' if r < 0.85 else 'named'


def gen_shape_map(rng: random.Random, n: int, style: str):
    """Every argument shape Worker.map accepts: equal lists, lists of different
    lengths (zip: the shortest decides), one packed list, keyword arguments,
    task_name / log_context lists; in the malformed style also no task at all."""
    r = rng.random()
    if style == 'malformed' and r < 0.12:
        return rng.choice([('z', 0, n), ('z', n + 1, 0), ('zn', 0, 0)])
    if r < 0.45:
        return None
    if r < 0.60:      # first list longer than the shortest
        return (rng.choice(['z', 'z', 'zn']), n + rng.randint(1, 3),
                rng.choice([n, n, n + 1, max(1, n - 1)]))
    if r < 0.70:      # first list is the shortest
        return (rng.choice(['z', 'zn']), max(1, n - rng.randint(0, 2)),
                n + rng.randint(0, 2))
    if r < 0.78:      # last list is the shortest
        return ('z', n + rng.randint(0, 2), max(1, n - rng.randint(1, 2)))
    if r < 0.86:
        return ('one',)
    if r < 0.93:
        return ('kw',)
    return ('named',)


def _sprinkle(rng, prog, preempt):
    if not preempt:
        return prog
    out = []
    for ins in prog:
        if rng.random() < preempt:
            out.append(('y',))
        out.append(ins)
    if rng.random() < preempt:
        out.append(('y',))
    return out


def gen_followup(rng: random.Random, table: list, depth: int, budget: list,
                 preempt: float) -> int:
    """The way passes use next(): map a batch, then per batch of results that
    came in do some follow-up work (submit + await, another map, an await of an
    older future) before asking for the next batch; results of the map keep
    arriving while the task waits for something else."""
    from harness.runtime_sim import eff_pids
    n = rng.randint(2, 4)
    budget[0] -= n
    kid = lambda: gen_prog(rng, table, max(depth - 2, 0),
                           rng.choice(['clean', 'clean', 'unawaited']),
                           budget, preempt)
    proto = kid()
    kids = tuple(proto if rng.random() < 0.7 else kid() for _ in range(n))
    sh = gen_shape_map(rng, n, 'followup')
    first = ('m', kids) if sh is None else ('m', kids, sh)
    n = len(eff_pids(first))
    prog = [first]
    nf = 1
    if rng.random() < 0.5:       # an older future awaited in between
        budget[0] -= 1
        prog.append(('s', kid()))
        nf += 1
        if rng.random() < 0.6:
            prog.append(('a', 1))
    for _ in range(rng.randint(1, n + 1)):
        prog.append(('n', 0))
        r = rng.random()
        if r < 0.6 and budget[0] > 0:
            budget[0] -= 1
            prog.append(('s', kid()))
            prog.append(('a', nf))
            nf += 1
        elif r < 0.75 and budget[0] > 1:
            budget[0] -= 2
            prog.append(('m', (kid(), kid())))
            prog.append(('a', nf))
            nf += 1
    if rng.random() < 0.5:
        prog.append(('a', 0))
    table.append(tuple(_sprinkle(rng, prog, preempt)))
    return len(table) - 1


def gen_prog(rng: random.Random, table: list, depth: int, style: str,
             budget: list, preempt: float = 0.0) -> int:
    """Appends a random program (children first) and returns its pid."""
    from harness.runtime_sim import eff_pids
    if style == 'followup' and depth > 0 and budget[0] >= 2:
        return gen_followup(rng, table, depth, budget, preempt)
    futs = []
    if depth > 0 and budget[0] > 0:
        nf = rng.choice([0, 1, 1, 2, 2, 3])
        for _ in range(nf):
            if budget[0] <= 0:
                break
            cstyle = style if rng.random() < 0.8 else 'clean'
            if rng.random() < 0.5:
                budget[0] -= 1
                pid = gen_prog(rng, table, depth - 1, cstyle, budget, preempt)
                sh = gen_shape_submit(rng)
                futs.append(('s', pid) if sh is None else ('s', pid, sh))
            else:
                n = rng.randint(1, 4)
                budget[0] -= n
                kids = []
                proto = gen_prog(rng, table, depth - 1, cstyle, budget,
                                 preempt)
                for i in range(n):
                    kids.append(proto if rng.random() < 0.6 else gen_prog(
                        rng, table, max(depth - 2, 0), cstyle, budget,
                        preempt))
                sh = gen_shape_map(rng, n, style)
                futs.append(('m', tuple(kids)) if sh is None
                            else ('m', tuple(kids), sh))
    plans = []
    for f in futs:
        n = 1 if f[0] == 's' else len(eff_pids(f))
        r = rng.random()
        if style == 'clean':
            plan = ['a']
        elif style == 'next':
            plan = ['n'] * rng.randint(1, n + 1)
            if r < 0.5:
                plan.append('a')
        elif style == 'cancel':
            plan = (['c'] if r < 0.45 else ['n', 'c'] if r < 0.6
                    else ['a'] if r < 0.9 else [])
        elif style == 'unawaited':
            plan = [] if r < 0.5 else ['a']
        elif style == 'malformed':
            plan = rng.choice([['a', 'a'], ['c', 'a'], ['a', 'c'],
                               ['c', 'c'], ['a', 'n'], ['c', 'n'], ['a']])
        else:
            plan = ['a']
        plans.append(plan)
    # random merge preserving per-future order; creation order = index order
    seqs = [[('new', i)] + [(op, i) for op in plan]
            for i, plan in enumerate(plans)]
    merged = []
    while any(seqs):
        cand = [s for s in seqs if s]
        # bias: create futures early (more concurrency)
        s = rng.choice([c for c in cand if c[0][0] == 'new'] or cand) \
            if rng.random() < 0.6 else rng.choice(cand)
        merged.append(s.pop(0))
    index = {}
    prog = []
    for op, i in merged:
        if op == 'new':
            index[i] = len(index)
            prog.append(futs[i])
        else:
            prog.append((op, index[i]))
    if style == 'raise' and rng.random() < 0.4:
        prog.insert(rng.randint(0, len(prog)), ('x',))
    if style == 'unawaited' and rng.random() < 0.15:
        prog.insert(rng.randint(0, len(prog)), ('r',))
    if preempt:
        # the worker's main thread can be preempted in the middle of a step:
        # before / between / after the calls into the runtime
        out = []
        for ins in prog:
            if rng.random() < preempt:
                out.append(('y',))
            out.append(ins)
        if rng.random() < preempt:
            out.append(('y',))
        prog = out
    table.append(tuple(prog))
    return len(table) - 1


STYLES = ['clean', 'clean', 'next', 'followup', 'followup', 'cancel',
          'cancel', 'unawaited', 'raise', 'malformed']


def gen_scenario(rng: random.Random, flavour: str | None = None) -> dict:
    r = rng.random()
    if flavour == 'flat' or (flavour is None and r < 0.35):
        topo = {'kind': 'attached', 'workers': rng.randint(1, 4)}
        ncl = 1
    elif flavour == 'dflat' or (flavour is None and r < 0.6):
        topo = {'kind': 'detached', 'workers': rng.randint(1, 4)}
        ncl = rng.choice([1, 2, 2, 3])
    else:
        topo = {'kind': 'detached',
                'managers': [rng.randint(1, 3)
                             for _ in range(rng.randint(1, 3))]}
        ncl = rng.choice([1, 1, 2])
    table: list = []
    clients = []
    # a third of the scenarios preempt worker steps (finer than handler-level
    # atomicity; these runs are judged by the oracles only once a transition
    # really ran inside a step)
    preempt = rng.choice([0.0, 0.0, 0.25, 0.5]) if rng.random() < 0.65 else 0.0
    for j in range(ncl):
        script = []
        nsub = rng.choice([1, 1, 2, 3])
        roots = []
        for _ in range(nsub):
            style = rng.choice(STYLES)
            depth = rng.choice([1, 2, 2, 3])
            roots.append(gen_prog(rng, table, depth, style,
                                  [rng.choice([4, 8, 14])], preempt))
        ops = [('submit', p) for p in roots]
        later = []
        for i in range(nsub):
            q = rng.random()
            if q < 0.55:
                later.append(('result', i))
            elif q < 0.75:
                later.append(('cancel', i))
            elif q < 0.85:
                later += [('status', i), ('result', i)]
            elif q < 0.92:
                later += [('cancel', i), ('result', i)]   # must fail
            # else: never asked for
        rng.shuffle(later)
        # interleave submits and later ops, keeping submit i before ops on i
        script = []
        pend = list(ops)
        nsubmitted = 0
        while pend or later:
            ok_later = [o for o in later if o[1] < nsubmitted]
            if pend and (not ok_later or rng.random() < 0.6):
                script.append(pend.pop(0))
                nsubmitted += 1
            else:
                o = ok_later[0]
                later.remove(o)
                script.append(o)
        if rng.random() < (0.15 if topo['kind'] == 'attached' else 0.3):
            script.insert(rng.randint(1, len(script)), ('disconnect',))
        clients.append(script)
    return {'topo': topo, 'table': tuple(table), 'clients': clients}


# ------------------------------------------------------------------ oracles
class Verdicts:
    def __init__(self):
        self.items = []       # (prop, signature, what, detail)

    def add(self, prop, sig, what, detail=None):
        self.items.append((prop, sig, what, detail))


def _name(m):
    return m[0].name if hasattr(m[0], 'name') else str(m[0])


def check_step(sim, rec, V: Verdicts, st: dict):
    """C15 invariants after every transition + per-call partition."""
    from bqskit.runtime.message import RuntimeMessage as M
    for n in sim.bosses():
        o = n.obj
        if not o.running:
            continue
        tot = 0
        for i, e in enumerate(o.employees):
            tot += e.num_idle_workers
            if not (0 <= e.num_idle_workers <= e.total_workers):
                V.add('C15', f'idle-out-of-bounds:{n.kind}',
                      f'{n.name}: employee {i} num_idle_workers='
                      f'{e.num_idle_workers} outside [0,{e.total_workers}]',
                      rec['t'])
            if e.num_tasks < 0:
                V.add('C15', f'num_tasks-negative:{n.kind}',
                      f'{n.name}: employee {i} num_tasks={e.num_tasks}',
                      rec['t'])
        if o.num_idle_workers != tot:
            V.add('C15', f'idle-sum-mismatch:{n.kind}',
                  f'{n.name}: num_idle_workers={o.num_idle_workers} but '
                  f'sum over employees={tot}', rec['t'])
        if not (0 <= o.num_idle_workers <= o.total_workers):
            V.add('C15', f'idle-total-out-of-bounds:{n.kind}',
                  f'{n.name}: num_idle_workers={o.num_idle_workers} outside '
                  f'[0,{o.total_workers}]', rec['t'])
    tr = rec['tr']
    if tr[0] == 'd' and not rec.get('dropped'):
        src, dst = tr[1], tr[2]
        m = rec['msg']
        dn = sim.nodes[dst]
        if dn.kind in 'SM' and m is not None and m[0] in (
                M.SUBMIT, M.SUBMIT_BATCH) and 'exc' not in rec:
            if sim.nodes[src].kind == 'C':
                inp = None
            elif m[0] == M.SUBMIT:
                inp = [m[1].return_address]
            else:
                inp = [t.return_address for t in m[1]]
            out = []
            for (a, b, mm) in rec['emitted']:
                if a == dst and mm[0] == M.SUBMIT_BATCH:
                    out += [t.return_address for t in mm[1]]
                    if not mm[1]:
                        V.add('C15', 'empty-batch', f'{dst} sent an empty '
                              'SUBMIT_BATCH', rec['t'])
            if inp is None:
                ok = len(out) == 1 and out[0].worker_id == -1
                if ok:
                    ci = sim.uuid2comp.get(m[1].task_id)
                    st['root_addr'][ci] = tuple(out[0])
                    st['submitted'].add(tuple(out[0]))
            else:
                ok = sorted(inp) == sorted(out)
            if not ok and dn.alive:
                V.add('C15', f'assignment-not-a-partition:{dn.kind}',
                      f'{dst}: tasks received {inp} but forwarded {out}',
                      rec['t'])
        if dn.kind == 'W' and m is not None and m[0] in (
                M.SUBMIT, M.SUBMIT_BATCH):
            for a in rec.get('batch', ()):
                st['arrived'].setdefault((dst, a), rec['t'])
        if dn.kind == 'W' and m is not None and m[0] == M.CANCEL:
            st['processed'].setdefault(dst, {}).setdefault(
                tuple(m[1]), rec['t'])
        if dn.kind == 'S' and sim.nodes[src].kind == 'C' \
                and m is not None and m[0] == M.CANCEL:
            ci = sim.uuid2comp.get(m[1])
            if ci is not None:
                st['client_cancel_processed'].setdefault(ci, rec['t'])
        if dn.kind == 'S' and sim.nodes[src].kind == 'C' and (
                m is None or m[0] in ('<EOF>', M.DISCONNECT)):
            st['client_gone'].setdefault(src, rec['t'])
    for (a, b, mm) in rec['emitted']:
        k = mm[0]
        if k == M.CANCEL and sim.nodes[b].kind != 'C' \
                and sim.nodes[a].kind != 'C':
            st['cancel_issued'].setdefault(tuple(mm[1]), rec['t'])
        elif k in (M.SUBMIT, M.SUBMIT_BATCH):
            ts = [mm[1]] if k == M.SUBMIT else mm[1]
            if sim.nodes[a].kind == 'W':
                for t in ts:
                    st['submitted'].add(tuple(t.return_address))
            if sim.nodes[b].kind == 'W':
                for t in ts:
                    key = tuple(t.return_address)
                    st['to_worker'][key] = st['to_worker'].get(key, 0) + 1
                    if st['to_worker'][key] > 1:
                        V.add('C15', 'task-forwarded-twice',
                              f'task {key} was sent to a worker twice',
                              rec['t'])
        elif (k == M.UPDATE and mm[1] == -1 and sim.nodes[a].kind == 'W') \
                or (k == M.RESULT and sim.nodes[a].kind == 'W'):
            st['decrements'][a] = st['decrements'].get(a, 0) + 1
        elif k == M.ERROR:
            if sim.nodes[a].kind == 'W':
                p = mm[1]
                # the task that was running: the last body event of this step
                who = None
                for i in range(len(sim.events) - 1, -1, -1):
                    if sim.events[i][0] < rec['t']:
                        break
                    if sim.ev_step[i] == rec['t'] and sim.events[i][1] in (
                            'start', 'spawn', 'await', 'saw', 'cancel',
                            'raise'):
                        who = sim.events[i][2]
                        break
                st['error_task'][(rec['t'], a)] = (who, sim.t)
                if isinstance(p, tuple):
                    st['errors'].append((rec['t'], a, p[0],
                                         classify_error(p[1]), p[1][-600:]))
                else:
                    st['errors'].append((rec['t'], a, None,
                                         classify_error(p), p[-600:]))
        elif k == M.RESULT and sim.nodes[b].kind == 'C':
            from harness.runtime_sim import enc
            term = enc(mm[1])
            st['client_results'].append((rec['t'], b, term))


def new_state():
    return {'root_addr': {}, 'submitted': set(), 'processed': {},
            'cancel_issued': {}, 'to_worker': {}, 'errors': [],
            'client_results': [], 'client_cancel_processed': {},
            'client_gone': {}, 'arrived': {}, 'decrements': {},
            'error_task': {}}


def evaluate(sim, quiescent: bool, st: dict, V: Verdicts) -> dict:
    """All end-of-run oracles.  Returns per-run statistics."""
    from harness.runtime_sim import reference_term
    table = sim.sc['table']
    ev = sim.events
    stats = {'tasks': 0, 'cancels': len(st['cancel_issued']), 'awaits': 0,
             'next': 0, 'errors': len(st['errors'])}
    # ------------------------------------------------- ground truth tables
    addr_of = {}            # tag -> (wid, mbox, slot)
    pid_of = {}
    for ci, a in st['root_addr'].items():
        addr_of[(ci,)] = a
        pid_of[(ci,)] = sim.comp[ci]['pid']
    spawn = {}
    for e in ev:
        if e[1] == 'spawn':
            _, _, tag, k, wid, mbox, pids = e
            spawn[(tag, k)] = (wid, mbox, pids)
            for i, p in enumerate(pids):
                addr_of[tag + (k, i)] = (wid, mbox, i)
                pid_of[tag + (k, i)] = p
    tag_of = {a: t for t, a in addr_of.items()}
    box_owner = {(w, m): tag for (tag, k), (w, m, _) in spawn.items()}
    spawn_t = {(e[4], e[5]): e[0] for e in ev if e[1] == 'spawn'}

    def lineage(tag):
        out = []
        for ln in range(1, len(tag) + 1, 2):
            a = addr_of.get(tag[:ln])
            if a is not None:
                out.append(a)
        return out
    C = st['cancel_issued']

    def cancelled_at(tag, t=None):
        for a in lineage(tag):
            if a in C and (t is None or C[a] <= t):
                return True
        return False
    returned = {}
    starts = {}
    for e in ev:
        if e[1] == 'ret':
            returned[e[2]] = e[3]
        elif e[1] == 'start':
            starts.setdefault(e[2], []).append((e[0], e[4]))
    stats['tasks'] = len(starts)
    srv = sim.nodes['S'].obj
    wname = {n.wid: n.name for n in sim.workers()}
    system_up = srv.running
    err_comps = {}
    for (t, w, comp, cls, txt) in st['errors']:
        err_comps.setdefault(comp, []).append(cls)
    comp_of_mbox = {a[1]: ci for ci, a in st['root_addr'].items()}
    errored = {comp_of_mbox.get(c) for c in err_comps if c is not None}

    # ----------------------------------------------------------------- C07
    nexts = {}
    ev_index = {id(e): i for i, e in enumerate(ev)}
    body_cancel = {}
    for i, e in enumerate(ev):
        if e[1] == 'cancel':
            body_cancel.setdefault((e[2], e[3]), i)
    for e in ev:
        if e[1] != 'saw':
            continue
        t, _, tag, k, kind, v, wid = e
        sp = spawn.get((tag, k))
        if sp is None:
            V.add('C07', 'value-from-nowhere', f'{tag} saw a value for an '
                  f'unknown future {k}', t)
            continue
        n = len(sp[2])
        kids = [returned.get(tag + (k, i)) for i in range(n)]
        if kind == 'a':
            stats['awaits'] += 1
            exp = kids[0] if len(sp[2]) == 1 and _is_submit(
                table, pid_of[tag], k) else ('L', tuple(kids))
            if v != exp:
                V.add('C07', 'await-wrong-value',
                      f'task {tag} awaited future {k} and received {v!r}; '
                      f'the calls it was created for returned {exp!r}', t)
        else:
            stats['next'] += 1
            got = nexts.setdefault((tag, k), [])
            seen_slots = {s for b in got for s, _ in b}
            for s, x in v[1]:
                if s in seen_slots:
                    V.add('C07', 'next-duplicate', f'task {tag} future {k}: '
                          f'slot {s} delivered twice by next()', t)
                seen_slots.add(s)
                if not (0 <= s < n) or x != kids[s]:
                    V.add('C07', 'next-wrong-value', f'task {tag} future {k}:'
                          f' next() gave slot {s} value {x!r}, expected '
                          f'{kids[s] if 0 <= s < n else None!r}', t)
            got.append(v[1])
            if len(seen_slots) < min(len(got), n):
                V.add('C07', 'next-incomplete', f'task {tag} future {k}: '
                      f'after {len(got)} next() calls only '
                      f'{len(seen_slots)} of {n} results', t)
        if (tag, k) in body_cancel and body_cancel[(tag, k)] < ev_index[id(e)]:
            V.add('C12', 'value-after-cancel', f'task {tag} received a value '
                  f'of future {k} after cancelling it', t)
    for tag, ss in starts.items():
        if len(ss) > 1:
            V.add('C07', 'body-started-twice', f'task {tag} body started '
                  f'{len(ss)} times: {ss}', ss[1][0])
    # errors must be caused by the bodies
    legit = {}
    for ci, c in enumerate(sim.comp):
        kinds = set()
        for p in reachable(table, c['pid']):
            kinds |= misuse(table[p])
        legit[ci] = kinds
    for (t, w, comp, cls, txt) in st['errors']:
        ci = comp_of_mbox.get(comp)
        if comp is None or ci is None or cls not in legit.get(ci, ()):
            # raised by a task whose CANCEL this worker handled while the
            # task was in the middle of the step (it goes on and calls into
            # the runtime with its mailboxes gone)?
            who, t_end = st['error_task'].get((t, w), (None, t))
            proc = st['processed'].get(w, {})
            if who is not None and any(
                    x in proc and proc[x] <= t_end for x in lineage(who)):
                cls = cls + ':task-cancelled-midstep'
            V.add('C07', f'unexpected-error:{cls}',
                  f'{w} sent an ERROR ({cls}) that no task body raised: '
                  f'...{txt[-300:]}', t)
            # C12 (cancelling disturbs nothing else): the compilation was not
            # cancelled by its client, one of its tasks cancelled a future,
            # and now the client of the compilation is told about an error
            # that no body raised
            if ci is not None and ci not in st['client_cancel_processed'] \
                    and any(tt <= t and tag_of.get(a, (None,))[0] == ci
                            for a, tt in C.items()):
                V.add('C12', f'error-reaches-uncancelled-compilation:{cls}',
                      f'{w} sent an ERROR ({cls}) for compilation {ci}, which '
                      f'was not cancelled: a task of it cancelled a future and '
                      f'the tear-down of the cancelled work raised an error no '
                      f'task body raised: ...{txt[-300:]}', t)
    for (t, kind, detail) in sim.anomalies:
        V.add('C07', f'{kind}:{detail[1]}', f'{detail}', t)
    for (t, node, txt) in sim.syserr:
        cls = classify_error(txt)
        if 'num_idle_workers <= self.total_workers' in txt:
            V.add('C15', 'idle-assertion-fired', f'{node}: the consistency '
                  f'assertion of handle_waiting fired', t)
        elif 'Read receipt not found' in txt:
            V.add('C15', 'read-receipt-missing', f'{node}: '
                  'get_num_of_tasks_sent_since raised', t)
        else:
            V.add('C07', f'system-error:{cls}', f'{node} handle_system_error:'
                  f' ...{txt[-300:]}', t)
    # client results
    for (t, cname, term) in st['client_results']:
        if not (isinstance(term, tuple) and term and term[0] == 'N'):
            V.add('C07', 'client-result-garbage', f'{cname} got {term!r}', t)
            continue
        ci = term[1][0]
        if sim.comp[ci]['client'] != cname:
            V.add('C07', 'client-result-misrouted', f'{cname} received the '
                  f'result of compilation {ci} of {sim.comp[ci]["client"]}',
                  t)
        if returned.get((ci,)) != term:
            V.add('C07', 'client-result-wrong', f'{cname} received {term!r} '
                  f'but the root returned {returned.get((ci,))!r}', t)
        tcp = st['client_cancel_processed'].get(ci)
        if tcp is not None and t > tcp:
            V.add('C12', 'client-result-after-cancel', f'RESULT of cancelled '
                  f'compilation {ci} sent to {cname}', t)
    for e in ev:
        if e[1] == 'client' and e[3] == 'result':
            _, _, cname, _, idx, term = e
            cn = sim.nodes[cname]
            ci = sim.uuid2comp[cn.tids[idx]]
            if not (isinstance(term, tuple) and term[1] == (ci,)):
                V.add('C07', 'result-of-other-task', f'{cname}.result({idx})'
                      f' returned {term!r}', e[0])
            ref = reference_term(table, sim.comp[ci]['pid'], (ci,))
            if ref is not None and term != ref:
                V.add('C07', 'result-differs-from-reference',
                      f'{cname}.result({idx}) = {term!r}, reference '
                      f'interpreter says {ref!r}', e[0])
            stats['ref_checked'] = stats.get('ref_checked', 0) + (
                ref is not None)
    # ----------------------------------------------------------------- C12
    # (3) no body activity after the worker processed a CANCEL of its lineage
    for ei, e in enumerate(ev):
        if e[1] in ('start', 'saw', 'ret'):
            t, kind, tag = e[0], e[1], e[2]
            wid = e[4] if kind in ('start', 'ret') else e[6]
            proc = st['processed'].get(wname.get(wid), {})
            # a step that was already running when the incoming thread
            # processed the CANCEL cannot be stopped: only steps that START
            # afterwards count
            t_step = sim.ev_step[ei]
            for a in lineage(tag):
                if a in proc and proc[a] < t_step:
                    V.add('C12', 'descendant-started-after-cancel'
                          if kind == 'start' else 'cancelled-task-stepped',
                          f'task {tag} ({kind}) ran on worker {wid} at t={t} '
                          f'after that worker processed CANCEL{a} at '
                          f't={proc[a]}', t)
                    break
    # (2) awaiting a cancelled future fails
    cancels = {}
    rec_of = {r['t']: r for r in sim.translog}
    # (4) a cancel reaches every slot of the future that has no result yet:
    # for each unfinished slot the cancelling step puts a CANCEL of that
    # slot's address on the wire (otherwise no node can ever learn that the
    # slot - and everything it spawns from now on - is cancelled)
    from bqskit.runtime.message import RuntimeMessage as _M
    for ei, e in enumerate(ev):
        if e[1] != 'cancel' or len(e) < 7 or e[6] is None or e[5] is None:
            continue
        rec = rec_of.get(sim.ev_step[ei])
        if rec is None:
            continue
        if any(mm[0] == _M.ERROR for _, _, mm in rec['emitted']):
            continue            # the call itself failed: other oracles
        sent = set()
        for _, _, mm in rec['emitted']:
            if mm[0] == _M.CANCEL and hasattr(mm[1], 'mailbox_index'):
                sent.add((mm[1].worker_id, mm[1].mailbox_index,
                          mm[1].mailbox_slot))
        missing = [sl for sl in e[6] if (e[4], e[5], sl) not in sent]
        stats['cancel_slot_checks'] = stats.get('cancel_slot_checks', 0) + 1
        if missing:
            V.add('C12', 'cancel-skips-unfinished-slot',
                  f'task {e[2]} cancelled future {e[3]} (mailbox {e[5]} of '
                  f'worker {e[4]}) while slots {list(e[6])} had no result '
                  f'yet, but no CANCEL was sent for slots {missing}: that '
                  f'work and whatever it submits from now on is never '
                  f'cancelled anywhere', e[0])
    for ei, e in enumerate(ev):
        if e[1] == 'cancel':
            cancels.setdefault((e[2], e[3]), e[0])
        elif e[1] == 'await' and (e[2], e[3]) in cancels:
            t = e[0]
            rec = rec_of[sim.ev_step[ei]]
            from bqskit.runtime.message import RuntimeMessage as M
            if not any(mm[0] == M.ERROR for _, _, mm in rec['emitted']) \
                    and not cancelled_at(e[2], t):
                V.add('C12', 'await-cancelled-did-not-fail', f'task {e[2]} '
                      f'awaited its cancelled future {e[3]} without error', t)
    # client cancel then result must fail
    done_cancel = {}
    for e in ev:
        if e[1] == 'client' and e[3] == 'cancel':
            done_cancel[(e[2], e[4])] = e[0]
        if e[1] == 'client' and e[3] == 'result' \
                and (e[2], e[4]) in done_cancel:
            V.add('C12', 'result-after-client-cancel', f'{e[2]}.result('
                  f'{e[4]}) returned after cancel({e[4]}) returned', e[0])

    # -------------------------------------------------- quiescence oracles
    if quiescent and system_up:
        clean_run = not st['errors'] and not sim.anomalies and not sim.syserr
        # C07 progress / exactly once
        for tag in addr_of:
            ci = tag[0]
            if ci in errored or cancelled_at(tag):
                continue
            owner = sim.comp[ci]['client']
            if owner in st['client_gone']:
                continue
            a = addr_of[tag]
            if a not in st['submitted']:
                continue        # creator never got to send it
            if tag not in starts:
                V.add('C07', 'task-never-started', f'task {tag} (address '
                      f'{a}) not cancelled but never started', sim.t)
            elif tag not in returned:
                V.add('C07', 'task-waits-forever', f'task {tag} started, '
                      f'not cancelled, never finished (system idle)', sim.t)
        for cn in [n for n in sim.nodes.values() if n.kind == 'C']:
            if cn.pending is not None and cn.alive:
                kind, idx, tid = cn.pending
                ci = sim.uuid2comp[tid]
                if ci not in errored:
                    V.add('C07', f'client-{kind}-blocked-forever',
                          f'{cn.name}.{kind}({idx}) never returned '
                          f'(system idle)', sim.t)
        for key, n in st['to_worker'].items():
            pass
        for a in st['submitted']:
            if st['to_worker'].get(a, 0) != 1:
                V.add('C15', 'task-not-forwarded-exactly-once',
                      f'task {a} reached {st["to_worker"].get(a, 0)} workers',
                      sim.t)
        # C12 cleanup
        for n in sim.workers():
            if not n.alive or n.in_dead:
                continue
            w = n.obj
            for a, task in w._tasks.items():
                tag = tag_of.get(tuple(a))
                if tag is None:
                    continue
                if cancelled_at(tag):
                    # how did it get there?  (the known leak: its SUBMIT
                    # reached this worker after the CANCEL of an ancestor)
                    proc = st['processed'].get(n.name, {})
                    arr = st['arrived'].get((n.name, tuple(a)))
                    late = arr is not None and any(
                        x in proc and proc[x] < arr for x in lineage(tag))
                    how = ('arrived-after-cancel' if late and tag not in
                           starts else 'started' if tag in starts
                           else 'other')
                    V.add('C12', f'leak:worker._tasks:{how}',
                          f'{n.name} still holds cancelled task {tag} '
                          f'{tuple(a)} in _tasks at idle ({how})', sim.t)
                elif tag[0] not in errored:
                    V.add('C07', 'idle-task-left', f'{n.name} holds '
                          f'un-cancelled task {tag} at idle', sim.t)
            for task in w._delayed_tasks:
                tag = tag_of.get(tuple(task.return_address))
                if tag is not None and cancelled_at(tag):
                    V.add('C12', 'leak:worker._delayed_tasks', f'{n.name} '
                          f'still holds cancelled delayed task {tag}', sim.t)
            for m in w._mailboxes:
                owner = box_owner.get((n.wid, m))
                if owner is None:
                    continue
                kid = None
                for (tg, k), (ww, mm, _) in spawn.items():
                    if (ww, mm) == (n.wid, m):
                        kid = tg + (k, 0)
                # created by a task AFTER this worker's incoming thread
                # processed the CANCEL of the task's lineage (the task was in
                # the middle of a step and went on)?
                proc = st['processed'].get(n.name, {})
                ts = spawn_t.get((n.wid, m), 0)
                zombie = any(x in proc and proc[x] < ts
                             for x in lineage(owner))
                if zombie:
                    V.add('C12', 'leak:worker._mailboxes:'
                          'created-after-midstep-cancel',
                          f'{n.name} still holds mailbox {m} of cancelled '
                          f'work (owner {owner}): the owner was cancelled in '
                          'the middle of a step (CANCEL handled by the '
                          'incoming thread) and created this future '
                          'afterwards; nothing ever removes it', sim.t)
                elif owner in returned:
                    # the owner finished; its completion-time clean-up
                    # neither released nor cancelled this future
                    V.add('C12', 'orphan:worker._mailboxes:owner-completed'
                          + (':lineage-cancelled' if cancelled_at(owner)
                             else ''),
                          f'{n.name} still holds mailbox {m} at idle; its '
                          f'owner {owner} completed without awaiting it and '
                          f'the completion-time clean-up skipped it', sim.t)
                elif cancelled_at(owner) or (kid and cancelled_at(kid)):
                    V.add('C12', 'leak:worker._mailboxes', f'{n.name} still '
                          f'holds mailbox {m} of cancelled work (owner '
                          f'{owner})', sim.t)
            if w._ready_task_ids.qsize():
                V.add('C12', 'leak:worker._ready_task_ids', f'{n.name} ready '
                      'queue not empty at idle', sim.t)
        for ci, a in st['root_addr'].items():
            if a in C and a[1] in srv.mailboxes:
                V.add('C12', 'leak:server.mailboxes', f'server still holds '
                      f'mailbox {a[1]} of cancelled compilation {ci}', sim.t)
        # C15 exactness at quiescence (server managing workers directly)
        flat = not sim.sc['topo'].get('managers')
        if flat and clean_run:
            truth = {n.wid: len(n.obj._tasks) + len(n.obj._delayed_tasks)
                     for n in sim.workers()}
            bad_tasks = [(e.id, e.num_tasks, truth[e.id])
                         for e in srv.employees if e.num_tasks != truth[e.id]]
            bad_idle = [(e.id, e.num_idle_workers) for e in srv.employees
                        if e.num_idle_workers != e.total_workers]
            stats['exact_checked'] = 1
            if bad_idle or srv.num_idle_workers != srv.total_workers:
                V.add('C15', 'idle-not-exact-at-quiescence'
                      + (':after-cancel' if C else ''),
                      f'system idle but server believes idle='
                      f'{srv.num_idle_workers}/{srv.total_workers} '
                      f'{bad_idle}', sim.t)
            # the counter arithmetic itself: charged at SUBMIT_BATCH, one
            # decrement per RESULT / UPDATE(-1) the worker sent
            for e in srv.employees:
                nm = wname[e.id]
                dec = st['decrements'].get(nm, 0)
                dlv = sum(1 for (w_, a_) in st['arrived'] if w_ == nm)
                if e.num_tasks != dlv - dec:
                    V.add('C15', 'num_tasks-counter-arithmetic',
                          f'worker {e.id}: {dlv} tasks delivered, {dec} '
                          f'completions reported, server num_tasks='
                          f'{e.num_tasks}', sim.t)
            if bad_tasks:
                V.add('C15', 'num_tasks-not-exact-at-quiescence'
                      + (':after-cancel' if C else ''),
                      f'system idle, workers hold no such tasks, but server '
                      f'counts (worker, num_tasks, held) = {bad_tasks}',
                      sim.t)
            stats['drift'] = bool(bad_tasks)
    elif not quiescent:
        V.add('C07', 'no-quiescence', f'run did not become idle within '
              f'{sim.t} transitions', sim.t)
    stats['quiescent'] = quiescent
    stats['system_up'] = system_up
    return stats


def _is_submit(table, pid, k):
    i = 0
    for ins in table[pid]:
        if ins[0] in 'sm':
            if i == k:
                return ins[0] == 's'
            i += 1
    return False


# -------------------------------------------------------------- single run
def run_one(scenario, run_seed, schedule=None, max_steps=4000,
            with_model=False, cont=False):
    """Runs one scenario on the real code; returns (sim, verdicts, stats)."""
    from harness import runtime_sim as rs
    random.seed(run_seed)
    sim = rs.Sim(scenario, seed=run_seed)
    V = Verdicts()
    st = new_state()
    pol = rs.Policy.biased(sim.rng, sim)
    recorder = None
    if with_model:
        from harness import runtime_model as rm
        recorder = rm.Recorder(sim, scenario)

    def after(s, rec):
        check_step(s, rec, V, st)
        if recorder:
            recorder.after(s, rec)
    quiescent = sim.run(pol, max_steps=max_steps, schedule=schedule,
                        after=after, cont=cont,
                        before=recorder.before if recorder else None)
    stats = evaluate(sim, quiescent, st, V)
    sim.recorder = recorder
    stats['style'] = getattr(pol, 'style', 'replay')
    stats['transitions'] = sim.t
    stats['transitions_inside_a_worker_step'] = sim.nested_fired
    stats['runs_with_a_preempted_step'] = int(sim.nested_fired > 0)
    return sim, V, stats, st


# ------------------------------------------------------------------- batch
def _tuplify(x):
    if isinstance(x, list):
        return tuple(_tuplify(y) for y in x)
    return x


def scenario_from_json(d):
    return {'topo': d['topo'], 'table': _tuplify(d['table']),
            'clients': [[tuple(op) for op in sc] for sc in d['clients']]}


def _run_chunk(args):
    """Worker process: runs a chunk of seeded scenarios on the real code and
    replays all of them on the Lean model with ONE driver process."""
    base_seed, idxs, with_model = args
    import gc
    import warnings
    warnings.simplefilter('ignore')
    out = []
    recs = []
    for i in idxs:
        rs = base_seed * 1000003 + i
        rng = random.Random(rs)
        sc = gen_scenario(rng, None)
        sim, V, stats, st = run_one(sc, rs, with_model=with_model)
        key = hashlib.sha1(repr((sc, sim.schedule())).encode()).hexdigest()[:16]
        verd = []
        seen = set()
        for (prop, sig, what, d) in V.items:
            if (prop, sig) in seen:
                continue
            seen.add((prop, sig))
            verd.append((prop, sig, what))
        res = {'i': i, 'key': key, 'stats': stats, 'verdicts': verd,
               'counts': _sig_counts(V), 'topo': sc['topo'],
               'had_cancel': stats['cancels'] > 0,
               'replay': {'scenario': sc, 'run_seed': rs,
                          'schedule': sim.schedule()}}
        if with_model:
            recs.append((len(out), sim.recorder))
        sim.dispose()
        if i % 97 == 0:
            res['sample'] = {'topo': sc['topo'],
                             'programs': [list(map(list, p))
                                          for p in sc['table']][:6],
                             'clients': sc['clients'],
                             'transitions': sim.t, 'style': stats['style']}
        out.append(res)
    if with_model and recs:
        from harness import runtime_model as rm
        lines = []
        for _, rec in recs:
            lines += rec.lines
        got = rm.run_driver(lines)
        pos = 0
        for k, rec in recs:
            n = len(rec.lines)
            out[k]['model'] = rm.compare(rec, got[pos:pos + n])
            pos += n
            if out[k]['model']['mismatch']:
                out[k]['model']['mismatch']['replay'] = out[k]['replay']
    for r in out:
        if not r['verdicts']:
            r.pop('replay', None)
    return out


def _sig_counts(V):
    c = {}
    for (prop, sig, what, d) in V.items:
        c[f'{prop}|{sig}'] = c.get(f'{prop}|{sig}', 0) + 1
    return c


def code_key(seed, tier):
    h = hashlib.sha256()
    files = sorted((REPO / 'bqskit' / 'runtime').glob('*.py'))
    files += sorted((REPO / 'bqskit' / 'compiler').glob('*.py'))
    files += sorted((VERIF / 'harness').glob('runtime_*.py'))
    files += sorted((VERIF / 'lean' / 'BqVerif' / 'Model').glob('*.lean'))
    files += sorted((VERIF / 'lean' / 'BqVerif' / 'Drivers').glob('*.lean'))
    for f in files:
        h.update(str(f).encode())
        h.update(f.read_bytes())
    h.update(f'{seed}|{tier}'.encode())
    return h.hexdigest()[:24]


def n_runs(tier):
    return 6000 if tier == 'thorough' else 600


def pool_size():
    """at most 8 worker processes (shared machine), fewer when it is already oversubscribed."""
    n = min(8, os.cpu_count() or 1)
    try:
        if os.getloadavg()[0] > n:
            n = max(4, n // 2)
    except OSError:
        pass
    return n


def run_batch(seed: int, tier: str, with_model: bool) -> dict:
    """The simulated batch shared by the three checks (cached)."""
    cdir = VERIF / '.cache'
    cdir.mkdir(exist_ok=True)
    key = code_key(seed, tier) + ('m' if with_model else '')
    cf = cdir / f'rt-{key}.json'
    if cf.exists() and not os.environ.get('VERIF_NOCACHE'):
        try:
            return json.loads(cf.read_text())
        except Exception:
            pass
    N = n_runs(tier)
    t0 = time.time()
    parts = run_workers('batch', seed, tier, with_model)
    runs = sorted((r for p in parts for r in p), key=lambda r: r['i'])
    agg = {'runs': len(runs), 'wall_s': round(time.time() - t0, 1),
           'keys': [r['key'] for r in runs], 'verdicts': {}, 'counts': {},
           'stats': {}, 'samples': [], 'topo': {}, 'style': {},
           'model': {'transitions': 0, 'mismatch': []}}
    for r in runs:
        for k, v in r['stats'].items():
            if isinstance(v, bool):
                v = int(v)
            if isinstance(v, int):
                agg['stats'][k] = agg['stats'].get(k, 0) + v
        t = r['topo']
        tk = (f"{t['kind']}:managers={t['managers']}" if t.get('managers')
              else f"{t['kind']}:workers={t['workers']}")
        agg['topo'][tk] = agg['topo'].get(tk, 0) + 1
        agg['style'][r['stats']['style']] = agg['style'].get(
            r['stats']['style'], 0) + 1
        for k, v in r['counts'].items():
            agg['counts'][k] = agg['counts'].get(k, 0) + v
        for (prop, sig, what) in r['verdicts']:
            agg['verdicts'].setdefault(f'{prop}|{sig}', {
                'prop': prop, 'sig': sig, 'what': what,
                'replay': r['replay'], 'had_cancel': r['had_cancel']})
        if 'sample' in r and len(agg['samples']) < 6:
            agg['samples'].append(r['sample'])
        if 'model' in r:
            agg['model']['transitions'] += r['model']['transitions']
            if r['model']['mismatch']:
                agg['model']['bad_runs'] = agg['model'].get('bad_runs', 0) + 1
                if len(agg['model']['mismatch']) < 5:
                    agg['model']['mismatch'].append(r['model']['mismatch'])
    cf.write_text(json.dumps(agg, default=str))
    return agg


def report(ck: Check, agg: dict, prop: str):
    """Turn the batch verdicts of `prop` into violations / coverage."""
    for k in agg['keys']:
        ck.count(k)
    ck.coverage['runs'] = agg['runs']
    ck.coverage['batch_wall_s'] = agg['wall_s']
    ck.coverage['totals'] = agg['stats']
    ck.coverage['topologies'] = agg['topo']
    ck.coverage['schedule_styles'] = agg['style']
    ck.coverage['oracle_hits'] = {k: v for k, v in agg['counts'].items()
                                  if k.startswith(prop)}
    for s in agg['samples'][:4]:
        ck.sample(s)
    for k, v in sorted(agg['verdicts'].items()):
        if v['prop'] != prop:
            continue
        ck.violation(v['sig'], v['what'], v['replay'], found_input=True)


def replay(ck: Check, prop: str):
    body = json.loads(Path(ck.replay_path).read_text())
    rp = body['replay']
    if 'fine_bits' in rp:
        from harness import runtime_fine as rf
        r = rf.run_schedule(rp['fine_bits'])
        print(json.dumps({k: r[k] for k in r if k not in ('snaps', 'holders')},
                         indent=1, default=str))
        if not r['ok']:
            report_fine_bad(ck, r)
        print('reproduced' if not r['ok'] else 'NOT reproduced')
        return
    if 'scenario' not in rp:
        print(f'replay: {body.get("what")}')
        print('  (no schedule recorded: this entry names a broken proof or '
              'correspondence)')
        return
    sc = scenario_from_json(rp['scenario'])
    sim, V, stats, st = run_one(sc, rp['run_seed'], schedule=rp['schedule'])
    print(f'replayed {sim.t} transitions on the real code; quiescent='
          f'{stats["quiescent"]}')
    hit = False
    for (p, sig, what, d) in V.items:
        mark = '*' if (p == body['property'] and sig == body['signature']) \
            else ' '
        hit |= mark == '*'
        print(f' {mark} {p} {sig}: {what}')
        if p == prop:
            ck.violation(sig, what, rp, found_input=True)
    print('reproduced' if hit else 'NOT reproduced')


# ------------------------------------------------- witnesses on the real code
def _w(*names):
    return [list(x) for x in names]


WITNESSES = {
    'leak': {
        'prop': 'C12', 'expect': None,      # fixed by dfc4d06: regression
        'theorem': 'regression example of Props/C12 (was C12_leak_witness)',
        'scenario': {'topo': {'kind': 'detached', 'workers': 1},
                     'table': ((), (('s', 0), ('a', 0))),
                     'clients': [[('submit', 1), ('cancel', 0)]]},
        'schedule': [('w', 'W0'), ('c', 'C0'), ('d', 'C0', 'S'),
                     ('d', 'S', 'W0'), ('w', 'W0'), ('c', 'C0'),
                     ('d', 'C0', 'S'), ('d', 'W0', 'S'), ('d', 'W0', 'S'),
                     ('d', 'S', 'W0'), ('d', 'S', 'W0'), ('w', 'W0'),
                     ('d', 'W0', 'S'), ('d', 'S', 'C0')]},
    'orphan': {
        'prop': 'C12', 'expect': None,      # fixed by 6ca9fa1: regression
        'theorem': 'regression example of Props/C12 (was C12_orphan_witness)',
        'scenario': {'topo': {'kind': 'detached', 'workers': 1},
                     'table': ((), (('s', 0), ('s', 0))),
                     'clients': [[('submit', 1)]]},
        'schedule': [('w', 'W0'), ('c', 'C0'), ('d', 'C0', 'S'),
                     ('d', 'W0', 'S'), ('d', 'S', 'W0'), ('w', 'W0')]
        + [('d', 'W0', 'S')] * 4 + [('d', 'S', 'W0')] * 3
        + [('w', 'W0'), ('w', 'W0'), ('d', 'W0', 'S'), ('d', 'W0', 'S')]},
    'drift': {
        'prop': 'C15',
        'expect': 'num_tasks-not-exact-at-quiescence:after-cancel',
        'theorem': 'C15_drift_witness',
        'scenario': {'topo': {'kind': 'detached', 'workers': 1},
                     'table': ((), (('s', 0), ('c', 0))),
                     'clients': [[('submit', 1)]]},
        'schedule': [('w', 'W0'), ('c', 'C0'), ('d', 'C0', 'S'),
                     ('d', 'W0', 'S'), ('d', 'S', 'W0'), ('w', 'W0')]
        + [('d', 'W0', 'S')] * 3 + [('d', 'S', 'W0')] * 2
        + [('w', 'W0'), ('d', 'W0', 'S')]},
}


def replay_witnesses(ck: Check, prop: str):
    """Replays the runs of the Lean `_witness` theorems on the real code: same
    transition sequence (checked against the driver's rendering of the Lean
    definitions), same states (model diff), and the direct oracle must report
    exactly the finding the theorem describes."""
    from harness import runtime_model as rm
    done = {}
    for name, w in WITNESSES.items():
        if w['prop'] != prop:
            continue
        sim, V, stats, st = run_one(w['scenario'], 7, schedule=w['schedule'],
                                    with_model=True, cont=w['expect'] is None)
        rec = sim.recorder
        mine = rec.lines[rec.nhdr:rec.nhdr + len(w['schedule'])]
        theirs = rm.run_driver([f'witness {name}'])[0].split(' ;; ')
        norm = lambda s: ' '.join(s.split())
        sigs = {sig for (p, sig, what, d) in V.items if p == prop}
        d = rm.diff(rec)
        sim.dispose()
        ok_sync = [norm(x) for x in mine] == [norm(x) for x in theirs]
        done[name] = {'theorem': w['theorem'], 'transitions': len(mine),
                      'same_run_as_lean_definition': ok_sync,
                      'model_agrees': d['mismatch'] is None,
                      'quiescent': stats['quiescent']}
        if w['expect'] is None:
            done[name]['clean'] = not sigs
        else:
            done[name]['finding_reproduced'] = w['expect'] in sigs
        replay = {'scenario': w['scenario'], 'run_seed': 7,
                  'schedule': [list(x) for x in w['schedule']]}
        if not ok_sync or d['mismatch'] is not None:
            ck.violation(
                f'witness-out-of-sync:{name}',
                f'the run of {w["theorem"]} is not the run the real code '
                f'takes any more (same transitions: {ok_sync}, model agrees: '
                f'{d["mismatch"] is None})',
                {'broken': w['theorem'], **replay,
                 'mismatch': d['mismatch']}, found_input=False)
        elif w['expect'] is not None and w['expect'] not in sigs:
            ck.violation(
                f'witness-not-reproduced:{name}',
                f'{w["theorem"]} describes a defect the real code no longer '
                'shows on the same run (model follows a different code)',
                {'broken': w['theorem'], **replay}, found_input=False)
        for (p, sig, what, dd) in V.items:
            if p == prop:
                ck.violation(sig, what, replay, found_input=True)
    ck.coverage['witness_replays'] = done


def extra_c12(ck: Check):
    replay_witnesses(ck, 'C12')


def extra_c15(ck: Check):
    replay_witnesses(ck, 'C15')


def fine_schedules(locked: bool, tier: str) -> list:
    """The schedule of the repaired finding + one shortest schedule per state
    the source-line model can reach (printed by the driver)."""
    from harness import runtime_model as rm
    from harness.runtime_fine import RACE_BITS
    paths = rm.run_driver([f'fine-paths {int(locked)}'])[0].split()
    # after the shortest path: one step of the main thread, one of the
    # incoming thread (exercises the no-op steps of a thread that waits for
    # the mutex / for the ready queue); thorough: every edge of the state graph
    tails = ['10'] if tier != 'thorough' else ['0', '1', '10', '01']
    out = [RACE_BITS] + [p[1:] + t for p in paths for t in tails]
    return out


def run_fine(schedules: list, sk: dict, stop_at_first_failure: bool) -> dict:
    """Scheduler-controlled line-level runs on the real Worker (two real
    threads), oracle + state-by-state comparison with the model."""
    from harness import runtime_fine as rf
    from harness import runtime_model as rm
    lk = int(bool(sk['locked']))
    runs = []
    for bits in schedules:
        r = rf.run_schedule(bits, sk)
        runs.append(r)
        if stop_at_first_failure and not r['ok']:
            break
    got = rm.run_driver([f'fine {lk} {r["bits"] or "-"}' for r in runs])
    bad, mism = [], []
    for r, line in zip(runs, got):
        if not r['ok']:
            bad.append(r)
        d = rf.compare_with_model(r, line)
        if d is not None:
            mism.append((r, d))
    return {'runs': runs, 'bad': bad, 'mismatch': mism,
            'steps': sum(len(r['bits']) for r in runs),
            'blocked_on_lock': sum(r['blocked_on_lock'] for r in runs)}


def _fine_replay(r):
    return {'fine_bits': r['bits_given'], 'executed_bits': r['bits'],
            'locked': r['locked'],
            'steps': [f'{"main" if b else "incoming"}:'
                      + '.'.join(map(str, lab)) + ('' if moved else ':no-op')
                      for b, lab, moved in r['labels']],
            'replay_cmd': '/venv/bin/python -c "from bqskit.ir.circuit import'
            ' Circuit; from harness.runtime_fine import run_schedule as f; '
            f'print(f(\'{r["bits_given"]}\'))"',
            'obs': {k: r.get(k) for k in (
                'max_ready', 'results', 'errors', 'inc_crash', 'abort',
                'blocked_on_lock')}}


def report_fine_bad(ck: Check, r: dict):
    if r.get('abort') in ('timeout', 'incoming-thread-hung',
                          'main-blocked-unexpectedly'):
        ck.violation(
            'fine-race:cannot-force', 'the line-level scheduler could not '
            f'drive the two threads of the real Worker ({r["abort"]}); the '
            'source-line model is not tied to the code in this run',
            _fine_replay(r), found_input=False)
    elif r['assertion_error'] or r['max_ready'] > 1:
        ck.violation(
            'fine-race:double-wake:_process_await||_handle_result',
            'thread interleaving (two real threads of a real Worker, parked '
            'at source lines with sys.settrace): _handle_result runs between '
            'the statements of _process_await -> the task is put on the '
            f'ready queue {r["max_ready"]} times; the stale wake-up hits '
            '`assert box.ready` and an AssertionError the task body never '
            'raised is sent as ERROR: ' + ' '.join(_fine_replay(r)['steps']),
            _fine_replay(r), found_input=True)
    else:
        kind = ('stuck' if r.get('abort') == 'stuck' else
                'incoming-thread-crash' if r['inc_crash'] else
                'error' if r['errors'] else 'wrong-result')
        ck.violation(
            f'fine-race:{kind}:_process_await||_handle_result',
            'thread interleaving (two real threads of a real Worker, parked '
            f'at source lines): the awaiting task does not return exactly '
            f'once with its two results ({kind}): results={r["results"]} '
            f'errors={r["errors"]} crash={r["inc_crash"]}: '
            + ' '.join(_fine_replay(r)['steps']),
            _fine_replay(r), found_input=True)


def extra_c07(ck: Check):
    from harness import runtime_fine as rf
    sk = rf.skeleton()
    cov = {'statements_match_model': sk['ok'], 'locked': sk['locked']}
    ck.coverage['fine_model_tie'] = cov
    if not sk['ok']:
        ck.violation(
            'fine-model:statements-changed', 'the statements of '
            'Worker._process_await / Worker._handle_result are no longer the '
            'statements the source-line model (Model/FineWake.lean) has one '
            'step for: ' + '; '.join(sk['problems'])[:600]
            + ' (re-derive the model; C07_fine_lock_safe does not describe '
            'this code)', {'broken': 'C07_fine_lock_safe',
                           'problems': sk['problems']}, found_input=False)
        return
    scheds = fine_schedules(sk['locked'], ck.tier)
    if not sk['locked'] and ck.tier != 'thorough':
        scheds = scheds[:80]
    res = run_fine(scheds, sk, stop_at_first_failure=not sk['locked'])
    cov.update(schedules=len(res['runs']), steps=res['steps'],
               steps_blocked_on_the_mutex=res['blocked_on_lock'],
               failing=len(res['bad']), model_mismatches=len(res['mismatch']),
               finding_schedule=rf.double_wake_replay()
               if sk['locked'] else None)
    ck.coverage['evaluations'] += len(res['runs'])
    for r in res['bad'][:3]:
        report_fine_bad(ck, r)
    for r, d in res['mismatch'][:1]:
        ck.violation(
            'correspondence:fine-model', 'line-level run of the real Worker '
            f'and the source-line model disagree: {d}',
            {'broken': 'correspondence FineWake <-> worker.py',
             **_fine_replay(r)}, found_input=False)
    if not sk['locked']:
        ck.violation(
            'fine-model:not-locked', 'the statements of _process_await / '
            '_handle_result are not inside `with self._mailbox_mutex:`: the '
            'code is the pre-fix variant, C07_fine_lock_safe (the model with '
            'the lock) does not describe it'
            + ('' if res['bad'] else '; the scheduled line-level runs found '
               'no failing schedule'),
            {'broken': 'C07_fine_lock_safe'}, found_input=False)


# ------------------------------------------- exhaustive delivery orders (small)
SMALL_TREES = {
    # a parent cancels its direct child; the child owns a future and awaits
    # it; its step can be preempted between the submit and the await (the
    # CANCEL can arrive before the child starts, in the middle of its step,
    # while it waits, after it finished)
    'child-cancelled-at-any-point': (
        (), (('s', 0), ('y',), ('a', 0)), (('s', 1), ('c', 0))),
    # ... and the child is preempted BEFORE it creates its future
    'child-preempted-before-submit': (
        (), (('y',), ('s', 0), ('a', 0)), (('s', 1), ('c', 0))),
    # ... and the child, cancelled in the middle of its step, cancels its own
    # future afterwards
    'child-preempted-then-cancels': (
        (), (('s', 0), ('y',), ('c', 0)), (('s', 1), ('c', 0))),
    # map over argument lists of different lengths
    'map-zip-await': ((), (('m', (0, 0, 0), ('z', 3, 2)), ('a', 0))),
    'submit-await': ((), (('s', 0), ('a', 0))),
    'map2-await': ((), (('m', (0, 0)), ('a', 0))),
    'two-submits-reversed': ((), (('s', 0), ('s', 0), ('a', 1), ('a', 0))),
    'map2-next-next': ((), (('m', (0, 0)), ('n', 0), ('n', 0))),
    'submit-cancel': ((), (('s', 0), ('c', 0))),
    'grandchild-cancel': ((), (('s', 0), ('a', 0)), (('s', 1), ('c', 0))),
}


def small_scenarios(which='all'):
    out = []
    for name, table in SMALL_TREES.items():
        root = len(table) - 1
        for kind in ('attached', 'detached'):
            for nw in (1, 2):
                for script in ([('submit', root), ('result', 0)],
                               [('submit', root), ('cancel', 0)]):
                    if kind == 'attached' and script[1][0] == 'cancel' \
                            and name not in ('submit-await',):
                        continue
                    out.append((f'{name}/{kind}{nw}/{script[1][0]}',
                                {'topo': {'kind': kind, 'workers': nw},
                                 'table': table, 'clients': [script]}))
    if which == 'quick':
        keep = ('submit-await/detached1/result', 'submit-cancel/detached1/result',
                'submit-await/detached1/cancel',
                'child-cancelled-at-any-point/detached1/result',
                'child-preempted-before-submit/detached1/result',
                'child-preempted-then-cancels/detached1/result',
                'map-zip-await/attached1/result')
        out = [x for x in out if x[0] in keep]
    return out


def _global_key(sim, rec, paused=()):
    parts = [rec.s_state(n) for n in sim.nodes if sim.nodes[n].kind != 'C']
    parts.append('paused:' + repr(list(paused)))
    for (a, b), q in sorted(sim.chan.items()):
        parts.append(f'{a}>{b}:' + '|'.join(rec.s_msg(a, b, m) for m in q))
    for n in sim.nodes.values():
        if n.kind == 'C':
            parts.append(f'{n.name}:{n.pc}:{n.pending and n.pending[:2]}:'
                         f'{n.alive}:{len(n.conns["S"].inbox)}')
        elif n.kind == 'W':
            parts.append(f'{n.name}:{n.in_dead}')
    return hashlib.sha1('\n'.join(parts).encode()).hexdigest()


def exhaustive(scenario, seed, limit):
    """All schedules of a small scenario (depth-first over schedule prefixes,
    re-executed on fresh real objects; prefixes leading to an already visited
    global state are pruned).  Oracles run at every quiescent state and after
    every transition."""
    from harness import runtime_sim as rs
    from harness import runtime_model as rm
    seen = set()
    stack = [[]]
    stats = {'states': 0, 'terminal': 0, 'replays': 0, 'truncated': False,
             'max_depth': 0}
    verdicts = {}
    while stack:
        if stats['states'] >= limit:
            stats['truncated'] = True
            break
        prefix = stack.pop()
        random.seed(seed)
        sim = rs.Sim(scenario, seed=seed)
        V = Verdicts()
        st = new_state()
        rec = rm.Recorder(sim, scenario)
        stop = {}

        def on_stop(s_):
            # the prefix ends while a worker step is preempted: take the
            # state and the enabled set now (the step is unwound afterwards)
            stop['key'] = _global_key(s_, rec, s_.paused)
            stop['en'] = s_.enabled()
        sim.on_stop = on_stop
        sim.run(schedule=prefix, max_steps=len(prefix) + 1,
                after=lambda s, r: check_step(s, r, V, st))
        stats['replays'] += 1
        if stop:
            key, en = stop['key'], stop['en']
        else:
            key = _global_key(sim, rec)
            en = sim.enabled()
        if key in seen:
            sim.dispose()
            continue
        seen.add(key)
        stats['states'] += 1
        stats['max_depth'] = max(stats['max_depth'], len(prefix))
        if not en:
            stats['terminal'] += 1
            evaluate(sim, True, st, V)
        for (p, sig, what, d) in V.items:
            verdicts.setdefault((p, sig), (what, list(prefix)))
        sim.dispose()
        for tr in reversed(en):
            stack.append(prefix + [list(tr)])
    return stats, verdicts


def _exh_job(args):
    name, sc, seed, limit = args
    import warnings
    warnings.simplefilter('ignore')
    stats, verdicts = exhaustive(sc, seed, limit)
    return name, sc, seed, stats, [
        (p, sig, what, pre) for (p, sig), (what, pre) in verdicts.items()]


def exhaustive_jobs(seed: int, tier: str) -> list:
    scs = small_scenarios('all' if tier == 'thorough' else 'quick')
    limit = 3000 if tier == 'thorough' else 1500
    return [(name, sc, 11 + seed, limit) for name, sc in scs]


def run_workers(kind: str, seed: int, tier: str, with_model: bool) -> list:
    """Runs harness.runtime_worker in separate interpreter processes (forked
    pool workers of a process that imported bqskit turned out to run the
    simulation an order of magnitude slower on this machine)."""
    import pickle
    import subprocess
    import sys
    import tempfile
    nproc = pool_size()
    if kind == 'exh':
        nproc = min(nproc, max(1, len(exhaustive_jobs(seed, tier))))
    (VERIF / '.cache').mkdir(exist_ok=True)
    tmp = Path(tempfile.mkdtemp(prefix='rtw-', dir=str(VERIF / '.cache')))
    procs = []
    for k in range(nproc):
        of = tmp / f'{kind}-{k}.pkl'
        procs.append((of, subprocess.Popen(
            [sys.executable, '-W', 'ignore', '-m', 'harness.runtime_worker',
             kind, str(seed), tier, str(k), str(nproc),
             '1' if with_model else '0', str(of)],
            cwd=str(VERIF), stdout=subprocess.PIPE, stderr=subprocess.STDOUT,
            text=True)))
    parts = []
    err = None
    for of, pr in procs:
        out, _ = pr.communicate()
        if pr.returncode != 0 or not of.exists():
            err = (out or '')[-2000:]
            continue
        parts.append(pickle.loads(of.read_bytes()))
        of.unlink()
    try:
        tmp.rmdir()
    except OSError:
        pass
    if err is not None:
        from harness.common import InfraError
        raise InfraError('runtime worker failed:\n' + err)
    return parts


def run_exhaustive(seed: int, tier: str) -> dict:
    cdir = VERIF / '.cache'
    cdir.mkdir(exist_ok=True)
    cf = cdir / f'rtx-{code_key(seed, tier)}.json'
    if cf.exists() and not os.environ.get('VERIF_NOCACHE'):
        try:
            return json.loads(cf.read_text())
        except Exception:
            pass
    res = [r for part in run_workers('exh', seed, tier, True) for r in part]
    out = {'scenarios': {}, 'verdicts': {}}
    for name, sc, sd, stats, verd in res:
        out['scenarios'][name] = stats
        for (p, sig, what, pre) in verd:
            out['verdicts'].setdefault(f'{p}|{sig}', {
                'prop': p, 'sig': sig, 'what': what,
                'replay': {'scenario': sc, 'run_seed': sd, 'schedule': pre,
                           'exhaustive': name}})
    cf.write_text(json.dumps(out, default=str))
    return out


def report_exhaustive(ck: Check, prop: str):
    ex = run_exhaustive(ck.seed, ck.tier)
    tot = sum(s['states'] for s in ex['scenarios'].values())
    ck.coverage['exhaustive'] = all(
        not s['truncated'] for s in ex['scenarios'].values())
    ck.coverage['exhaustive_space'] = (
        f'all schedules (every delivery order, worker step and client call '
        f'interleaving; global states deduplicated) of '
        f'{len(ex["scenarios"])} smallest scenarios: {tot} distinct global '
        f'states, ' + ', '.join(
            f'{k}={v["states"]}{"(truncated)" if v["truncated"] else ""}'
            for k, v in sorted(ex['scenarios'].items())))
    ck.coverage['evaluations'] += tot
    for k, v in sorted(ex['verdicts'].items()):
        if v['prop'] == prop:
            ck.violation(v['sig'], v['what'] + f' [exhaustive: '
                         f'{v["replay"]["exhaustive"]}]', v['replay'],
                         found_input=True)
