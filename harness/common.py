"""Common machinery for every property check (see DESIGN.md section 2).

A check is `./check Cxx --tier quick|thorough [--replay file]`.  It

  1. runs the property's translators (if any) into lean/BqVerif/Generated/,
  2. builds the Lean proof obligations (lake build BqVerif.Props.Cxx bqdriver),
     audits `#print axioms` of every theorem of Props/Cxx.lean and greps the
     Lean sources for forbidden tokens,
  3. runs the correspondence workload: the real code of /repo (imported from
     the working tree) against the compiled Lean driver,
  4. evaluates the property's direct oracles on the implementation,
  5. writes evidence/Cxx.json and exits 0 / 1 / 2.

Exit 2 is an infrastructure failure (never a verdict).
"""
from __future__ import annotations

import hashlib
import json
import os
import random
import re
import subprocess
import sys
import time
import traceback
from pathlib import Path
from typing import Any, Callable, Iterable, Sequence

VERIF = Path(__file__).resolve().parent.parent
LEAN = VERIF / 'lean'
REPO = Path(os.environ.get('VERIF_REPO', '/repo'))
DRIVER = LEAN / '.lake' / 'build' / 'bin' / 'bqdriver'
ALLOWED_AXIOMS = {'propext', 'Classical.choice', 'Quot.sound'}
FORBIDDEN = [
    r'\bsorry\b', r'\badmit\b', r'^\s*axiom\s', r'\bnative_decide\b',
    r'\bbv_decide\b', r'\bimplemented_by\b', r'\bunsafe\s',
    r'maxHeartbeats\s+0\b', r'\bofReduceBool\b',
]
TRUSTED_BASE = [
    'Lean 4.33.0 kernel; axioms allowed: propext, Classical.choice, '
    'Quot.sound (audited with #print axioms on every run)',
    'lake build (elaboration of BqVerif.Props.*)',
    'compiled bqdriver (Lean code generator; used only to RUN models for '
    'correspondence, never inside a proof)',
    'the Python harness in /verif/harness (generators, canonicalisers, '
    'oracles) and CPython/numpy as execution platform',
]


class InfraError(Exception):
    """Something outside the property went wrong (exit 2)."""


def sh(cmd: Sequence[str] | str, cwd: Path | None = None, timeout: int = 3600,
       env: dict | None = None, input: str | None = None):
    e = dict(os.environ)
    if env:
        e.update(env)
    return subprocess.run(
        cmd, cwd=cwd, shell=isinstance(cmd, str), text=True, input=input,
        stdout=subprocess.PIPE, stderr=subprocess.STDOUT, timeout=timeout,
        env=e,
    )


def strip_lean_comments(src: str) -> str:
    """Remove /- ... -/ (nested) and -- comments and string literals."""
    out = []
    i, n, depth = 0, len(src), 0
    while i < n:
        if src.startswith('/-', i):
            depth += 1
            i += 2
            continue
        if depth and src.startswith('-/', i):
            depth -= 1
            i += 2
            continue
        if depth:
            if src[i] == '\n':
                out.append('\n')
            i += 1
            continue
        if src.startswith('--', i):
            while i < n and src[i] != '\n':
                i += 1
            continue
        if src[i] == '"':
            i += 1
            while i < n and src[i] != '"':
                i += 2 if src[i] == '\\' else 1
            i += 1
            out.append('""')
            continue
        out.append(src[i])
        i += 1
    return ''.join(out)


def lean_module_closure(module: str) -> list[Path]:
    """Files of this project reachable by imports from `module`."""
    seen: dict[str, Path] = {}
    todo = [module]
    while todo:
        m = todo.pop()
        if m in seen:
            continue
        p = LEAN / (m.replace('.', '/') + '.lean')
        if not p.exists():
            continue
        seen[m] = p
        for line in p.read_text().splitlines():
            mm = re.match(r'\s*(?:public\s+)?import\s+([\w.]+)', line)
            if mm and (mm.group(1).startswith('BqVerif')
                       or mm.group(1).startswith('Driver')):
                todo.append(mm.group(1))
    return sorted(seen.values())


class Check:
    def __init__(self, pid: str, tier: str, seed: int, replay: str | None):
        self.pid = pid
        self.tier = tier
        self.seed = seed
        self.replay_path = replay
        self.rng = random.Random(seed * 1000003 + int(pid[1:]))
        self.t0 = time.time()
        self.violations: list[dict] = []
        self.known_hits: dict[str, dict] = {}
        self.coverage: dict[str, Any] = {
            'evaluations': 0, 'distinct_nontrivial': 0, 'rule': '',
            'samples': [], 'obligations': 0, 'discharged': 0,
            'checker_cmd': '', 'trusted_base': list(TRUSTED_BASE),
            'traces_validated_against_impl': 0,
        }
        self.assumptions: list[str] = []
        self._distinct: set[str] = set()
        self.theorems: list[str] = []
        self.proof_failure: str | None = None
        kf = VERIF / 'known_findings.json'
        self.known = json.loads(kf.read_text()) if kf.exists() else {
            'entries': []}

    # ------------------------------------------------------------------ lean
    def lean_obligations(self, module: str | None = None,
                         extra_targets: Sequence[str] = ('bqdriver',),
                         allow_fail: bool = False) -> bool:
        """Build the proof obligations and audit them.  Returns True when all
        theorems of Props/<pid>.lean check with allowed axioms only."""
        module = module or f'BqVerif.Props.{self.pid}'
        r = sh(['lake', 'build', module, *extra_targets], cwd=LEAN)
        self.coverage['checker_cmd'] = (
            f'cd lean && lake build {module} && lake env lean '
            f'.audit/{self.pid}.lean   # #print axioms of every theorem')
        if r.returncode != 0:
            errs = [l for l in r.stdout.splitlines()
                    if l.startswith('error:') or ' error: ' in l]
            self.proof_failure = ('\n'.join(errs[:12]) + '\n...\n'
                                  + r.stdout[-2500:])
            if allow_fail:
                return False
            # is it the property's own module or infrastructure?
            raise_build = True
            if re.search(r'error: .*BqVerif/(Props|Generated|Proofs|Model)',
                         r.stdout) or 'error:' in r.stdout:
                raise_build = False
            if raise_build:
                raise InfraError('lake build failed:\n' + r.stdout[-3000:])
            return False
        # forbidden tokens
        for p in lean_module_closure(module):
            src = strip_lean_comments(p.read_text())
            for pat in FORBIDDEN:
                m = re.search(pat, src, re.M)
                if m:
                    self.proof_failure = (
                        f'forbidden token {m.group(0)!r} in {p}')
                    return False
        # axioms audit
        props = LEAN / (module.replace('.', '/') + '.lean')
        src = strip_lean_comments(props.read_text())
        names = re.findall(r'^\s*theorem\s+([\w.]+)', src, re.M)
        ns = re.search(r'^\s*namespace\s+([\w.]+)', src, re.M)
        prefix = (ns.group(1) + '.') if ns else ''
        audit_dir = LEAN / '.audit'
        audit_dir.mkdir(exist_ok=True)
        af = audit_dir / f'{self.pid}.lean'
        af.write_text(
            f'import {module}\n' +
            ''.join(f'#print axioms {prefix}{n}\n' for n in names))
        r = sh(['lake', 'env', 'lean', str(af)], cwd=LEAN)
        if r.returncode != 0:
            self.proof_failure = 'axiom audit failed:\n' + r.stdout[-3000:]
            return False
        ok = 0
        out = r.stdout.replace('\n  ', ' ').replace('\n ', ' ')
        for n in names:
            full = prefix + n
            m = re.search(
                r"'" + re.escape(full) + r"' (does not depend on any axioms"
                r"|depends on axioms: \[([^\]]*)\])", out)
            if not m:
                self.proof_failure = f'no axiom report for {full}'
                return False
            axs = set()
            if m.group(2):
                axs = {a.strip() for a in m.group(2).split(',') if a.strip()}
            if not axs <= ALLOWED_AXIOMS:
                self.proof_failure = (
                    f'{full} depends on non-standard axioms {sorted(axs)}')
                return False
            ok += 1
        self.theorems = [prefix + n for n in names]
        self.coverage['obligations'] = len(names)
        self.coverage['discharged'] = ok
        self.coverage['theorems'] = self.theorems
        if self.tier == 'thorough':
            r = sh(['lake', 'env', 'leanchecker', module], cwd=LEAN,
                   timeout=1800)
            self.coverage['leanchecker'] = (
                'ok' if r.returncode == 0 else r.stdout[-500:])
            if r.returncode != 0:
                self.proof_failure = 'leanchecker rejected ' + module
                return False
        return True

    def driver(self, machine: str, lines: Iterable[str],
               timeout: int = 1800) -> list[str]:
        if not DRIVER.exists():
            raise InfraError(f'{DRIVER} missing (run setup: lake build)')
        data = '\n'.join(lines) + '\n'
        r = subprocess.run([str(DRIVER), machine], input=data, text=True,
                           stdout=subprocess.PIPE, stderr=subprocess.PIPE,
                           timeout=timeout)
        if r.returncode != 0:
            raise InfraError(
                f'bqdriver {machine} failed: {r.stderr[-2000:]}')
        return r.stdout.split('\n')[:-1]

    # -------------------------------------------------------------- coverage
    def count(self, case_key: Any, nontrivial: bool = True, n: int = 1):
        self.coverage['evaluations'] += n
        if nontrivial:
            h = hashlib.sha1(repr(case_key).encode()).hexdigest()[:16]
            self._distinct.add(h)

    def sample(self, obj: Any, limit: int = 6):
        if len(self.coverage['samples']) < limit:
            self.coverage['samples'].append(obj)

    def bump(self, key: str, sub: str | None = None, n: int = 1):
        if sub is None:
            self.coverage[key] = self.coverage.get(key, 0) + n
        else:
            d = self.coverage.setdefault(key, {})
            d[sub] = d.get(sub, 0) + n

    # ------------------------------------------------------------ violations
    def violation(self, signature: str, what: str, replay: dict,
                  found_input: bool = True):
        """Report a violation of the *stated property* (or a broken proof /
        correspondence when found_input is False)."""
        for e in self.known.get('entries', []):
            if e.get('status') != 'finding' or e.get('property') != self.pid:
                continue
            if re.fullmatch(e['signature'], signature):
                self.known_hits.setdefault(e['signature'], e)
                return
        if any(v['signature'] == signature for v in self.violations):
            return
        rp = VERIF / 'replays' / self.pid
        rp.mkdir(parents=True, exist_ok=True)
        h = hashlib.sha1(signature.encode()).hexdigest()[:12]
        f = rp / f'{h}.json'
        body = {'property': self.pid, 'signature': signature, 'what': what,
                'seed': self.seed, 'tier': self.tier,
                'failing_input_found': found_input, 'replay': replay}
        f.write_text(json.dumps(body, indent=1, default=str))
        self.violations.append({
            'signature': signature, 'what': what,
            'path': str(f.relative_to(VERIF)), 'found': found_input})

    # ---------------------------------------------------------------- finish
    def finish(self) -> int:
        self.coverage['distinct_nontrivial'] = len(self._distinct)
        ev = {
            'property_id': self.pid, 'tier': self.tier, 'seed': self.seed,
            'level': 'proof', 'coverage': self.coverage,
            'assumptions': self.assumptions,
            'wall_s': round(time.time() - self.t0, 2),
            'violations': len(self.violations),
        }
        if self.known_hits:
            ev['known_findings_observed'] = sorted(self.known_hits)
        (VERIF / 'evidence').mkdir(exist_ok=True)
        (VERIF / 'evidence' / f'{self.pid}.json').write_text(
            json.dumps(ev, indent=1, default=str))
        for sig, e in sorted(self.known_hits.items()):
            print(f'KNOWN-FINDING: property={self.pid} {e["what"]}')
        for v in self.violations:
            tail = '' if v['found'] else ' no-failing-input-found'
            print(f'VIOLATION property={self.pid} replay={v["path"]}{tail}')
            print(f'  # {v["what"]}')
        sys.stdout.flush()
        return 1 if self.violations else 0


def ddmin(items: list, fails: Callable[[list], bool]) -> list:
    """Classic delta debugging: a 1-minimal sublist on which `fails` holds."""
    n = 2
    while len(items) >= 2:
        chunk = max(1, len(items) // n)
        subsets = [items[i:i + chunk] for i in range(0, len(items), chunk)]
        reduced = False
        for i in range(len(subsets)):
            comp = [x for j, s in enumerate(subsets) if j != i for x in s]
            if comp and fails(comp):
                items = comp
                n = max(n - 1, 2)
                reduced = True
                break
        if not reduced:
            if n >= len(items):
                break
            n = min(len(items), n * 2)
    return items


def main(run_table: dict[str, Callable[[Check], None]], argv: list[str]):
    import argparse
    ap = argparse.ArgumentParser()
    ap.add_argument('pid')
    ap.add_argument('--tier', default=os.environ.get('VERIF_TIER', 'quick'))
    ap.add_argument('--replay', default=None)
    a = ap.parse_args(argv)
    seed = int(os.environ.get('VERIF_SEED', '0') or 0)
    if a.pid not in run_table:
        print(f'unknown property {a.pid}', file=sys.stderr)
        return 2
    ck = Check(a.pid, a.tier, seed, a.replay)
    try:
        run_table[a.pid](ck)
        return ck.finish()
    except InfraError as e:
        print(f'INFRA-ERROR {a.pid}: {e}', file=sys.stderr)
        return 2
    except subprocess.TimeoutExpired as e:
        print(f'INFRA-TIMEOUT {a.pid}: {e}', file=sys.stderr)
        return 2
    except Exception:
        traceback.print_exc()
        return 2
