"""Helpers of the C10 check: in-process pass execution (with an in-process
stand-in for `get_runtime()`), circuit generators, oracles."""
from __future__ import annotations

import asyncio
import inspect
import math
import warnings

import numpy as np

from bqskit.ir.circuit import Circuit
from bqskit.compiler.passdata import PassData
from bqskit.ir.gates import (
    CNOTGate, CZGate, CYGate, CHGate, SwapGate, HGate, SGate, SdgGate, TGate,
    TdgGate, XGate, YGate, ZGate, SqrtXGate, RXGate, RYGate, RZGate, U1Gate,
    U3Gate, CircuitGate, ConstantUnitaryGate, VariableUnitaryGate, RZZGate,
    CCXGate, U8Gate, CSUMGate,
)
from bqskit.qis.unitary import UnitaryMatrix

warnings.filterwarnings('ignore')


class InProcRuntime:
    """`get_runtime()` stand-in: `map` runs the function sequentially in this
    process (the passes of C10 use nothing else of the runtime)."""

    async def map(self, fn, *args, task_name=None, log_context={}, **kwargs):
        out = []
        for a in zip(*args):
            r = fn(*a, **kwargs)
            if inspect.isawaitable(r):
                r = await r
            out.append(r)
        return out

    def submit(self, fn, *args, task_name=None, log_context={}, **kwargs):
        async def go():
            r = fn(*args, **kwargs)
            if inspect.isawaitable(r):
                r = await r
            return r
        return asyncio.ensure_future(go())

    async def next(self, fut):
        raise NotImplementedError

    def cancel(self, fut):
        pass

    def get_cache(self):
        return {}

    def log(self, *a, **k):
        pass


def install_inproc_runtime():
    import bqskit.runtime.worker as W
    W._worker = InProcRuntime()


def run_pass(p, circuit: Circuit, data: PassData | None = None):
    """Run `p` on a copy; returns (output circuit, data)."""
    c = circuit.copy()
    d = data if data is not None else PassData(c)
    install_inproc_runtime()
    asyncio.run(p.run(c, d))
    return c, d


def phase_dist(U, V) -> float:
    """BQSKit's get_distance_from: sqrt(1 - (|tr(V^dag U)|/N)^2)."""
    U = np.asarray(U)
    V = np.asarray(V)
    f = abs(np.trace(V.conj().T @ U)) / U.shape[0]
    return math.sqrt(max(0.0, 1 - min(1.0, f) ** 2))


def max_abs_phase(U, V) -> float:
    """max |U - e^{ia} V| with the phase that aligns the largest entry."""
    U = np.asarray(U)
    V = np.asarray(V)
    k = np.unravel_index(np.argmax(abs(V)), V.shape)
    if abs(U[k]) < 1e-12:
        return float(np.max(abs(U - V)))
    ph = U[k] / V[k]
    ph /= abs(ph)
    return float(np.max(abs(U - ph * V)))


ANGLES = [0.0, math.pi / 2, math.pi, -math.pi / 2, math.pi / 4]


def rand_angle(rng):
    r = rng.random()
    if r < 0.4:
        return rng.choice(ANGLES)
    return rng.uniform(-math.pi, math.pi)


ONEQ = [HGate(), SGate(), SdgGate(), TGate(), TdgGate(), XGate(), YGate(),
        ZGate(), SqrtXGate(), RXGate(), RYGate(), RZGate(), U1Gate(), U3Gate()]
TWOQ = [CNOTGate(), CZGate(), CYGate(), CHGate(), SwapGate(), RZZGate()]


def rand_circuit(rng, n, nops, oneq=ONEQ, twoq=TWOQ, p2=0.45, extra=()):
    """Random qubit circuit: gates of the two pools at random locations with
    special/generic parameter values."""
    c = Circuit(n)
    for _ in range(nops):
        pool = list(extra)
        if n >= 2 and rng.random() < p2 and twoq:
            g = rng.choice(list(twoq) + [e for e in pool if e.num_qudits == 2])
        else:
            g = rng.choice(list(oneq) + [e for e in pool if e.num_qudits == 1])
        if g.num_qudits > n:
            continue
        loc = rng.sample(range(n), g.num_qudits)
        c.append_gate(g, loc, [rand_angle(rng) for _ in range(g.num_params)])
    return c


def rand_unitary(nprng, dim):
    a = nprng.normal(size=(dim, dim)) + 1j * nprng.normal(size=(dim, dim))
    q, r = np.linalg.qr(a)
    return q * (np.diag(r) / abs(np.diag(r)))


def flatten(circuit: Circuit, loc=None):
    """Operations of the circuit with every CircuitGate expanded recursively
    (independent of Circuit.unfold): list of (gate, global location, params)."""
    out = []
    for op in circuit:
        gl = tuple(op.location) if loc is None else tuple(
            loc[q] for q in op.location)
        if isinstance(op.gate, CircuitGate):
            sub = op.gate._circuit.copy()
            sub.set_params(op.params)
            out.extend(flatten(sub, gl))
        else:
            out.append((op.gate, gl, tuple(float(x) for x in op.params)))
    return out


def gate_tag(g) -> str:
    """repr(gate) plus what repr omits: the target of a multiplexed rotation
    (repr(MPRYGate(3, 0)) == repr(MPRYGate(3, 1))), the control levels of a
    ControlledGate."""
    s = repr(g)
    t = getattr(g, 'target_qubit', None)
    if t is not None:
        s += f'[t={t}]'
    cl = getattr(g, 'control_levels', None)
    if cl is not None:
        s += '[ctrl=' + ','.join('/'.join(map(str, lv)) for lv in cl) + ']'
    return s


def op_key(g, params, digits=9):
    return (gate_tag(g), type(g).__name__, tuple(g.radixes),
            tuple(round(float(x), digits) for x in params))


def struct_key(circuit: Circuit):
    return [(gate_tag(op.gate), tuple(op.location)) for op in circuit]


def circ_desc(c: Circuit) -> dict:
    """JSON description for replays. A CircuitGate operation carries the
    description of its inner circuit (with the parameters FROZEN inside it;
    they may differ from the operation's own parameters)."""
    ops = []
    for op in c:
        o = [gate_tag(op.gate), list(op.location),
             [float(x) for x in op.params]]
        if isinstance(op.gate, CircuitGate):
            o.append({'inner': circ_desc(op.gate._circuit)})
        ops.append(o)
    return {'radixes': list(c.radixes), 'ops': ops}


def is_subsequence(small, big) -> bool:
    it = iter(big)
    return all(any(x == y for y in it) for x in small)
