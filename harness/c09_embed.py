"""C09 -- direct oracle for `EmbedAllPermutationsPass` (round 4).

The permutation-aware mapping passes may only add "pre-synthesised permuted
versions of the input's own blocks".  Those versions are produced by
`EmbedAllPermutationsPass` and stored as
`data['permutation_data'][graph][(pi, pf)] = circuit`; PAM later emits
`circuit` and applies `pi` / `pf` to its assignment.  The invariant all of
that rests on:

    every stored circuit implements  P(pf)^T . U . P(pi)   (U = the block)

is checked here on EVERY entry - including the ones derived by renumbering
with the "universal permutations" - for all four option pairs, widths 2 and
3, with and without topology variation, with an exact stub inner synthesis
(a ConstantUnitaryGate circuit of the target it is handed) and with a
scripted scoring function that makes later candidates replace earlier ones.
Independent of the Lean model; in process (stub runtime); about a second.
"""
from __future__ import annotations

import asyncio
import itertools as it
import logging

import numpy as np

from harness.common import Check


def one(width, ip, op, vary, graph_kind, prefer_late, nprng):
    from bqskit.compiler.machine import MachineModel
    from bqskit.compiler.passdata import PassData
    from bqskit.ir.circuit import Circuit
    from bqskit.ir.gates import ConstantUnitaryGate
    from bqskit.passes.mapping.embed import EmbedAllPermutationsPass
    from bqskit.passes.mapping.topology import SubtopologySelectionPass
    from bqskit.passes.synthesis.synthesis import SynthesisPass
    from bqskit.qis.graph import CouplingGraph
    from bqskit.qis.permutation import PermutationMatrix
    from bqskit.qis.unitary import UnitaryMatrix
    import bqskit.runtime.worker as W
    from harness.c10_lib import InProcRuntime

    order = []

    class Inner(SynthesisPass):
        async def synthesize(self, utry, data):
            c = Circuit(width)
            c.append_gate(ConstantUnitaryGate(utry), list(range(width)))
            c._emb_index = len(order)
            order.append(c)
            return c

    def scoring(c):
        i = getattr(c, '_emb_index', 0)
        return -i if prefer_late else i

    U = UnitaryMatrix(np.asarray(UnitaryMatrix.random(width)))
    c = Circuit(width)
    c.append_gate(ConstantUnitaryGate(U), list(range(width)))
    data = PassData(c)
    old = W._worker
    W._worker = InProcRuntime()
    try:
        if vary:
            g = {'linear': CouplingGraph.linear, 'all': CouplingGraph.all_to_all,
                 'star': CouplingGraph.star}[graph_kind](width)
            data.model = MachineModel(width, g)
            asyncio.run(SubtopologySelectionPass(width).run(c, data))
        p = EmbedAllPermutationsPass(
            inner_synthesis=Inner(), input_perm=ip, output_perm=op,
            vary_topology=vary, scoring_fn=scoring)
        asyncio.run(p.run(c, data))
    finally:
        W._worker = old
    pd = data['permutation_data']
    Un = np.asarray(U)
    perms = list(it.permutations(range(width)))
    mats = {q: np.asarray(
        PermutationMatrix.from_qudit_location(width, 2, q)) for q in perms}
    bad = []
    n = 0
    for g, table in pd.items():
        for (pi, pf), circ in table.items():
            n += 1
            V = np.asarray(circ.get_unitary())
            want = mats[tuple(pf)].T @ Un @ mats[tuple(pi)]
            if V.shape != want.shape or not np.allclose(V, want, atol=1e-8):
                bad.append((sorted(g), tuple(pi), tuple(pf)))
    return n, bad, len(pd)


def run_embed(ck: Check):
    logging.disable(logging.WARNING)
    nprng = np.random.RandomState(ck.seed + 909)
    total = entries = 0
    try:
        for width in (2, 3):
            for ip, op in [(True, True), (True, False), (False, True),
                           (False, False)]:
                for vary, gk in [(False, None), (True, 'linear'),
                                 (True, 'star'), (True, 'all')]:
                    for late in (False, True):
                        n, bad, ng = one(width, ip, op, vary, gk, late, nprng)
                        total += 1
                        entries += n
                        ck.count(('embed', width, ip, op, vary, gk, late))
                        if bad:
                            g, pi, pf = bad[0]
                            ck.violation(
                                f'embed:entry-not-permuted-target:{ip}:{op}',
                                'EmbedAllPermutationsPass(input_perm='
                                f'{ip}, output_perm={op}, vary_topology={vary}'
                                f') on a {width}-qubit block: '
                                f'{len(bad)} of {n} entries of '
                                "data['permutation_data'] do not implement "
                                'P(pf)^T U P(pi) for their key, e.g. graph '
                                f'{g}, (pi, pf) = ({pi}, {pf}) - PAM would '
                                'emit this circuit under these permutations',
                                {'width': width, 'input_perm': ip,
                                 'output_perm': op, 'vary_topology': vary,
                                 'machine_graph': gk, 'prefer_late': late,
                                 'bad_entries': bad[:6],
                                 'how': 'harness.c09_embed.one'})
    finally:
        logging.disable(logging.NOTSET)
    ck.coverage['embed_oracle'] = {'runs': total, 'entries_checked': entries}
