"""C14 - the exception-class x site enumeration behind `react` (Model/Crash.lean).

The model has ONE event "the connection is lost"; the real code reaches it through
`except` clauses of different width at different places.  Here every place where
runtime code calls `.recv()` / `.send()` on a connection is

  1. found by walking the ASTs of bqskit/runtime/{base,manager,detached,attached,
     worker}.py and bqskit/compiler/compiler.py (a new or vanished call site is
     reported: `harness-site-drift`), and classified in `SITE_OF` as one of the
     model's `Site`s or as start-up / teardown (handshakes before the run loop,
     `Compiler.close`), and
  2. for every `Site`, executed on REAL objects with a connection that raises each
     class of the documented family (`ConnExc`: EOFError, ConnectionResetError,
     BrokenPipeError, ConnectionAbortedError, OSError('handle is closed'),
     OSError('got end of file during message')); the observed reaction is compared
     with `react <site> <class>` of `bqdriver crash`.

Reactions (the vocabulary of `Reaction`):
  disconnect   ServerBase.run called handle_disconnect (and the node stopped)
  systemError  ServerBase.run called handle_system_error, then shut down
  selfKill     the worker ends (os.kill / `_loop` left with `_running = False`)
  raises       the Compiler call raised RuntimeError and dropped the connection
  dropped      nothing escaped, the node carries on / completes what it was doing
               (for `shutdownSend`: every OTHER employee was still sent SHUTDOWN
               and joined; for `managerUpSend`: the employees were shut down)
  shutdownThenEscapes  the node shut down in `finally`, the exception left `run`
anything else (`escapes:<Class>`, `hang`, ...) is a disagreement.
"""
from __future__ import annotations

import ast
import collections
import os
import threading
import types
import uuid
from pathlib import Path

from harness import c13 as H

FAMILY = {
    'eof': lambda: EOFError(),
    'reset': lambda: ConnectionResetError(104, 'Connection reset by peer'),
    'pipe': lambda: BrokenPipeError(32, 'Broken pipe'),
    'aborted': lambda: ConnectionAbortedError(
        103, 'Software caused connection abort'),
    'closed': lambda: OSError('handle is closed'),
    'trunc': lambda: OSError('got end of file during message'),
}

STARTUP = None      # handshake before the run loop / deliberate teardown
SITE_OF = {
    ('base.py', 'RuntimeEmployee.initiate_shutdown', 'send'): 'shutdownSend',
    ('base.py', 'sigint_handler', 'send'): STARTUP,        # a socketpair
    ('base.py', 'ServerBase.connect_to_managers', 'recv'): STARTUP,
    ('base.py', 'ServerBase.connect_to_manager', 'send'): STARTUP,
    ('base.py', 'ServerBase.spawn_workers', 'recv'): STARTUP,
    ('base.py', 'ServerBase.connect_to_workers', 'recv'): STARTUP,
    ('base.py', 'ServerBase.send_outgoing', 'send'): 'outgoingSend',
    ('base.py', 'ServerBase.run', 'recv'): 'runRecv',
    ('manager.py', 'Manager.__init__', 'recv'): STARTUP,
    ('manager.py', 'Manager.handle_system_error', 'send'): 'managerUpSend',
    ('manager.py', 'Manager.handle_shutdown', 'send'): 'managerUpSend',
    ('detached.py', 'DetachedServer.handle_system_error', 'send'):
        'sysErrClientSend',
    ('detached.py', 'DetachedServer.handle_request', 'send'):
        'unknownTaskSend',
    ('worker.py', 'Worker.__init__.record_factory', 'send'): 'workerSend',
    ('worker.py', 'Worker.__init__', 'send'): STARTUP,
    ('worker.py', 'Worker._loop', 'send'): 'workerSend',
    ('worker.py', 'Worker.recv_incoming', 'recv'): 'workerRecv',
    ('worker.py', 'Worker._get_next_ready_task', 'send'): 'workerSend',
    ('worker.py', 'Worker._try_step_next_ready_task', 'send'): 'workerSend',
    ('worker.py', 'Worker._process_task_completion', 'send'): 'workerSend',
    ('worker.py', 'Worker.submit', 'send'): 'workerSend',
    ('worker.py', 'Worker.map', 'send'): 'workerSend',
    ('worker.py', 'Worker.communicate', 'send'): 'workerSend',
    ('worker.py', 'Worker.cancel', 'send'): 'workerSend',
    ('worker.py', 'start_worker', 'recv'): STARTUP,
    ('compiler.py', 'Compiler.close', 'send'): STARTUP,
    ('compiler.py', 'Compiler.close', 'recv'): STARTUP,
    ('compiler.py', 'Compiler._send', 'send'): 'clientSend',
    ('compiler.py', 'Compiler._send_recv', 'send'): 'clientSend',
    ('compiler.py', 'Compiler._recv_handle_log_error', 'recv'): 'clientRecv',
    ('compiler.py', 'Compiler._recv_log_error_until_empty', 'recv'):
        'clientRecv',
}
FILES = ['bqskit/runtime/base.py', 'bqskit/runtime/manager.py',
         'bqskit/runtime/detached.py', 'bqskit/runtime/attached.py',
         'bqskit/runtime/worker.py', 'bqskit/compiler/compiler.py']
# worker sends happen on the MAIN thread inside `Worker._loop`'s try: these are
# the functions through which `_loop` reaches them
WORKER_MAIN_THREAD = {
    'Worker._loop', 'Worker._get_next_ready_task',
    'Worker._try_step_next_ready_task', 'Worker._process_task_completion',
    'Worker.submit', 'Worker.map', 'Worker.communicate', 'Worker.cancel',
    'Worker.__init__.record_factory'}


def scan_sites(repo_root: Path):
    """{(file, qualified function, 'recv'|'send'): [line numbers]} of the code"""
    found = collections.defaultdict(list)
    for f in FILES:
        tree = ast.parse((repo_root / f).read_text())

        def visit(node, qual):
            for ch in ast.iter_child_nodes(node):
                q = qual
                if isinstance(ch, (ast.ClassDef, ast.FunctionDef,
                                   ast.AsyncFunctionDef)):
                    q = qual + [ch.name]
                if isinstance(ch, ast.Call) \
                        and isinstance(ch.func, ast.Attribute) \
                        and ch.func.attr in ('recv', 'send'):
                    found[(f.split('/')[-1], '.'.join(qual),
                           ch.func.attr)].append(ch.lineno)
                visit(ch, q)
        visit(tree, [])
    return dict(found)


def site_drift(repo_root: Path):
    found = scan_sites(repo_root)
    out = []
    for k in sorted(found):
        if k not in SITE_OF:
            out.append(f'new connection call site {k} (lines {found[k]}) is '
                       'not classified in harness/c14_sites.SITE_OF')
    for k in sorted(SITE_OF):
        if k not in found:
            out.append(f'classified call site {k} no longer exists')
    return out, found


# --------------------------------------------------------------------- fakes
class FailConn(H.FakeConn):
    """FakeConn whose recv / send raise a chosen exception"""
    __slots__ = ()

    def recv(self):
        if self.closed:
            raise OSError('handle is closed')
        if not self.inbox:
            raise getattr(self.log, 'recv_fail').get(id(self), EOFError)()
        return self.inbox.popleft()

    def send(self, m):
        if self.closed:
            raise OSError('handle is closed')
        f = getattr(self.log, 'send_fail').get(id(self))
        if f is not None:
            raise f()
        self.sent.append(m)
        self.log.append(('send', self, m))


class Log(list):
    def __init__(self):
        super().__init__()
        self.recv_fail = {}
        self.send_fail = {}


class _Proc:
    """a spawned worker's Process: join() returns iff SHUTDOWN was sent to it"""

    def __init__(self, conn, M, dead=False):
        self.conn, self.M, self.dead = conn, M, dead
        self.joined = False

    def join(self, timeout=None):
        told = any(m[0] == self.M.SHUTDOWN for m in self.conn.sent)
        if not (self.dead or told):
            raise _Hang()
        self.joined = True


class _Hang(BaseException):
    pass


def _node(kind, nemp, log, managers=False):
    import bqskit.runtime.detached as det
    import bqskit.runtime.manager as mgr
    det.time = types.SimpleNamespace(sleep=lambda s: None)
    mgr.time = types.SimpleNamespace(sleep=lambda s: None)
    sim = H.Sim(kind=kind, employees=[(1, managers)] * nemp, log=log)
    for c in sim.emp_conns:
        c.__class__ = FailConn
    if kind == 'manager':
        sim.s.upstream.__class__ = FailConn
    calls = []
    real_disc = sim.cls.handle_disconnect

    def handle_disconnect(conn):
        calls.append('disconnect')
        real_disc(sim.s, conn)
    sim.s.handle_disconnect = handle_disconnect
    sim.calls = calls
    return sim


def _run_once(sim, conn, direction):
    sim.s.sel.script.append([(H.Key(conn, direction), 1)])
    sim.escaped = None
    try:
        sim.cls.run(sim.s)
    except _Hang:
        return 'hang'
    except Exception as e:      # noqa: BLE001 - observed
        sim.escaped = e
    return None


# ------------------------------------------------------------ site drivers
def _site_run_recv(name, exc):
    """ServerBase.run on every node kind x (employee | upstream) connection"""
    out = []
    for kind, which in (('attached', 'emp'), ('detached', 'emp'),
                        ('manager', 'emp'), ('manager', 'up')):
        log = Log()
        sim = _node(kind, 3, log, managers=(kind == 'detached'))
        s = sim.s
        M = __import__('bqskit.runtime.message', fromlist=['x']).RuntimeMessage
        if kind != 'detached':
            for e in s.employees:
                e.process = _Proc(e.conn, M)
        cl = sim.new_client(0) if kind != 'manager' else None
        if which == 'emp':
            conn = sim.emp_conns[0]     # the FIRST of three employees
            if kind != 'detached':
                s.employees[0].process.dead = True
            direction = sim.D.BELOW
        else:
            conn = s.upstream
            direction = sim.D.ABOVE
        log.recv_fail[id(conn)] = exc
        e0 = len(sim.system_errors)
        hang = _run_once(sim, conn, direction)
        if hang:
            out.append((f'{kind}/{which}', 'hang'))
            continue
        told = [any(m[0] == M.SHUTDOWN for m in c.sent)
                for c in sim.emp_conns]
        others_told = all(told[1:]) if which == 'emp' else all(told)
        if s.running:
            r = 'ignored'
        elif not others_told:
            r = 'stopped-without-telling-employees'
        elif cl is not None and not cl.closed:
            r = 'stopped-without-closing-clients'
        elif sim.calls[:1] == ['disconnect']:
            r = 'disconnect'
        elif len(sim.system_errors) > e0:
            r = 'systemError'
        else:
            r = 'stopped-otherwise'
        out.append((f'{kind}/{which}', r))
    return out


def _new_worker(log):
    from bqskit.runtime.worker import Worker
    from harness import c14
    w = object.__new__(Worker)
    w._id = 0
    w._conn = FailConn('w-up', log)
    w._tasks = {}
    w._delayed_tasks = []
    w._ready_task_ids = H.NBQueue()
    w._cancelled_task_ids = set()
    w._active_task = None
    w._running = True
    w._mailboxes = {}
    w._mailbox_counter = 0
    w._cache = {}
    w.most_recent_read_submit = None
    w.read_receipt_mutex = threading.Lock()
    w.incoming_thread = None
    for name in c14.WORKER_EXTRA_ATTRS & c14._worker_init_attrs():
        setattr(w, name, threading.Lock())
    from harness import runtime_sim as _rs
    _rs.autofill(w, [(Worker, ('__init__',))])
    return w


def _site_worker_recv(name, exc):
    import bqskit.runtime.worker as wmod
    log = Log()
    w = _new_worker(log)
    kills = []
    saved = wmod.os
    wmod.os = types.SimpleNamespace(kill=lambda *a: kills.append(a),
                                    getpid=os.getpid)
    log.recv_fail[id(w._conn)] = exc
    try:
        try:
            type(w).recv_incoming(w)
            r = 'returned'
        except SystemExit:
            r = 'selfKill' if kills else 'exit-without-kill'
        except Exception as e:      # noqa: BLE001 - the incoming thread dies
            r = f'escapes:{type(e).__name__}'
    finally:
        wmod.os = saved
    return [('recv_incoming', r)]


async def _mapper(x):
    return x


def _site_worker_send(name, exc):
    """the worker's main thread meets a failing send: idle (WAITING), and inside
    task code (`get_runtime().map` -> SUBMIT_BATCH, then the task ERROR)"""
    import bqskit.runtime.worker as wmod
    from bqskit.runtime.task import RuntimeTask
    from bqskit.runtime.address import RuntimeAddress
    out = []
    for how in ('idle-WAITING', 'task-map', 'task-result'):
        log = Log()
        w = _new_worker(log)
        wmod._worker = w
        if how != 'idle-WAITING':
            async def job(how=how):
                from bqskit.runtime import get_runtime
                if how == 'task-map':
                    return await get_runtime().map(_mapper, [1, 2])
                return 7
            t = RuntimeTask((job, (), {}), RuntimeAddress(-1, 0, 0), 0, ())
            w._add_task(t)
        log.send_fail[id(w._conn)] = exc
        real = type(w)._try_step_next_ready_task
        seen = {}

        def once():
            try:
                real(w)
            except H.WouldBlock:
                seen['blocked'] = True
            except Exception as e:      # noqa: BLE001
                seen['exc'] = e
                raise
            finally:
                if 'exc' not in seen:
                    w._running = False
        w._try_step_next_ready_task = once
        try:
            type(w)._loop(w)
            r = 'selfKill' if ('exc' in seen and not w._running) else \
                'carries-on'
        except Exception as e:      # noqa: BLE001
            r = f'escapes:{type(e).__name__}'
        out.append((how, r))
    return out


def _site_client(name, exc, at):
    """Compiler.status/result/cancel/submit with the failure at recv / send"""
    from bqskit.ir.circuit import Circuit
    from harness import c14
    import bqskit.compiler.compiler as cmod
    cmod.time = types.SimpleNamespace(sleep=lambda s: None)
    out = []
    for method in ('status', 'result', 'cancel', 'submit'):
        if method == 'submit' and at == 'recv':
            kw = dict(pre=[], post=[])      # the pre-drain of `_send`
            pre_eof = True
        else:
            kw = dict(pre=[], post=[], fail_send=(at == 'send'))
            pre_eof = False
        conn = c14.ScriptConn(exc=exc(), **kw)
        conn.pre_eof = pre_eof
        comp = H.new_client_compiler(conn)
        try:
            if method == 'submit':
                comp.submit(Circuit(1), [c14.C14Pass(0, 1, 1, 0)])
            else:
                getattr(comp, method)(uuid.UUID(int=7))
            r = 'returned'
        except RuntimeError:
            r = 'raises' if comp.conn is None else 'raises-keeps-conn'
        except BaseException as e:      # noqa: BLE001
            r = f'escapes:{type(e).__name__}'
        out.append((method, r))
    return out


def _site_outgoing_send(name, exc):
    out = []
    for kind in ('attached', 'detached', 'manager'):
        log = Log()
        sim = _node(kind, 2, log, managers=(kind == 'detached'))
        s = sim.s
        M = __import__('bqskit.runtime.message', fromlist=['x']).RuntimeMessage
        conn = sim.emp_conns[0]
        log.send_fail[id(conn)] = exc
        s.outgoing.put((conn, M.CANCEL, None))
        s.outgoing.put((sim.emp_conns[1], M.CANCEL, None))
        try:
            try:
                sim.cls.send_outgoing(s)
            except H.Drained:
                pass
            ok = s.running and len(sim.emp_conns[1].sent) == 1 \
                and not sim.calls
            r = 'dropped' if ok else 'reacted-on-the-outgoing-thread'
        except Exception as e:      # noqa: BLE001
            r = f'escapes:{type(e).__name__}'
        out.append((kind, r))
    return out


def _site_shutdown_send(name, exc):
    """handle_shutdown of a node with three employees: the send to the FIRST (and
    in a second run the MIDDLE) one fails; the others must still be told, every
    spawned worker joined, the subclass part (upstream / clients) reached"""
    out = []
    M = __import__('bqskit.runtime.message', fromlist=['x']).RuntimeMessage
    for kind in ('attached', 'detached', 'manager'):
        for bad in (0, 1):
            log = Log()
            sim = _node(kind, 3, log, managers=(kind == 'detached'))
            s = sim.s
            if kind != 'detached':
                for k, e in enumerate(s.employees):
                    e.process = _Proc(e.conn, M, dead=(k == bad))
            cl = sim.new_client(0) if kind != 'manager' else None
            log.send_fail[id(sim.emp_conns[bad])] = exc
            try:
                sim.cls.handle_shutdown(s)
                told = [any(m[0] == M.SHUTDOWN for m in c.sent)
                        for k, c in enumerate(sim.emp_conns) if k != bad]
                if not all(told):
                    r = 'others-not-told'
                elif cl is not None and not cl.closed:
                    r = 'clients-not-closed'
                elif kind == 'manager' and not s.upstream.closed:
                    r = 'upstream-not-closed'
                else:
                    r = 'dropped'
            except _Hang:
                r = 'hang-in-join'
            except Exception as e:      # noqa: BLE001
                r = f'escapes:{type(e).__name__}'
            out.append((f'{kind}/employee{bad}', r))
    return out


def _site_manager_up_send(name, exc):
    out = []
    M = __import__('bqskit.runtime.message', fromlist=['x']).RuntimeMessage
    for what in ('handle_system_error', 'handle_shutdown'):
        log = Log()
        sim = _node('manager', 2, log)
        s = sim.s
        for e in s.employees:
            e.process = _Proc(e.conn, M)
        log.send_fail[id(s.upstream)] = exc
        try:
            if what == 'handle_system_error':
                sim.cls.handle_system_error(s, 'boom')
                r = 'dropped'
            else:
                sim.cls.handle_shutdown(s)
                told = all(any(m[0] == M.SHUTDOWN for m in c.sent)
                           for c in sim.emp_conns)
                r = 'dropped' if (told and not s.running) else \
                    'employees-not-shut-down'
        except _Hang:
            r = 'hang-in-join'
        except Exception as e:      # noqa: BLE001
            r = f'escapes:{type(e).__name__}'
        out.append((what, r))
    return out


def _site_unknown_task_send(name, exc):
    out = []
    M = __import__('bqskit.runtime.message', fromlist=['x']).RuntimeMessage
    for kind in ('detached', 'attached'):
        log = Log()
        sim = _node(kind, 2, log, managers=(kind == 'detached'))
        s = sim.s
        cl = sim.new_client(0)
        cl.__class__ = FailConn
        log.send_fail[id(cl)] = exc
        cl.inbox.append((M.REQUEST, uuid.UUID(int=99)))
        e0 = len(sim.system_errors)
        _run_once(sim, cl, sim.D.CLIENT)
        if sim.escaped is not None:
            r = f'escapes:{type(sim.escaped).__name__}'
        elif len(sim.system_errors) > e0:
            r = 'systemError'
        elif kind == 'detached':
            r = 'dropped' if (s.running and cl not in s.clients) else \
                'client-kept'
        else:       # attached: a client disconnect is a shutdown
            r = 'dropped' if not s.running else 'client-kept'
        out.append((kind, r))
    return out


def _site_syserr_client_send(name, exc):
    out = []
    M = __import__('bqskit.runtime.message', fromlist=['x']).RuntimeMessage
    for kind in ('detached', 'attached'):
        log = Log()
        sim = _node(kind, 2, log, managers=(kind == 'detached'))
        s = sim.s
        bad = sim.new_client(0)
        bad.__class__ = FailConn
        good = sim.new_client(1)
        log.send_fail[id(bad)] = exc
        conn = sim.emp_conns[0]
        conn.inbox.append((M.ERROR, 'a runtime error below'))   # -> system error
        _run_once(sim, conn, sim.D.BELOW)
        told = all(any(m[0] == M.SHUTDOWN for m in c.sent)
                   for c in sim.emp_conns)
        if s.running or not told or not good.closed:
            r = 'not-shut-down'
        elif sim.escaped is not None:
            r = 'shutdownThenEscapes'
        else:
            r = 'systemError'
        out.append((kind, r))
    return out


DRIVERS = {
    'runRecv': _site_run_recv,
    'workerRecv': _site_worker_recv,
    'workerSend': _site_worker_send,
    'clientRecv': lambda n, e: _site_client(n, e, 'recv'),
    'clientSend': lambda n, e: _site_client(n, e, 'send'),
    'outgoingSend': _site_outgoing_send,
    'shutdownSend': _site_shutdown_send,
    'managerUpSend': _site_manager_up_send,
    'unknownTaskSend': _site_unknown_task_send,
    'sysErrClientSend': _site_syserr_client_send,
}
# a disagreement at these sites is a concrete history that violates the property
# (a node that never stops / never tells the others), not only a broken tie
FATAL = {'workerRecv', 'workerSend', 'shutdownSend', 'runRecv',
         'managerUpSend'}


def site_matrix(drv, repo_root: Path):
    """Returns (violations, n, table): violations = [(signature, text, replay,
    found_input)], n = number of (site, class, variant) observations."""
    viol = []
    drift, found = site_drift(repo_root)
    for d in drift:
        viol.append(('harness-site-drift', d, {'kind': 'sites', 'problem': d},
                     False))
    sites = sorted(set(v for v in SITE_OF.values() if v))
    assert sites == sorted(DRIVERS), (sites, sorted(DRIVERS))
    lines = [f'react {s} {x}' for s in sites for x in FAMILY]
    want = dict(zip(lines, drv('crash', lines)))
    n = 0
    table = {}
    for s in sites:
        for x, mk in FAMILY.items():
            exp = want[f'react {s} {x}']
            for variant, got in DRIVERS[s](s, mk):
                n += 1
                table.setdefault(s, {}).setdefault(got, 0)
                table[s][got] += 1
                if got != exp:
                    fatal = s in FATAL and got != 'systemError' \
                        and got != 'disconnect'
                    viol.append((
                        f'exception-class:{s}:{variant}:{x}',
                        f'site {s} ({variant}): a connection failing with '
                        f'{type(mk()).__name__}({mk()}) gives `{got}`, the '
                        f'model (react) says `{exp}`',
                        {'kind': 'sites', 'site': s, 'variant': variant,
                         'class': x, 'observed': got, 'model': exp}, fatal))
    return viol, n, table
