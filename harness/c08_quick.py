"""Observation of a real QuickPartitioner run as moves of the Lean machine
`QuickSpec` (Model/Partition.lean).

Nothing in /repo is edited: while the pass runs, the name `Circuit` inside
`bqskit.passes.partitioning.quick` is replaced by a subclass whose `pop` and
`append_circuit` report the merging / placing of blocks on the partitioned
circuit, and the input circuit's `get_slice` reports which operations
(`Bin.op_list`) the bin being placed holds.

Moves:  l:<j>:<m>  a rear block (index j of the groups placed so far) is
                popped to be merged into the bin being placed; m blocks were
                popped for this bin before (it goes in front of them)
        e:<tags>:<B|b>   the bin (tags = positions of its operations in the
                input's iteration order) is placed as a block / bare barrier
        f       the popped block and the placed bin become one block
BinSpec events (second list): every `Bin.add_op` (which bin takes the next
operation; `BarrierBin`s marked), the end of the scan, and every placement with
the real `Bin.starts` / `Bin.ends` of the placed bin.
"""
from __future__ import annotations

import asyncio


def traced_run(c, k):
    """Run QuickPartitioner(k) on `c` in place; return the list of moves."""
    import bqskit.passes.partitioning.quick as quick
    from bqskit.ir.circuit import Circuit

    tag_of = {}
    for i, (cyc, op) in enumerate(c.operations_with_cycles()):
        tag_of[(cyc, op.location[0])] = i
    moves: list[str] = []
    mirror: list[frozenset] = []      # qudit sets of the groups placed so far
    state = {'tags': None, 'lifts': 0}
    nops = len(tag_of)
    # BinSpec events: a:<bin> / r:<bin> (Bin.add_op), fin, e:<bin>:<q,start,end+1;...>
    bmoves: list[str] = []
    bin_no: dict[int, int] = {}       # Bin.id -> small number, first seen first
    bin_obj: dict[int, object] = {}
    bin_of_tag: dict[int, int] = {}
    bstate = {'adds': 0, 'fin': False}

    orig_add_op = quick.Bin.add_op

    def add_op(self, point, location):
        t = tag_of[(point[0], point[1])]
        if t != bstate['adds']:
            raise AssertionError('tracer: operations binned out of order')
        b = bin_no.setdefault(self.id, len(bin_no))
        bin_obj[b] = self
        bin_of_tag[t] = b
        bstate['adds'] += 1
        bmoves.append(('r:' if isinstance(self, quick.BarrierBin) else 'a:')
                      + str(b))
        return orig_add_op(self, point, location)

    orig_get_slice = Circuit.get_slice

    def get_slice(points):
        state['tags'] = sorted(tag_of[(p[0], p[1])] for p in points)
        state['lifts'] = 0
        if bstate['adds'] == nops and not bstate['fin']:
            bmoves.append('fin')
            bstate['fin'] = True
        bs = {bin_of_tag[t] for t in state['tags']}
        if len(bs) != 1:
            raise AssertionError('tracer: a placed bin mixes bins')
        b = bs.pop()
        bn = bin_obj[b]
        ivs = ';'.join(
            f'{q},{bn.starts[q]},'
            + ('n' if bn.ends[q] is None else str(bn.ends[q] + 1))
            for q in bn.qudits)
        bmoves.append(f'e:{b}:{ivs}')
        return orig_get_slice(c, points)

    class Traced(Circuit):
        def pop(self, point=None):
            op = Circuit.pop(self, point)
            qs = frozenset(op.location)
            m = state['lifts']       # blocks already taken out for this bin
            js = [j for j, g in enumerate(mirror[:len(mirror) - m])
                  if g == qs]
            if not js:
                raise AssertionError('tracer: popped block not found')
            j = js[-1]
            moves.append(f'l:{j}:{m}')
            g = mirror.pop(j)
            mirror.insert(len(mirror) - m, g)
            state['lifts'] += 1
            return op

        def append_circuit(self, circuit, location, as_circuit_gate=False,
                           move=False):
            r = Circuit.append_circuit(self, circuit, location,
                                       as_circuit_gate, move)
            tags = state['tags']
            moves.append('e:' + ','.join(map(str, tags)) + ':'
                         + ('B' if as_circuit_gate else 'b'))
            for _ in range(state['lifts']):
                moves.append('f')
                mirror.pop()
            mirror.append(frozenset(location))
            state['tags'] = None
            state['lifts'] = 0
            return r

    saved = quick.Circuit
    quick.Circuit = Traced
    quick.Bin.add_op = add_op
    c.get_slice = get_slice          # instance attribute shadows the method
    try:
        from harness.c08 import make_data
        asyncio.run(quick.QuickPartitioner(k).run(c, make_data(c)))
    finally:
        quick.Circuit = saved
        quick.Bin.add_op = orig_add_op
        try:
            del c.get_slice
        except AttributeError:
            pass
    return moves, bmoves


def render_bins(r, before, bmoves):
    """the `bins` driver line (BinSpec replay); the answer must be `ok`"""
    ops = [f'{cyc}@{r.op_text(op)}'
           for cyc, op in before.operations_with_cycles()]
    bg = ' '.join(map(str, sorted(r.barrier_gids)))
    return (f'bins {bg} | {before.num_cycles} | '
            + ('+'.join(ops) if ops else '-') + ' | ' + ' '.join(bmoves))


def render_events(r, before, moves, k, after):
    """the driver line and what its answer has to match"""
    from bqskit.ir.gates import CircuitGate
    from bqskit.ir.operation import Operation
    ops = [r.op_text(op) for _, op in before.operations_with_cycles()]
    groups = []
    for op in after:
        if isinstance(op.gate, CircuitGate):
            sub = op.gate._circuit.copy()
            sub.set_params(op.params)
            texts = sorted(
                r.op_text(Operation(
                    o.gate, [op.location[q] for q in o.location], o.params))
                for o in sub)
            groups.append(('B', tuple(texts)))
        else:
            groups.append(('b', (r.op_text(op),)))
    ct = r.circ_text(before)
    bg = ' '.join(map(str, sorted(r.barrier_gids)))
    line = (f'quick {k} {bg} | {ct} | ' + ('+'.join(ops) if ops else '-')
            + ' | ' + ' '.join(moves))
    return line, ('quick', ops, sorted(groups))


def compare(reply: str, expected) -> str | None:
    """None when the machine's final groups are the blocks of the real output"""
    _, ops, groups = expected
    if not reply.startswith('ok'):
        return reply
    got = []
    for tok in reply.split(' ')[1:]:
        kind, tags = tok.split(':')
        texts = sorted(ops[int(t)] for t in tags.split(',') if t != '')
        got.append((kind, tuple(texts)))
    if sorted(got) != groups:
        return 'groups-differ'
    return None
