"""C15 - thin entry point; the work is in runtime_sim.py / runtime_check.py."""
from harness.runtime_entry import run_property


def run(ck):
    run_property(ck, 'C15')
