"""Correspondence between the real run (runtime_sim) and the Lean network model
(`bqdriver runtime`): every transition is replayed on the model; emitted
messages, body events and the canonical state of the acting node are compared.
"""
from __future__ import annotations

import subprocess

from harness.common import DRIVER, InfraError
from harness.runtime_check import classify_error

ECODE = {'dsl-raise': 1, 'await-gone': 2, 'next-gone': 3, 'cancel-gone': 4,
         'map-empty': 7,
         'AssertionError': 5, 'KeyError': 6, 'RuntimeError': 7,
         'IndexError': 8, 'ValueError': 9}


def s_addr(a):
    return '-' if a is None else f'{a[0]}.{a[1]}.{a[2]}'


def s_val(toks):
    return ','.join(map(str, toks)) if toks else 'e'


def s_task(t):
    return (f'{s_addr(t.return_address)}^{t.comp_task_id}^'
            + ','.join(s_addr(c) for c in t.breadcrumbs))


def ecode(text):
    if text == 'Unknown task.':
        return 7
    return ECODE.get(classify_error(text), 0)


class Recorder:
    """Builds the driver input and the expected output of one run."""

    def __init__(self, sim, sc):
        from harness import runtime_sim as rs
        self.rs = rs
        self.sim = sim
        topo = sc['topo']
        nc = len(sc['clients'])
        if topo.get('managers'):
            hdr = f'begin tree {nc} ' + ' '.join(map(str, topo['managers']))
        else:
            hdr = (f'begin flat {1 if topo["kind"] == "attached" else 0} '
                   f'{topo["workers"]} {nc}')
        self.lines = [hdr]
        for pid, prog in enumerate(sc['table']):
            toks = []
            for ins in prog:
                op = ins[0]
                if op == 's':
                    toks += [0, ins[1]]
                elif op == 'm':
                    if len(ins) > 2 and ins[2][0] in ('z', 'zn'):
                        # map over argument lists of different lengths:
                        # the model zips (Instr.mapArgs)
                        toks += [7, len(ins[1]), *ins[1], 2, ins[2][1],
                                 ins[2][2]]
                    else:
                        toks += [1, len(ins[1]), *ins[1]]
                elif op == 'y':
                    pass        # preemption point: no instruction of the model
                elif op == 'a':
                    toks += [2, ins[1]]
                elif op == 'n':
                    toks += [3, ins[1]]
                elif op == 'c':
                    toks += [4, ins[1]]
                elif op == 'x':
                    toks += [5]
                elif op == 'r':
                    toks += [6]
            self.lines.append(f'prog {pid} ' + ' '.join(map(str, toks)))
        self.lines.append('go')
        self.expected = ['ok'] * len(self.lines)
        self.nhdr = len(self.lines)
        self.ev_pos = 0
        self.ci_mbox = {}
        self.alive_before = {}
        self.dead = False      # a transition ran INSIDE a worker step: the
        #                        model (handler-level atomicity) cannot follow;
        #                        the prefix recorded so far is still compared

    # ---------------------------------------------------------- rendering
    def s_msg(self, src, dst, m):
        M = self.rs.M
        sim = self.sim
        k, p = m
        sk, dk = sim.nodes[src].kind, sim.nodes[dst].kind
        if k == '<EOF>':
            return 'EOF'
        if k == M.SUBMIT:
            if sk == 'C':
                ci = sim.uuid2comp[p.task_id]
                return f'cSUBMIT {ci} {sim.comp[ci]["pid"]}'
            return 'SUBMIT ' + s_task(p)
        if k == M.SUBMIT_BATCH:
            return 'BATCH ' + ' '.join(s_task(t) for t in p)
        if k == M.RESULT:
            if dk == 'C':
                return 'sRESULT ' + s_val(self.rs.tok(self.rs.enc(p)))
            return (f'RESULT {s_addr(p.return_address)} {p.completed_by} '
                    + s_val(self.rs.tok(self.rs.enc(p.result))))
        if k == M.ERROR:
            if dk == 'C':
                return f'sERROR {ecode(p)}'
            if isinstance(p, tuple):
                return f'ERROR {p[0]} {ecode(p[1])}'
            return f'SYSERR {ecode(p)}'
        if k == M.CANCEL:
            if sk == 'C':
                return f'cCANCEL {sim.uuid2comp[p]}'
            if dk == 'C':
                return 'sCANCEL'
            return 'CANCEL ' + s_addr(p)
        if k == M.WAITING:
            return f'WAITING {p[0]} {s_addr(p[1])}'
        if k == M.UPDATE:
            return f'UPDATE {p}'
        if k == M.REQUEST:
            return f'cREQUEST {sim.uuid2comp[p]}'
        if k == M.STATUS:
            if sk == 'C':
                return f'cSTATUS {sim.uuid2comp[p]}'
            return f'sSTATUS {int(p)}'
        if k == M.DISCONNECT:
            return 'cDISCONNECT'
        if k == M.SHUTDOWN:
            return 'SHUTDOWN'
        return f'?{k}'

    def s_box(self, m, b):
        rs = self.rs
        fr = 'N' if b.fresh_results is None else '[' + ','.join(
            str(s) for s, _ in b.fresh_results) + ']'
        if b.expecting_single_result:
            val = rs.tok(rs.enc(b.result))
        else:
            val = rs.tok(('L', tuple(rs.enc(x) for x in b.result)))
        return (f'{m}:{int(b.expecting_single_result)},'
                f'{b.expected_num_results},{b.num_results},'
                f'{s_addr(b.dest_addr)},{fr},{s_val(val)}')

    def s_worker(self, node):
        w = node.obj
        tasks = sorted(w._tasks.values(), key=lambda t: tuple(t.return_address))
        ts = ' '.join(
            f'{s_addr(t.return_address)}('
            f'{"-" if t.desired_box_id is None else t.desired_box_id},'
            f'{int(t.wake_on_next)},[{",".join(map(str, t.owned_mailboxes))}])'
            for t in tasks)
        return (
            f'tasks={ts} delayed='
            + ' '.join(s_addr(t.return_address) for t in w._delayed_tasks)
            + ' ready=' + ' '.join(s_addr(a) for a in w._ready_task_ids.queue)
            + ' cancelled=' + ' '.join(
                s_addr(a) for a in sorted(map(tuple, w._cancelled_task_ids)))
            + ' boxes=' + ' '.join(self.s_box(m, w._mailboxes[m])
                                   for m in sorted(w._mailboxes))
            + f' ctr={w._mailbox_counter}'
            f' receipt={s_addr(w.most_recent_read_submit)}'
            f' blocked={int(node.blocked)} alive={int(node.alive)}')

    @staticmethod
    def s_boss(o):
        es = ' '.join(
            f'({e.num_tasks},{e.num_idle_workers},['
            + ' '.join(f'{s_addr(a)}:{n}' for a, n in e.submit_cache) + '])'
            for e in o.employees)
        return f'emps={es} idle={o.num_idle_workers}'

    def s_server(self, node):
        o = node.obj
        sim = self.sim
        u2c = sim.uuid2comp
        boxes = ' '.join(f'{m}:{int(b.result is not None)},'
                         f'{int(b.client_waiting)}'
                         for m, b in sorted(o.mailboxes.items()))
        tasks = ' '.join(f'{ci}:{mb}:{cj}' for ci, mb, cj in sorted(
            (u2c[u], mb, int(c.peer[1:])) for u, (mb, c) in o.tasks.items()))
        m2t = ' '.join(f'{m}:{u2c[u]}' for m, u in sorted(
            o.mailbox_to_task_dict.items()))
        cl = ' '.join(f'{j}:[{",".join(map(str, ids))}]' for j, ids in sorted(
            (int(c.peer[1:]), sorted(u2c[u] for u in us))
            for c, us in o.clients.items()))
        return (f'{self.s_boss(o)} boxes={boxes} tasks={tasks} m2t={m2t} '
                f'clients={cl} ctr={o.mailbox_counter} run={int(o.running)}')

    def s_manager(self, node):
        o = node.obj
        return (f'{self.s_boss(o)} last={o.last_num_idle_sent_up} '
                f'receipt={s_addr(o.most_recent_read_submit)} '
                f'run={int(o.running)}')

    def s_state(self, name):
        node = self.sim.nodes[name]
        if node.kind == 'W':
            return self.s_worker(node)
        if node.kind == 'S':
            return self.s_server(node)
        if node.kind == 'M':
            return self.s_manager(node)
        return '-'

    def s_events(self):
        rs = self.rs
        out = []
        evs = self.sim.events[self.ev_pos:]
        self.ev_pos = len(self.sim.events)
        dots = lambda t: '.'.join(map(str, t))
        for e in evs:
            k = e[1]
            if k == 'start':
                out.append(f'start {dots(e[2])}')
            elif k == 'spawn':
                out.append(f'spawn {dots(e[2])} {e[3]} {e[5]}')
            elif k == 'saw':
                out.append(f'saw {dots(e[2])} {e[3]} {s_val(rs.tok(e[5]))}')
            elif k == 'cancel':
                out.append(f'cancel {dots(e[2])} {e[3]}')
            elif k == 'raise':
                out.append(f'raise {dots(e[2])}')
            elif k == 'ret':
                out.append(f'ret {dots(e[2])} {s_val(rs.tok(e[3]))}')
        return ' ; '.join(out)

    # ----------------------------------------------------------- recording
    def before(self, sim):
        self.alive_before = {n.name: n.alive for n in sim.nodes.values()
                             if n.kind == 'C'}

    def after(self, sim, rec):
        M = self.rs.M
        tr = rec['tr']
        if rec.get('depth', 0) > 0 or rec.get('nested', 0) > 0:
            self.dead = True
        if self.dead:
            return
        srv = sim.nodes['S'].obj
        for u, (mb, c) in srv.tasks.items():
            self.ci_mbox.setdefault(sim.uuid2comp[u], mb)
        em = ' ; '.join(f'{a}>{b}:{self.s_msg(a, b, m)}'
                        for a, b, m in rec['emitted'])
        evs = self.s_events()
        if tr[0] == 'w':
            line = f'w {tr[1]}'
            acting = tr[1]
            note = 'ok'
        elif tr[0] == 'c':
            name = tr[1]
            node = sim.nodes[name]
            dies = int(self.alive_before.get(name, True) and not node.alive)
            op = 'none'
            for a, b, m in rec['emitted']:
                k, p = m
                if k == M.SUBMIT:
                    ci = sim.uuid2comp[p.task_id]
                    op = f'submit {ci} {sim.comp[ci]["pid"]}'
                elif k == M.REQUEST:
                    op = f'request {sim.uuid2comp[p]}'
                elif k == M.STATUS:
                    op = f'status {sim.uuid2comp[p]}'
                elif k == M.CANCEL:
                    op = f'cancel {sim.uuid2comp[p]}'
                elif k == M.DISCONNECT:
                    op = 'disconnect'
                elif k == '<EOF>':
                    op = 'eof'
            line = f'c {name[1:]} {op} | {dies}'
            acting = name
            note = 'ok'
        else:
            src, dst = tr[1], tr[2]
            dn = sim.nodes[dst]
            acting = dst
            asg, ordr = [], []
            died = 0
            note = 'dropped' if rec.get('dropped') else 'ok'
            if dn.kind in 'SM' and not rec.get('dropped'):
                m = rec['msg']
                where = {}
                names = [e.conn.peer for e in rec.get('emps_before', [])]
                for a, b, mm in rec['emitted']:
                    if a == dst and mm[0] == M.SUBMIT_BATCH \
                            and sim.nodes[b].kind in 'WM' and b != 'S' \
                            and not (dn.kind == 'M' and b == 'S'):
                        for t in mm[1]:
                            where[tuple(t.return_address)] = b
                if m[0] == M.SUBMIT and sim.nodes[src].kind != 'C':
                    inp = [tuple(m[1].return_address)]
                elif m[0] == M.SUBMIT_BATCH:
                    inp = list(rec.get('batch', []))
                elif m[0] == M.SUBMIT:
                    inp = list(where)       # the root task
                else:
                    inp = []
                asg = [names.index(where[a]) for a in inp
                       if a in where and where[a] in names]
                if dn.kind == 'S':
                    first = names[0] if names else None
                    for a, b, mm in rec['emitted']:
                        if mm[0] == M.CANCEL and b == first \
                                and sim.nodes[src].kind == 'C' \
                                and m[0] != M.CANCEL:
                            mb = mm[1][1]
                            ordr += [ci for ci, x in self.ci_mbox.items()
                                     if x == mb]
                if sim.syserr and sim.syserr[-1][0] == rec['t']:
                    note = 'syserr'
            if dn.kind == 'C':
                died = int(self.alive_before.get(dst, True) and not dn.alive)
            line = (f'd {src} {dst} | ' + ' '.join(map(str, asg)) + ' | '
                    + ' '.join(map(str, ordr)) + f' | {died}')
        self.lines.append(line)
        self.expected.append(f'{note} # {evs} # {em} # {self.s_state(acting)}')


def norm_note(s: str) -> str:
    """`syserr <why>` of the model only says where; compare the class."""
    head, sep, rest = s.partition(' # ')
    if head.startswith('syserr'):
        head = 'syserr'
    return head + sep + rest


def run_driver(lines: list[str]) -> list[str]:
    if not DRIVER.exists():
        raise InfraError(f'{DRIVER} missing (run setup: lake build)')
    r = subprocess.run([str(DRIVER), 'runtime'], input='\n'.join(lines) + '\n',
                       text=True, stdout=subprocess.PIPE,
                       stderr=subprocess.PIPE, timeout=1800)
    if r.returncode != 0:
        raise InfraError('bqdriver runtime failed: ' + r.stderr[-2000:])
    return r.stdout.split('\n')[:-1]


def compare(rec: Recorder, out: list[str]) -> dict:
    res = {'transitions': len(rec.lines) - rec.nhdr, 'mismatch': None}
    if len(out) != len(rec.lines):
        res['mismatch'] = {'at': -1, 'why': 'driver output length '
                           f'{len(out)} != {len(rec.lines)}'}
        return res
    for i, (line, exp, got) in enumerate(zip(rec.lines, rec.expected, out)):
        if norm_note(exp) != norm_note(got):
            res['mismatch'] = {'at': i - rec.nhdr + 1, 'line': line,
                               'impl': exp, 'model': got}
            break
    return res


def diff(rec: Recorder) -> dict:
    return compare(rec, run_driver(rec.lines))


def search_failing_input(ck, m, prop, tries=48):
    """A model/implementation disagreement was seen in the run `m['replay']`.
    Look for an input on which the REAL code violates the property (decided by
    the direct oracles): continuations of prefixes of that run under other
    schedules, and fresh schedules of the same scenario."""
    import random
    import re
    from harness import runtime_check as rc
    rp = m.get('replay')
    if not rp or 'scenario' not in rp:
        return None
    sc = rc.scenario_from_json(rp['scenario'])
    sched = [tuple(x) for x in rp['schedule']]
    known = [e for e in ck.known.get('entries', [])
             if e.get('status') == 'finding' and e.get('property') == prop]
    rng = random.Random(ck.seed * 7919 + len(sched))
    for k in range(tries):
        cut = 0 if k % 4 == 3 else rng.randint(max(0, len(sched) // 3),
                                               len(sched))
        try:
            sim, V, stats, st = rc.run_one(sc, rp['run_seed'] + 1 + k,
                                           schedule=sched[:cut], cont=True)
        except RuntimeError:
            continue
        hit = None
        for (p_, sig, what, d) in V.items:
            if p_ != prop:
                continue
            if any(re.fullmatch(e['signature'], sig) for e in known):
                continue
            hit = (sig, what)
            break
        schedule = sim.schedule()
        sim.dispose()
        if hit:
            return {'oracle': hit[0], 'what': hit[1],
                    'replay': {'scenario': sc, 'run_seed': rp['run_seed'] + 1 + k,
                               'schedule': schedule}}
    return None


def report(ck, agg, prop):
    mm = agg.get('model', {})
    ck.coverage['traces_validated_against_impl'] = (
        agg['runs'] - mm.get('bad_runs', 0))
    ck.coverage['model_transitions_compared'] = mm.get('transitions', 0)
    pre = agg.get('stats', {}).get('runs_with_a_preempted_step', 0)
    ck.coverage['runs_compared_with_the_model_in_full'] = agg['runs'] - pre
    ck.coverage['runs_compared_up_to_the_first_transition_inside_a_step'] = pre
    for m in mm.get('mismatch', [])[:1]:
        found = search_failing_input(ck, m, prop)
        if found:
            ck.violation(
                'correspondence:network-model',
                'real run and Lean network model disagree at transition '
                f'{m["at"]} ({m.get("line")}); searching from that run: '
                f'[{found["oracle"]}] {found["what"]}',
                {'broken': 'correspondence runtime', 'oracle': found['oracle'],
                 **found['replay']}, found_input=True)
            continue
        ck.violation(
            'correspondence:network-model',
            'real run and Lean network model disagree at transition '
            f'{m["at"]} ({m.get("line")}); the direct oracles found no '
            'violating input in this run (correspondence BqVerif.Runtime '
            '<-> bqskit/runtime no longer checks)',
            {'broken': 'correspondence runtime',
             **{k: v for k, v in m.items() if k != 'replay'},
             **m.get('replay', {})}, found_input=False)
