"""C20 - coupling-graph and permutation utilities match their definitions.

Tie (A): every labelled graph on <= 5 (quick) / <= 6 (thorough) vertices plus
seeded random larger graphs is pushed through the real CouplingGraph /
PermutationMatrix code and through the Lean model (bqdriver graph); outputs are
compared exactly after canonicalisation.  Independent textbook oracles written
here decide whether a disagreement is a violation of the stated property.
"""
from __future__ import annotations

import itertools as it
import warnings

import numpy as np

from harness.common import Check


# ---------------------------------------------------------------- oracles
def reach_sets(n, edges):
    comp = list(range(n))

    def find(x):
        while comp[x] != x:
            comp[x] = comp[comp[x]]
            x = comp[x]
        return x
    for u, v in edges:
        comp[find(u)] = find(v)
    return [find(i) for i in range(n)]


def o_connected(n, edges):
    return len(set(reach_sets(n, edges))) == 1


def o_fw(n, wt):
    """Min weight over non-empty walks i -> j by Bellman-Ford style closure."""
    INF = float('inf')
    D = [[wt.get((i, j), INF) for j in range(n)] for i in range(n)]
    for _ in range(n + 1):
        changed = False
        for i in range(n):
            for j in range(n):
                for k in range(n):
                    c = D[i][k] + wt.get((k, j), INF)
                    if c < D[i][j]:
                        D[i][j] = c
                        changed = True
        if not changed:
            break
    return D


def o_hops(n, edges, s):
    adj = [set() for _ in range(n)]
    for u, v in edges:
        adj[u].add(v)
        adj[v].add(u)
    d = {s: 0}
    fr = [s]
    while fr:
        nx = []
        for u in fr:
            for v in adj[u]:
                if v not in d:
                    d[v] = d[u] + 1
                    nx.append(v)
        fr = nx
    return d


def o_conn_subsets(n, edges, k):
    es = {frozenset(e) for e in edges}
    out = []
    for sub in it.combinations(range(n), k):
        sube = [tuple(e) for e in es if e <= set(sub)]
        idx = {q: i for i, q in enumerate(sub)}
        if o_connected(k, [(idx[a], idx[b]) for a, b in sube]):
            out.append(sub)
    return sorted(out)


def o_embedded(n1, e1, n2, e2):
    if n1 > n2:
        return False
    es2 = {frozenset(e) for e in e2}
    for f in it.permutations(range(n2), n1):
        if all(frozenset((f[u], f[v])) in es2 for u, v in e1):
            return True
    return False


# ------------------------------------------------------------ formatting
def fmt_g(g):
    es = sorted(tuple(sorted(e)) for e in g._edges)
    return f'{g.num_qudits} : ' + ' '.join(f'{a}-{b}' for a, b in es)


def fmt_w(x):
    if x == float('inf'):
        return 'inf'
    assert float(x) == int(x)
    return str(int(x))


def gline(n, edges):
    return f'{n} {len(edges)} ' + ' '.join(f'{u} {v}' for u, v in edges)


def all_graphs(n):
    pairs = list(it.combinations(range(n), 2))
    for mask in range(1 << len(pairs)):
        yield [p for i, p in enumerate(pairs) if mask >> i & 1]


def run(ck: Check):
    from bqskit.ir.circuit import Circuit  # noqa: F401 (import order)
    from bqskit.qis.graph import CouplingGraph
    from bqskit.qis.permutation import PermutationMatrix
    warnings.simplefilter('ignore')
    proved = ck.lean_obligations()
    rng = ck.rng
    thorough = ck.tier == 'thorough'
    maxn = 6 if thorough else 5
    nrand = 4000 if thorough else 300

    cases = []   # (line, impl, oracle|None, key)

    def add(line, impl, oracle, key):
        cases.append((line, impl, oracle, key))

    def safe(f):
        try:
            return f()
        except (RuntimeError, ValueError, TypeError) as e:
            return 'raise'

    graphs = []
    for n in range(1, maxn + 1):
        for edges in all_graphs(n):
            graphs.append((n, edges, True))
    ck.coverage['exhaustive'] = True
    ck.coverage['exhaustive_space'] = (
        f'all labelled graphs on 1..{maxn} vertices ({len(graphs)})')
    for _ in range(nrand):
        n = rng.randint(6, 11)
        p = rng.choice([0.1, 0.2, 0.3, 0.5])
        edges = [e for e in it.combinations(range(n), 2) if rng.random() < p]
        if rng.random() < 0.5:     # unnormalised / duplicated input edges
            edges = [(b, a) if rng.random() < 0.5 else (a, b)
                     for a, b in edges]
            edges += [rng.choice(edges)] if edges else []
        graphs.append((n, edges, False))

    for n, edges, small in graphs:
        g = CouplingGraph(edges, n)
        gl = gline(n, edges)
        nes = sorted({tuple(sorted(e)) for e in edges})
        key = (n, tuple(nes))
        ck.bump('graphs_by_n', str(n))
        add(f'connected {gl}', str(g.is_fully_connected()).lower(),
            str(o_connected(n, nes)).lower(), ('conn', key))
        add(f'degrees {gl}', ' '.join(map(str, g.get_qudit_degrees())),
            ' '.join(str(sum(1 for e in nes if v in e)) for v in range(n)),
            ('deg', key))
        add(f'adj {gl}', ' ; '.join(
            ' '.join(map(str, sorted(g.get_neighbors_of(v))))
            for v in range(n)),
            ' ; '.join(' '.join(str(u) for u in range(n)
                                if tuple(sorted((u, v))) in nes)
                       for v in range(n)), ('adj', key))
        add(f'linear {gl}', str(g.is_linear()).lower(), None, ('lin', key))
        # Floyd-Warshall with default weights, and with remote/overrides
        if n <= 7:
            D = g.all_pairs_shortest_path()
            wt = {}
            for a, b in nes:
                wt[(a, b)] = wt[(b, a)] = 1
            O = o_fw(n, wt)
            add(f'fw {gl} | 1 100 | |',
                ' ; '.join(' '.join(fmt_w(x) for x in row) for row in D),
                ' ; '.join(' '.join(fmt_w(x) for x in row) for row in O),
                ('fw', key))
            if nes and (not small or rng.random() < 0.15):
                raw = list(dict.fromkeys(edges))
                rem = [e for e in raw if rng.random() < 0.3]
                ov = {e: rng.randint(1, 9) for e in raw if rng.random() < 0.3}
                dw, rw = rng.randint(1, 3), rng.randint(4, 50)
                g2 = CouplingGraph(edges, n, rem, dw, rw, ov)
                wt = {}
                nrem = {tuple(sorted(e)) for e in rem}
                for e in nes:
                    wt[e] = wt[(e[1], e[0])] = rw if e in nrem else dw
                for e, w in ov.items():     # applied last, in dict order
                    wt[e] = wt[(e[1], e[0])] = w
                D = g2.all_pairs_shortest_path()
                O = o_fw(n, wt)
                add(f'fw {gl} | {dw} {rw} | '
                    + ' '.join(f'{a} {b}' for a, b in rem) + ' | '
                    + ' '.join(f'{a} {b} {w}' for (a, b), w in ov.items()),
                    ' ; '.join(' '.join(fmt_w(x) for x in row) for row in D),
                    ' ; '.join(' '.join(fmt_w(x) for x in row) for row in O),
                    ('fww', key, tuple(rem), tuple(sorted(ov.items())),
                     dw, rw))
        # shortest path tree: exact vs model, defining property vs oracle
        srcs = range(n) if small and n <= 4 else [rng.randrange(n)]
        for s in srcs:
            r = safe(lambda: g.get_shortest_path_tree(s))
            impl = r if r == 'raise' else ' ; '.join(
                ' '.join(map(str, p)) for p in r)
            add(f'spt {gl} | {s}', impl, None, ('spt', key, s))
            hops = o_hops(n, nes, s)
            ok = True
            if r == 'raise':
                ok = len(hops) < n
            else:
                ok = len(hops) == n
                for v, p in enumerate(r):
                    ok = ok and len(p) >= 1 and p[0] == s and p[-1] == v \
                        and len(p) - 1 == hops.get(v) and all(
                            tuple(sorted(e)) in nes for e in zip(p, p[1:]))
            if not ok:
                ck.violation(
                    'spt-not-shortest', 'get_shortest_path_tree returns a '
                    'path that is not a valid shortest path / raises wrongly',
                    {'n': n, 'edges': edges, 'source': s, 'impl': impl})
        # subgraphs
        if n <= 7:
            for k in (range(1, n + 1) if small else [rng.randint(1, min(n, 4))]):
                r = safe(lambda: g.get_subgraphs_of_size(k))
                impl = r if r == 'raise' else ' ; '.join(
                    ' '.join(map(str, l)) for l in
                    sorted({tuple(sorted(l)) for l in r}))
                add(f'subsize {gl} | {k}', impl, ' ; '.join(
                    ' '.join(map(str, l))
                    for l in o_conn_subsets(n, nes, k)), ('ss', key, k))
        locs = []
        if small and n <= 4:
            for k in range(1, n + 1):
                locs += list(it.permutations(range(n), k))
        else:
            for _ in range(3):
                k = rng.randint(1, min(n, 5))
                locs.append(tuple(rng.sample(range(n), k)))
        for loc in locs:
            r = safe(lambda: g.get_subgraph(loc))
            impl = r if r == 'raise' else fmt_g(r)
            idx = {q: i for i, q in enumerate(loc)}
            oes = sorted({tuple(sorted((idx[a], idx[b]))) for a, b in nes
                          if a in idx and b in idx})
            add(f'subgraph {gl} | ' + ' '.join(map(str, loc)) + ' | 0',
                impl, f'{len(loc)} : ' + ' '.join(f'{a}-{b}' for a, b in oes),
                ('sg', key, loc))
            if rng.random() < 0.3:
                vals = list(range(len(loc)))
                rng.shuffle(vals)
                ren = dict(zip(loc, vals))
                r = safe(lambda: g.get_subgraph(loc, ren))
                impl = r if r == 'raise' else fmt_g(r)
                oes = sorted({tuple(sorted((ren[a], ren[b]))) for a, b in nes
                              if a in ren and b in ren})
                add(f'subgraph {gl} | ' + ' '.join(map(str, loc)) + ' | 1 '
                    + ' '.join(f'{a} {b}' for a, b in ren.items()),
                    impl, f'{len(loc)} : ' + ' '.join(
                        f'{a}-{b}' for a, b in oes), ('sgr', key, loc,
                                                      tuple(vals)))

    # embedding on pairs
    small_graphs = [x for x in graphs if x[0] <= 4]
    for _ in range(3000 if thorough else 600):
        a = rng.choice(small_graphs)
        b = rng.choice(small_graphs if rng.random() < 0.7 else
                       [x for x in graphs if x[0] == 5])
        ga, gb = CouplingGraph(a[1], a[0]), CouplingGraph(b[1], b[0])
        add(f'embedded {gline(a[0], a[1])} | {gline(b[0], b[1])}',
            str(ga.is_embedded_in(gb)).lower(),
            str(o_embedded(a[0], a[1], b[0], b[1])).lower(),
            ('emb', a[0], tuple(a[1]), b[0], tuple(b[1])))

    # topology constructors, degenerate sizes included
    def topo_oracle(kind, n):
        if kind == 'all_to_all':
            es = list(it.combinations(range(n), 2))
        elif kind == 'linear':
            es = [(i, i + 1) for i in range(n - 1)]
        elif kind == 'ring':
            if n <= 1:
                return 'raise'
            es = sorted({tuple(sorted((i, (i + 1) % n))) for i in range(n)})
        elif kind == 'star':
            es = [(0, i) for i in range(1, n)]
        nn = max(n, 1) if not es else max(max(e) for e in es) + 1
        return f'{nn} : ' + ' '.join(f'{a}-{b}' for a, b in sorted(es))
    for kind in ('all_to_all', 'linear', 'ring', 'star'):
        for n in range(1, 9):   # n = 0 is outside the documented domain
            r = safe(lambda: getattr(CouplingGraph, kind)(n))
            add(f'topo {kind} {n}', r if r == 'raise' else fmt_g(r),
                topo_oracle(kind, n), ('topo', kind, n))
    for r_ in range(0, 5):
        for c_ in range(0, 5):
            r = safe(lambda: CouplingGraph.grid(r_, c_))
            es = []
            for i in range(r_):
                for j in range(c_):
                    if j + 1 < c_:
                        es.append((i * c_ + j, i * c_ + j + 1))
                    if i + 1 < r_:
                        es.append((i * c_ + j, (i + 1) * c_ + j))
            nn = 1 if not es else max(max(e) for e in es) + 1
            add(f'topo grid {r_} {c_}', r if r == 'raise' else fmt_g(r),
                f'{nn} : ' + ' '.join(f'{a}-{b}' for a, b in sorted(es)),
                ('grid', r_, c_))

    # mk: constructor normalisation
    for _ in range(300):
        n = rng.randint(1, 6)
        raw = [(rng.randrange(n + 1), rng.randrange(n + 1))
               for _ in range(rng.randint(0, 6))]
        num = rng.choice([None, n, n + 1, n - 1])
        if num is not None and num < 0:
            num = None
        r = safe(lambda: CouplingGraph(raw, num))
        add('mk ' + ' '.join(f'{a} {b}' for a, b in raw) + ' | '
            + ('-' if num is None else str(num)),
            'err' if r == 'raise' else fmt_g(r), None, ('mk', tuple(raw), num))

    # permutation matrices: all ordered locations
    for n in range(1, 5 if thorough else 4):
        for r_ in (2, 3, 4):
            if r_ ** n > (1024 if thorough else 256):
                continue
            for k in range(0, n + 1):
                for loc in it.permutations(range(n), k):
                    P = PermutationMatrix.from_qudit_location(n, r_, loc)
                    M = np.asarray(P.numpy if hasattr(P, 'numpy') else P)
                    rows = [int(np.argmax(np.abs(M[:, c])))
                            for c in range(M.shape[1])]
                    perm0 = list(loc) + [i for i in range(n) if i not in loc]
                    spec = []
                    for col in range(r_ ** n):
                        ds = [(col // r_ ** (n - 1 - i)) % r_
                              for i in range(n)]
                        out = 0
                        for q in perm0:
                            out = out * r_ + ds[q]
                        spec.append(out)
                    add(f'perm {n} {r_} ' + ' '.join(map(str, loc)),
                        ' '.join(map(str, rows)), ' '.join(map(str, spec)),
                        ('perm', n, r_, loc))

    # gen_swap_unitary: the matrix itself (column -> row of the single 1)
    for r_ in range(2, 8):
        S = np.asarray(PermutationMatrix.gen_swap_unitary(r_).numpy)
        ok = (S.shape == (r_ * r_, r_ * r_)
              and np.all((S == 0) | (S == 1))
              and np.all(S.sum(0) == 1) and np.all(S.sum(1) == 1))
        rows = [int(np.argmax(np.abs(S[:, c]))) for c in range(r_ * r_)]
        add(f'genswap {r_}', ' '.join(map(str, rows)) if ok else 'not-0/1',
            ' '.join(str((c % r_) * r_ + c // r_) for c in range(r_ * r_)),
            ('genswap', r_))

    # ---------------------------------------------------------- run driver
    outs = ck.driver('graph', [c[0] for c in cases])
    if len(outs) != len(cases):
        raise RuntimeError('driver output length mismatch')
    kinds = {}
    for (line, impl, oracle, key), model in zip(cases, outs):
        kind = line.split()[0]
        kinds[kind] = kinds.get(kind, 0) + 1
        ck.count(key)
        ck.bump('traces_validated_against_impl')
        if len(ck.coverage['samples']) < 8 and kinds[kind] in (7, 400):
            ck.sample({'request': line, 'impl': impl, 'model': model})
        bad_oracle = oracle is not None and impl != oracle
        bad_model = impl != model
        if bad_oracle:
            ck.violation(
                f'{kind}-differs-from-definition',
                f'{kind}: implementation differs from the textbook definition',
                {'request': line, 'impl': impl, 'definition': oracle,
                 'model': model})
        elif bad_model:
            ck.violation(
                f'{kind}-correspondence',
                f'{kind}: implementation and Lean model disagree; the '
                'definition oracle found no violating input (correspondence '
                f'BqVerif.Graph <-> bqskit/qis/graph.py no longer checks)',
                {'request': line, 'impl': impl, 'model': model,
                 'definition': oracle, 'broken': 'correspondence graph'},
                found_input=False)
    ck.coverage['requests_by_kind'] = kinds
    ck.coverage['rule'] = (
        'each case = one API request on one graph (exhaustive over all '
        f'labelled graphs on <= {maxn} vertices, seeded random graphs on 6-11 '
        'vertices, all ordered locations for permutations); distinct = '
        'distinct (request kind, canonical graph, arguments); all counted '
        'cases are non-trivial in that they exercise the function on a '
        'distinct input')
    if not proved:
        ck.violation(
            'proof-obligation', 'Lean obligations of Props/C20 do not check: '
            + (ck.proof_failure or '')[:400],
            {'broken': 'BqVerif.Props.C20', 'log': ck.proof_failure},
            found_input=False)
    ck.assumptions += [
        'edge weights are naturals in the model; float weights only validated',
        'set iteration order abstracted: set-valued results compared sorted',
    ]
