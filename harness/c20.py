"""C20 - coupling-graph and permutation utilities match their definitions.

Tie (A): every labelled graph on <= 5 (quick) / <= 6 (thorough) vertices plus
seeded random larger graphs is pushed through the real CouplingGraph /
PermutationMatrix code and through the Lean model (bqdriver graph); outputs are
compared exactly after canonicalisation.  Independent textbook oracles written
here decide whether a disagreement is a violation of the stated property.

Kronecker clause (bqdriver kron): the real UnitaryMatrix.otimes / ipower and
UnitaryBuilder.apply_left / apply_right / get_unitary / eval_apply_* run on
exact monomial matrices (permutation times a diagonal of fourth roots of unity;
all products are exact in floating point) for mixed radixes, and are compared
(1) with an explicit reference written here by digit arithmetic and (2) with the
exact integer model BqVerif.Kron.  Dense random unitaries are compared with the
reference only (tolerance 1e-9).  Conventions (docstrings of unitarybuilder.py,
"Applying the unitary on the right is equivalent to multiplying the unitary on
the left of the tensor"):
    apply_right(M, loc):  U <- Embed(M, loc) @ U
    apply_left(M, loc):   U <- U @ Embed(M, loc)
    inverse=True:         M is replaced by its conjugate transpose
    Embed(M, loc): gate qudit k is builder qudit loc[k]; identity elsewhere;
    indices are mixed-radix numbers with qudit 0 the most significant digit.
"""
from __future__ import annotations

import itertools as it
import warnings

import numpy as np

from harness.common import Check


# ---------------------------------------------------------------- oracles
def reach_sets(n, edges):
    comp = list(range(n))

    def find(x):
        while comp[x] != x:
            comp[x] = comp[comp[x]]
            x = comp[x]
        return x
    for u, v in edges:
        comp[find(u)] = find(v)
    return [find(i) for i in range(n)]


def o_connected(n, edges):
    return len(set(reach_sets(n, edges))) == 1


def o_fw(n, wt):
    """Min weight over non-empty walks i -> j by Bellman-Ford style closure."""
    INF = float('inf')
    D = [[wt.get((i, j), INF) for j in range(n)] for i in range(n)]
    for _ in range(n + 1):
        changed = False
        for i in range(n):
            for j in range(n):
                for k in range(n):
                    c = D[i][k] + wt.get((k, j), INF)
                    if c < D[i][j]:
                        D[i][j] = c
                        changed = True
        if not changed:
            break
    return D


def o_hops(n, edges, s):
    adj = [set() for _ in range(n)]
    for u, v in edges:
        adj[u].add(v)
        adj[v].add(u)
    d = {s: 0}
    fr = [s]
    while fr:
        nx = []
        for u in fr:
            for v in adj[u]:
                if v not in d:
                    d[v] = d[u] + 1
                    nx.append(v)
        fr = nx
    return d


def o_conn_subsets(n, edges, k):
    es = {frozenset(e) for e in edges}
    out = []
    for sub in it.combinations(range(n), k):
        sube = [tuple(e) for e in es if e <= set(sub)]
        idx = {q: i for i, q in enumerate(sub)}
        if o_connected(k, [(idx[a], idx[b]) for a, b in sube]):
            out.append(sub)
    return sorted(out)


def o_embedded(n1, e1, n2, e2):
    if n1 > n2:
        return False
    es2 = {frozenset(e) for e in e2}
    for f in it.permutations(range(n2), n1):
        if all(frozenset((f[u], f[v])) in es2 for u, v in e1):
            return True
    return False


# ------------------------------------------------------------ formatting
def fmt_g(g):
    es = sorted(tuple(sorted(e)) for e in g._edges)
    return f'{g.num_qudits} : ' + ' '.join(f'{a}-{b}' for a, b in es)


def fmt_w(x):
    if x == float('inf'):
        return 'inf'
    assert float(x) == int(x)
    return str(int(x))


def gline(n, edges):
    return f'{n} {len(edges)} ' + ' '.join(f'{u} {v}' for u, v in edges)


def all_graphs(n):
    pairs = list(it.combinations(range(n), 2))
    for mask in range(1 << len(pairs)):
        yield [p for i, p in enumerate(pairs) if mask >> i & 1]


SIG_WHAT = {
    'subgraph-accepts-non-injective-renumbering':
        'get_subgraph accepts a non-injective renumbering (docstring: must be '
        'a permutation of [0, len(location))) and returns a merged graph, e.g.'
        ' CouplingGraph([(0,1)],3).get_subgraph((0,1,2),{0:0,1:2,2:2}) has '
        'edges {(0,2)} instead of raising ValueError',
    'subgraph-accepts-malformed-renumbering':
        'get_subgraph accepts a renumbering that is not a bijection '
        'location -> [0, len(location)) instead of raising',
    'kron-apply-accepts-malformed-arguments':
        'UnitaryBuilder.apply_left/apply_right accept an invalid location or '
        'an operand whose size / radixes do not match the location (documented'
        ' to raise)',
}


# ------------------------------------------- Kronecker clause: reference code
PH = (1, 1j, -1, -1j)


def rand_mono(rng, d):
    """Random monomial matrix as list column -> (row, phase)."""
    perm = list(range(d))
    rng.shuffle(perm)
    return [(perm[c], rng.randrange(4)) for c in range(d)]


def mono_np(m):
    A = np.zeros((len(m), len(m)), dtype=np.complex128)
    for c, (r, p) in enumerate(m):
        A[r, c] = PH[p]
    return A


def mono_txt(m):
    return ' '.join(f'{r} {p}' for r, p in m)


def canon_mono(A, tol=1e-9):
    """'row:phase ...' per column after checking that A really is a monomial
    matrix with entries in {0, +-1, +-i} (up to tol)."""
    A = np.asarray(A)
    if A.ndim != 2 or A.shape[0] != A.shape[1]:
        return f'bad-shape-{A.shape}'
    out, rows = [], set()
    for c in range(A.shape[1]):
        col = A[:, c]
        r = int(np.argmax(np.abs(col)))
        ph = [p for p in range(4) if abs(col[r] - PH[p]) <= tol]
        rest = np.abs(np.delete(col, r))
        if len(ph) != 1 or (rest.size and rest.max() > tol) or r in rows:
            return 'not-monomial'
        rows.add(r)
        out.append(f'{r}:{ph[0]}')
    return ' '.join(out)


def prod(xs):
    r = 1
    for x in xs:
        r *= x
    return r


def digit_table(radixes):
    """D[x, q] = digit of qudit q in the mixed-radix expansion of x (qudit 0
    most significant)."""
    n, d = len(radixes), prod(radixes)
    D = np.zeros((d, n), dtype=np.int64)
    x = np.arange(d)
    for q in range(n):
        w = prod(radixes[q + 1:])
        D[:, q] = (x // w) % radixes[q]
    return D


def ref_kron(A, B):
    """K[r1*d2 + r2, c1*d2 + c2] = A[r1, c1] * B[r2, c2]."""
    d1, d2 = A.shape[0], B.shape[0]
    K = np.zeros((d1 * d2, d1 * d2), dtype=np.complex128)
    for r1 in range(d1):
        for c1 in range(d1):
            if A[r1, c1] != 0:
                K[r1 * d2:(r1 + 1) * d2, c1 * d2:(c1 + 1) * d2] = A[r1, c1] * B
    return K


def ref_embed(M, loc, radixes):
    """E[row, col] = M[sub(row), sub(col)] if row and col agree on every qudit
    outside loc, else 0; sub(x) = number with digits x[loc[0]], x[loc[1]], ...
    """
    D = digit_table(radixes)
    sub = np.zeros(D.shape[0], dtype=np.int64)
    for q in loc:
        sub = sub * radixes[q] + D[:, q]
    rest = np.zeros(D.shape[0], dtype=np.int64)
    for q in range(len(radixes)):
        if q not in loc:
            rest = rest * radixes[q] + D[:, q]
    return M[sub[:, None], sub[None, :]] * (rest[:, None] == rest[None, :])


def ref_power(M, k):
    B = M.conj().T if k < 0 else M
    R = np.eye(M.shape[0], dtype=np.complex128)
    for _ in range(abs(k)):
        R = R @ B
    return R


def tensor_entries(T, radixes):
    """The dim x dim matrix read out of a tensor of shape radixes+radixes by
    digit indexing: entry (row, col) = T[digits(row) + digits(col)]."""
    D = digit_table(radixes)
    n = len(radixes)
    idx = tuple(D[:, q][:, None] for q in range(n)) \
        + tuple(D[:, q][None, :] for q in range(n))
    return np.asarray(T)[idx]


def rand_radixes(rng, lo, hi, maxdim):
    while True:
        rs = tuple(rng.choice((2, 3, 4)) for _ in range(rng.randint(lo, hi)))
        if prod(rs) <= maxdim:
            return rs


def run_kron(ck, thorough):
    """Kronecker clause; returns the list of driver cases for `bqdriver kron`.
    """
    from bqskit.qis.unitary.unitarybuilder import UnitaryBuilder
    from bqskit.qis.unitary.unitarymatrix import UnitaryMatrix
    from scipy.stats import unitary_group
    rng = ck.rng
    scale = 10 if thorough else 1
    cases = []
    TOL = 1e-9

    def close(A, B):
        A, B = np.asarray(A), np.asarray(B)
        return A.shape == B.shape and float(np.abs(A - B).max()) <= TOL

    def dense(d):
        return unitary_group.rvs(
            d, random_state=np.random.RandomState(rng.getrandbits(32))) \
            if d > 1 else np.array([[PH[rng.randrange(4)]]], dtype=complex)

    def radix_check(kind, got, want, replay):
        if tuple(got) != tuple(want):
            ck.violation(
                f'kron-{kind}-radixes', f'{kind}: result radixes {tuple(got)}'
                f' differ from the definition {tuple(want)}', replay)

    # ---- otimes: self.otimes(*others) = self (x) o1 (x) o2 ...
    for i in range(400 * scale):
        nops = rng.choice((0, 1, 1, 1, 2, 2))
        while True:
            rads = [rand_radixes(rng, 1, 3, 64) for _ in range(nops + 1)]
            if prod(prod(r) for r in rads) <= 144:
                break
        monos = [rand_mono(rng, prod(r)) for r in rads]
        us = [UnitaryMatrix(mono_np(m), r) for m, r in zip(monos, rads)]
        res = us[0].otimes(*us[1:])
        ref = mono_np(monos[0])
        for m in monos[1:]:
            ref = ref_kron(ref, mono_np(m))
        line = 'otimes | ' + ' | '.join(mono_txt(m) for m in monos)
        rp = {'request': line, 'radixes': rads}
        radix_check('otimes', res.radixes, sum(rads, ()), rp)
        ck.bump('kron_dims', str(ref.shape[0]))
        cases.append((line, canon_mono(res.numpy), canon_mono(ref),
                      ('otimes', tuple(map(tuple, monos))), None))
    # ---- ipower
    for i in range(300 * scale):
        rads = rand_radixes(rng, 1, 3, 36)
        m = rand_mono(rng, prod(rads))
        k = rng.randint(-5, 7)
        res = UnitaryMatrix(mono_np(m), rads).ipower(k)
        line = f'ipower | {mono_txt(m)} | {k}'
        radix_check('ipower', res.radixes, rads, {'request': line})
        cases.append((line, canon_mono(res.numpy),
                      canon_mono(ref_power(mono_np(m), k)),
                      ('ipower', tuple(m), k), None))

    # ---- builder: sequences of apply_right / apply_left on monomial gates
    def gen_op(n, rads, exact):
        k = rng.randint(1, min(3, n))
        loc = tuple(rng.sample(range(n), k))
        oprad = tuple(rads[q] for q in loc)
        side = rng.choice('RL')
        inv = rng.random() < 0.5
        if exact:
            m = rand_mono(rng, prod(oprad))
            return side, inv, loc, oprad, m, mono_np(m)
        return side, inv, loc, oprad, None, dense(prod(oprad))

    def apply(b, side, inv, loc, oprad, M):
        f = b.apply_right if side == 'R' else b.apply_left
        f(UnitaryMatrix(M, oprad), loc, inv)

    def ref_apply(U, side, inv, loc, rads, M):
        E = ref_embed(M.conj().T if inv else M, loc, rads)
        return E @ U if side == 'R' else U @ E

    def op_txt(side, inv, loc, oprad, m):
        return (f'{side} {int(inv)} | ' + ' '.join(map(str, loc)) + ' | '
                + ' '.join(map(str, oprad)) + ' | ' + mono_txt(m))

    def builder_case(exact, malformed=None):
        n = rng.randint(1, 4)
        rads = rand_radixes(rng, n, n, 108)
        b = UnitaryBuilder(n, rads)
        U = np.eye(prod(rads), dtype=np.complex128)
        ops, txt = [], []
        nops = rng.randint(0 if malformed else 1, 4)
        for _ in range(nops):
            side, inv, loc, oprad, m, M = gen_op(n, rads, exact)
            # eval_apply_* (no state change, raw matrix, no inverse flag)
            if rng.random() < 0.3:
                f = b.eval_apply_right if side == 'R' else b.eval_apply_left
                from bqskit.ir.location import CircuitLocation
                got = f(M, CircuitLocation(loc))
                want = ref_apply(U, side, False, loc, rads, M)
                ck.bump('kron_eval_apply_checked')
                if not close(got, want):
                    ck.violation(
                        'kron-eval_apply-differs-from-definition',
                        'eval_apply_' + ('right' if side == 'R' else 'left')
                        + ' differs from the explicit embedding product',
                        {'radixes': rads, 'ops_before': ops, 'side': side,
                         'location': loc, 'matrix': str(M.tolist())})
            U = ref_apply(U, side, inv, loc, rads, M)
            ops.append((side, inv, loc, oprad,
                        m if exact else str(M.tolist())))
            if exact:
                txt.append(op_txt(side, inv, loc, oprad, m))
            ck.bump('kron_apply_steps', side + ('-inv' if inv else ''))
            try:
                # a valid apply must neither raise nor leave a tensor of the
                # wrong shape; either is the property failing on this input
                apply(b, side, inv, loc, oprad, M)
                got = b.get_unitary()
                bad = (tuple(np.asarray(b.tensor).shape) != tuple(rads) * 2
                       or not close(got.numpy, U)
                       or not close(tensor_entries(b.tensor, rads), U))
            except Exception as e:                  # noqa: BLE001
                bad = True
                got = type('G', (), {'numpy': np.zeros_like(U)})()
                ops.append(('raised', repr(e)[:200]))
            if bad:
                name = 'apply_right' if side == 'R' else 'apply_left'
                ck.violation(
                    f'kron-{name}-differs-from-definition',
                    f'UnitaryBuilder.{name}: builder unitary / tensor differs '
                    'from the explicit Kronecker embedding product',
                    {'radixes': rads, 'ops': ops})
                break
        line = 'build | ' + ' '.join(map(str, rads)) + ''.join(
            ' | ' + t for t in txt)
        if malformed is None:
            ur = b.get_unitary()
            radix_check('build', ur.radixes, rads, {'request': line})
            return line, ur.numpy, U, (rads, tuple(map(str, ops)))
        # one more op whose arguments the code must reject
        side, inv = rng.choice('RL'), rng.random() < 0.5
        if malformed == 'dup-loc' and n >= 1:
            q = rng.randrange(n)
            loc, oprad = (q, q), (rads[q], rads[q])
        elif malformed == 'range-loc':
            loc, oprad = (n + rng.randint(0, 2),), (rng.choice((2, 3, 4)),)
        elif malformed == 'size':
            loc = tuple(rng.sample(range(n), rng.randint(1, min(2, n))))
            oprad = tuple(rads[q] for q in loc) + (rng.choice((2, 3)),)
        elif malformed == 'radix-swap' and len(set(rads)) > 1:
            # same total dimension, radixes in the wrong order: only the
            # explicit radix check can reject this one
            a = rng.randrange(n)
            bq = rng.choice([q for q in range(n) if rads[q] != rads[a]])
            loc, oprad = (a, bq), (rads[bq], rads[a])
        else:   # radix mismatch on one qudit of the location
            malformed = 'radix'
            loc = tuple(rng.sample(range(n), rng.randint(1, min(2, n))))
            oprad = [rads[q] for q in loc]
            j = rng.randrange(len(loc))
            oprad[j] = rng.choice([r for r in (2, 3, 4) if r != oprad[j]])
            oprad = tuple(oprad)
        m = rand_mono(rng, prod(oprad))
        try:
            apply(b, side, inv, loc, oprad, mono_np(m))
            impl = canon_mono(b.get_unitary().numpy)
        except (ValueError, TypeError):
            impl = 'raise'
        except Exception as e:                      # noqa: BLE001
            impl = 'raise-' + type(e).__name__
        line += ' | ' + op_txt(side, inv, loc, oprad, m)
        ck.bump('kron_malformed', malformed)
        return line, impl, 'raise', (rads, tuple(map(str, ops)), loc, oprad,
                                     tuple(m))

    for i in range(800 * scale):
        line, got, U, key = builder_case(True)
        ck.bump('kron_dims', str(U.shape[0]))
        cases.append((line, canon_mono(got), canon_mono(U), ('build', key),
                      None))
    for i in range(100 * scale):
        kind = ('dup-loc', 'range-loc', 'size', 'radix', 'radix-swap')[i % 5]
        line, impl, orc, key = builder_case(True, kind)
        cases.append((line, impl, orc, ('build-bad', key),
                      'kron-apply-accepts-malformed-arguments'))

    # ---- dense random unitaries: reference only, tolerance 1e-9
    for i in range(100 * scale):
        builder_case(False)
        ck.count(('dense-build', i, ck.seed))
        ck.bump('kron_dense_cases', 'build')
    for i in range(80 * scale):
        rads = [rand_radixes(rng, 1, 2, 12) for _ in range(rng.randint(2, 3))]
        Ms = [dense(prod(r)) for r in rads]
        res = UnitaryMatrix(Ms[0], rads[0]).otimes(
            *[UnitaryMatrix(M, r) for M, r in zip(Ms[1:], rads[1:])])
        ref = Ms[0]
        for M in Ms[1:]:
            ref = ref_kron(ref, M)
        rp = {'radixes': rads, 'matrices': [str(M.tolist()) for M in Ms]}
        radix_check('otimes', res.radixes, sum(rads, ()), rp)
        if not close(res.numpy, ref):
            ck.violation('kron-otimes-differs-from-definition',
                         'otimes (dense unitaries) differs from the explicit '
                         'Kronecker product', rp)
        k = rng.randint(-4, 5)
        p = UnitaryMatrix(Ms[0], rads[0]).ipower(k)
        if not close(p.numpy, ref_power(Ms[0], k)):
            ck.violation('kron-ipower-differs-from-definition',
                         'ipower (dense unitary) differs from the repeated '
                         'product', {'radixes': rads[0], 'power': k,
                                     'matrix': str(Ms[0].tolist())})
        ck.count(('dense-otimes-ipower', i, ck.seed))
        ck.bump('kron_dense_cases', 'otimes+ipower')
    return cases


def run(ck: Check):
    from bqskit.ir.circuit import Circuit  # noqa: F401 (import order)
    from bqskit.qis.graph import CouplingGraph
    from bqskit.qis.permutation import PermutationMatrix
    warnings.simplefilter('ignore')
    proved = ck.lean_obligations()
    rng = ck.rng
    thorough = ck.tier == 'thorough'
    maxn = 6 if thorough else 5
    nrand = 4000 if thorough else 300

    cases = []   # (line, impl, oracle|None, key, signature override|None)

    def add(line, impl, oracle, key, sig=None):
        cases.append((line, impl, oracle, key, sig))

    def safe(f):
        try:
            return f()
        except (RuntimeError, ValueError, TypeError) as e:
            return 'raise'

    graphs = []
    for n in range(1, maxn + 1):
        for edges in all_graphs(n):
            graphs.append((n, edges, True))
    ck.coverage['exhaustive'] = True
    ck.coverage['exhaustive_space'] = (
        f'all labelled graphs on 1..{maxn} vertices ({len(graphs)})')
    for _ in range(nrand):
        n = rng.randint(6, 11)
        p = rng.choice([0.1, 0.2, 0.3, 0.5])
        edges = [e for e in it.combinations(range(n), 2) if rng.random() < p]
        if rng.random() < 0.5:     # unnormalised / duplicated input edges
            edges = [(b, a) if rng.random() < 0.5 else (a, b)
                     for a, b in edges]
            edges += [rng.choice(edges)] if edges else []
        graphs.append((n, edges, False))

    def subsize_case(g, n, edges, nes, gl, key, k):
        """get_subgraphs_of_size(k): as a set of vertex sets = the connected
        k-subsets (oracle + model); and, as an enumeration, no vertex set may
        be listed twice.  (Before the fix b592992 the code built
        CircuitLocation(list(curr_path)) from a Python set; for labels >= 8
        the iteration order of that set depends on the insertion history and
        CircuitLocation equality is order sensitive, so the same vertex set
        was returned several times.)"""
        r = safe(lambda: g.get_subgraphs_of_size(k))
        impl = r if r == 'raise' else ' ; '.join(
            ' '.join(map(str, l)) for l in
            sorted({tuple(sorted(l)) for l in r}))
        add(f'subsize {gl} | {k}', impl, ' ; '.join(
            ' '.join(map(str, l))
            for l in o_conn_subsets(n, nes, k)), ('ss', key, k))
        if r != 'raise':
            ck.count(('ss-dup', key, k))
            if len({frozenset(l) for l in r}) != len(r):
                dup = sorted(tuple(l) for l in r)
                ck.violation(
                    'subsize-duplicate-vertex-sets',
                    'get_subgraphs_of_size lists the same vertex set more '
                    'than once (in different orders)',
                    {'n': n, 'edges': edges, 'size': k, 'result': dup[:12]})

    # reproducers of the former duplicate enumeration (labels >= 8; fixed by
    # b592992), every seed
    for n, edges, k in [(9, [(0, 8)], 2),
                        (17, [(0, 8), (0, 16), (8, 16)], 3)]:
        g = CouplingGraph(edges, n)
        nes = sorted({tuple(sorted(e)) for e in edges})
        subsize_case(g, n, edges, nes, gline(n, edges), (n, tuple(nes)), k)

    for n, edges, small in graphs:
        g = CouplingGraph(edges, n)
        gl = gline(n, edges)
        nes = sorted({tuple(sorted(e)) for e in edges})
        key = (n, tuple(nes))
        ck.bump('graphs_by_n', str(n))
        add(f'connected {gl}', str(g.is_fully_connected()).lower(),
            str(o_connected(n, nes)).lower(), ('conn', key))
        add(f'degrees {gl}', ' '.join(map(str, g.get_qudit_degrees())),
            ' '.join(str(sum(1 for e in nes if v in e)) for v in range(n)),
            ('deg', key))
        add(f'adj {gl}', ' ; '.join(
            ' '.join(map(str, sorted(g.get_neighbors_of(v))))
            for v in range(n)),
            ' ; '.join(' '.join(str(u) for u in range(n)
                                if tuple(sorted((u, v))) in nes)
                       for v in range(n)), ('adj', key))
        add(f'linear {gl}', str(g.is_linear()).lower(), None, ('lin', key))
        # Floyd-Warshall with default weights, and with remote/overrides
        if n <= 7:
            D = g.all_pairs_shortest_path()
            wt = {}
            for a, b in nes:
                wt[(a, b)] = wt[(b, a)] = 1
            O = o_fw(n, wt)
            add(f'fw {gl} | 1 100 | |',
                ' ; '.join(' '.join(fmt_w(x) for x in row) for row in D),
                ' ; '.join(' '.join(fmt_w(x) for x in row) for row in O),
                ('fw', key))
            if nes and (not small or rng.random() < 0.15):
                raw = list(dict.fromkeys(edges))
                rem = [e for e in raw if rng.random() < 0.3]
                ov = {e: rng.randint(1, 9) for e in raw if rng.random() < 0.3}
                dw, rw = rng.randint(1, 3), rng.randint(4, 50)
                g2 = CouplingGraph(edges, n, rem, dw, rw, ov)
                wt = {}
                nrem = {tuple(sorted(e)) for e in rem}
                for e in nes:
                    wt[e] = wt[(e[1], e[0])] = rw if e in nrem else dw
                for e, w in ov.items():     # applied last, in dict order
                    wt[e] = wt[(e[1], e[0])] = w
                D = g2.all_pairs_shortest_path()
                O = o_fw(n, wt)
                add(f'fw {gl} | {dw} {rw} | '
                    + ' '.join(f'{a} {b}' for a, b in rem) + ' | '
                    + ' '.join(f'{a} {b} {w}' for (a, b), w in ov.items()),
                    ' ; '.join(' '.join(fmt_w(x) for x in row) for row in D),
                    ' ; '.join(' '.join(fmt_w(x) for x in row) for row in O),
                    ('fww', key, tuple(rem), tuple(sorted(ov.items())),
                     dw, rw))
        # shortest path tree: exact vs model, defining property vs oracle
        srcs = range(n) if small and n <= 4 else [rng.randrange(n)]
        for s in srcs:
            r = safe(lambda: g.get_shortest_path_tree(s))
            impl = r if r == 'raise' else ' ; '.join(
                ' '.join(map(str, p)) for p in r)
            add(f'spt {gl} | {s}', impl, None, ('spt', key, s))
            hops = o_hops(n, nes, s)
            ok = True
            if r == 'raise':
                ok = len(hops) < n
            else:
                ok = len(hops) == n
                for v, p in enumerate(r):
                    ok = ok and len(p) >= 1 and p[0] == s and p[-1] == v \
                        and len(p) - 1 == hops.get(v) and all(
                            tuple(sorted(e)) in nes for e in zip(p, p[1:]))
            if not ok:
                ck.violation(
                    'spt-not-shortest', 'get_shortest_path_tree returns a '
                    'path that is not a valid shortest path / raises wrongly',
                    {'n': n, 'edges': edges, 'source': s, 'impl': impl})
        # subgraphs (all sizes of graphs; vertex labels >= 8 matter, see
        # subsize_case)
        for k in (range(1, n + 1) if small else [rng.randint(1, min(n, 4))]):
            subsize_case(g, n, edges, nes, gl, key, k)
        locs = []
        if small and n <= 4:
            for k in range(1, n + 1):
                locs += list(it.permutations(range(n), k))
        else:
            for _ in range(3):
                k = rng.randint(1, min(n, 5))
                locs.append(tuple(rng.sample(range(n), k)))
        for loc in locs:
            r = safe(lambda: g.get_subgraph(loc))
            impl = r if r == 'raise' else fmt_g(r)
            idx = {q: i for i, q in enumerate(loc)}
            oes = sorted({tuple(sorted((idx[a], idx[b]))) for a, b in nes
                          if a in idx and b in idx})
            add(f'subgraph {gl} | ' + ' '.join(map(str, loc)) + ' | 0',
                impl, f'{len(loc)} : ' + ' '.join(f'{a}-{b}' for a, b in oes),
                ('sg', key, loc))
            if rng.random() < 0.3:
                vals = list(range(len(loc)))
                rng.shuffle(vals)
                ren = dict(zip(loc, vals))
                r = safe(lambda: g.get_subgraph(loc, ren))
                impl = r if r == 'raise' else fmt_g(r)
                oes = sorted({tuple(sorted((ren[a], ren[b]))) for a, b in nes
                              if a in ren and b in ren})
                add(f'subgraph {gl} | ' + ' '.join(map(str, loc)) + ' | 1 '
                    + ' '.join(f'{a} {b}' for a, b in ren.items()),
                    impl, f'{len(loc)} : ' + ' '.join(
                        f'{a}-{b}' for a, b in oes), ('sgr', key, loc,
                                                      tuple(vals)))

    # embedding on pairs
    small_graphs = [x for x in graphs if x[0] <= 4]
    for _ in range(3000 if thorough else 600):
        a = rng.choice(small_graphs)
        b = rng.choice(small_graphs if rng.random() < 0.7 else
                       [x for x in graphs if x[0] == 5])
        ga, gb = CouplingGraph(a[1], a[0]), CouplingGraph(b[1], b[0])
        add(f'embedded {gline(a[0], a[1])} | {gline(b[0], b[1])}',
            str(ga.is_embedded_in(gb)).lower(),
            str(o_embedded(a[0], a[1], b[0], b[1])).lower(),
            ('emb', a[0], tuple(a[1]), b[0], tuple(b[1])))

    # topology constructors, degenerate sizes included
    def topo_oracle(kind, n):
        if kind == 'all_to_all':
            es = list(it.combinations(range(n), 2))
        elif kind == 'linear':
            es = [(i, i + 1) for i in range(n - 1)]
        elif kind == 'ring':
            if n <= 1:
                return 'raise'
            es = sorted({tuple(sorted((i, (i + 1) % n))) for i in range(n)})
        elif kind == 'star':
            es = [(0, i) for i in range(1, n)]
        nn = max(n, 1) if not es else max(max(e) for e in es) + 1
        return f'{nn} : ' + ' '.join(f'{a}-{b}' for a, b in sorted(es))
    for kind in ('all_to_all', 'linear', 'ring', 'star'):
        for n in range(1, 9):   # n = 0 is outside the documented domain
            r = safe(lambda: getattr(CouplingGraph, kind)(n))
            add(f'topo {kind} {n}', r if r == 'raise' else fmt_g(r),
                topo_oracle(kind, n), ('topo', kind, n))
    for r_ in range(0, 5):
        for c_ in range(0, 5):
            r = safe(lambda: CouplingGraph.grid(r_, c_))
            es = []
            for i in range(r_):
                for j in range(c_):
                    if j + 1 < c_:
                        es.append((i * c_ + j, i * c_ + j + 1))
                    if i + 1 < r_:
                        es.append((i * c_ + j, (i + 1) * c_ + j))
            nn = 1 if not es else max(max(e) for e in es) + 1
            add(f'topo grid {r_} {c_}', r if r == 'raise' else fmt_g(r),
                f'{nn} : ' + ' '.join(f'{a}-{b}' for a, b in sorted(es)),
                ('grid', r_, c_))

    # mk: constructor normalisation
    for _ in range(300):
        n = rng.randint(1, 6)
        raw = [(rng.randrange(n + 1), rng.randrange(n + 1))
               for _ in range(rng.randint(0, 6))]
        num = rng.choice([None, n, n + 1, n - 1])
        if num is not None and num < 0:
            num = None
        r = safe(lambda: CouplingGraph(raw, num))
        add('mk ' + ' '.join(f'{a} {b}' for a, b in raw) + ' | '
            + ('-' if num is None else str(num)),
            'err' if r == 'raise' else fmt_g(r), None, ('mk', tuple(raw), num))

    # permutation matrices: all ordered locations
    for n in range(1, 5 if thorough else 4):
        for r_ in (2, 3, 4):
            if r_ ** n > (1024 if thorough else 256):
                continue
            for k in range(0, n + 1):
                for loc in it.permutations(range(n), k):
                    P = PermutationMatrix.from_qudit_location(n, r_, loc)
                    M = np.asarray(P.numpy if hasattr(P, 'numpy') else P)
                    rows = [int(np.argmax(np.abs(M[:, c])))
                            for c in range(M.shape[1])]
                    perm0 = list(loc) + [i for i in range(n) if i not in loc]
                    spec = []
                    for col in range(r_ ** n):
                        ds = [(col // r_ ** (n - 1 - i)) % r_
                              for i in range(n)]
                        out = 0
                        for q in perm0:
                            out = out * r_ + ds[q]
                        spec.append(out)
                    add(f'perm {n} {r_} ' + ' '.join(map(str, loc)),
                        ' '.join(map(str, rows)), ' '.join(map(str, spec)),
                        ('perm', n, r_, loc))

    # gen_swap_unitary: the matrix itself (column -> row of the single 1)
    for r_ in range(2, 8):
        S = np.asarray(PermutationMatrix.gen_swap_unitary(r_).numpy)
        ok = (S.shape == (r_ * r_, r_ * r_)
              and np.all((S == 0) | (S == 1))
              and np.all(S.sum(0) == 1) and np.all(S.sum(1) == 1))
        rows = [int(np.argmax(np.abs(S[:, c]))) for c in range(r_ * r_)]
        add(f'genswap {r_}', ' '.join(map(str, rows)) if ok else 'not-0/1',
            ' '.join(str((c % r_) * r_ + c // r_) for c in range(r_ * r_)),
            ('genswap', r_))


    # ------------------------------------------------------------------
    # is_fully_connected_without(q).  Oracle (n >= 2, q < n): the graph induced
    # on V \ {q} is connected.  Outside that domain only the model is compared:
    # n = 1, q = 0 raises IndexError (start vertex 1 does not exist); q >= n is
    # not rejected: the loop runs on the whole graph with target size n - 1.
    def o_connected_without(n, nes, q):
        idx = {v: i for i, v in enumerate(x for x in range(n) if x != q)}
        return o_connected(n - 1, [(idx[a], idx[b]) for a, b in nes
                                   if a != q and b != q])

    for n, edges, small in graphs:
        g = CouplingGraph(edges, n)
        gl = gline(n, edges)
        nes = sorted({tuple(sorted(e)) for e in edges})
        qs = range(n + 1) if small else \
            [rng.randrange(n), rng.randrange(n), n + rng.randint(0, 1)]
        for q in dict.fromkeys(qs):
            try:
                impl = str(g.is_fully_connected_without(q)).lower()
            except IndexError:
                impl = 'raise'
            orc = None
            if n >= 2 and q < n:
                orc = str(o_connected_without(n, nes, q)).lower()
                ck.bump('fcw_oracle', orc)
            else:
                ck.bump('fcw_outside_domain', impl)
            add(f'fcw {gl} | {q}', impl, orc, ('fcw', n, tuple(nes), q))

    # ------------------------------------------------------------------
    # QPU functions with remote edges.  Definition: the QPUs are the connected
    # components of (V, E \ remote); the code discovers them by increasing
    # smallest vertex (qpu[0] is that vertex); inside a QPU the order is the
    # set.pop order, so members are compared as sets.
    def qpu_case(n, edges, rem):
        g = CouplingGraph(edges, n, rem)
        nes = sorted({tuple(sorted(e)) for e in edges})
        nrem = sorted({tuple(sorted(e)) for e in rem})
        q2q_map = g.get_qpu_to_qudit_map()
        q2q_map = [list(x) for x in q2q_map]
        qmap = g.get_qudit_to_qpu_map()
        conn = g.get_qpu_connectivity()
        count = g.qpu_count()
        rp = {'n': n, 'edges': edges, 'remote_edges': rem,
              'qpu_to_qudit': q2q_map, 'qudit_to_qpu': qmap,
              'qpu_connectivity': [sorted(x) for x in conn]}
        # ---- definition
        lab = reach_sets(n, [e for e in nes if e not in nrem])
        comps = {}
        for v in range(n):
            comps.setdefault(lab[v], []).append(v)
        comps = sorted(comps.values())        # by smallest member
        cidx = {v: k for k, c in enumerate(comps) for v in c}
        ok = ([sorted(x) for x in q2q_map] == comps
              and all(x[0] == min(x) for x in q2q_map)
              and sum(len(x) for x in q2q_map) == n)
        if not ok:
            ck.violation(
                'qpu-map-differs-from-definition', 'get_qpu_to_qudit_map: the '
                'QPUs are not the connected components of the graph without '
                'its remote edges (ordered by smallest qudit)', rp)
        if count != len(comps):
            ck.violation('qpu-count-differs-from-definition',
                         'qpu_count differs from the number of components of '
                         'the graph without remote edges', rp)
        spec_map = [cidx[v] for v in range(n)]
        insertion = [k for k, x in enumerate(q2q_map) for _ in x]
        if list(qmap) != spec_map:
            ck.bump('qpu_findings', 'qudit_to_qpu')
            ck.violation(
                'qudit-to-qpu-map-not-indexed-by-qudit'
                if list(qmap) == insertion else
                'qudit-to-qpu-map-differs-from-definition',
                'get_qudit_to_qpu_map()[q] is not the QPU that holds qudit q '
                '(the list is in dict insertion order, QPU by QPU, instead of '
                'being indexed by qudit): e.g. CouplingGraph([(0,2),(1,2)],3,'
                '[(1,2)]).get_qudit_to_qpu_map() == [0,0,1], expected [0,1,0]',
                dict(rp, expected=spec_map))

        def conn_with(m):
            adj = [set() for _ in comps]
            for a, b in nrem:
                adj[m[a]].add(m[b])
                adj[m[b]].add(m[a])
            return adj
        clean = all(cidx[a] != cidx[b] for a, b in nrem)
        ck.bump('qpu_inputs', 'clean' if clean else 'remote-edge-inside-qpu')
        if ok and clean and len(conn) == len(comps) \
                and list(conn) != conn_with(spec_map):
            ck.bump('qpu_findings', 'connectivity')
            ck.violation(
                'qpu-connectivity-uses-misindexed-qudit-map'
                if list(conn) == conn_with(insertion) else
                'qpu-connectivity-differs-from-definition',
                'get_qpu_connectivity: two QPUs are reported adjacent although'
                ' no remote edge joins them (it looks qudits up in the '
                'mis-indexed get_qudit_to_qpu_map list): e.g. CouplingGraph('
                '[(0,3),(1,3),(2,3)],4,[(1,3),(2,3)]).get_qpu_connectivity() '
                '== [{2},{2},{0,1}], expected [{1,2},{0},{0}]',
                dict(rp, expected=[sorted(x) for x in conn_with(spec_map)]))
        elif len(conn) != len(comps):
            ck.violation('qpu-connectivity-differs-from-definition',
                         'get_qpu_connectivity has the wrong length', rp)
        # ---- individual graphs: induced subgraphs in the code's own order
        subs = g.get_individual_qpu_graphs()
        if not rem:
            good = len(subs) == 1 and subs[0] is g   # documented shortcut
        else:
            good = len(subs) == len(q2q_map)
            for sub, qpu in zip(subs, q2q_map):
                es = {tuple(sorted(e)) for e in sub._edges}
                good = good and sub.num_qudits == len(qpu) and es == {
                    (i, j) for i in range(len(qpu)) for j in range(i + 1,
                                                                   len(qpu))
                    if tuple(sorted((qpu[i], qpu[j]))) in nes}
        if not good:
            ck.violation(
                'qpu-graphs-differ-from-definition',
                'get_individual_qpu_graphs: some graph is not the subgraph '
                'induced on its QPU (renumbered by position)',
                dict(rp, graphs=[fmt_g(x) for x in subs]))
        impl = (' ; '.join(' '.join(map(str, sorted(x))) for x in q2q_map)
                + ' # ' + ' '.join(map(str, qmap)) + ' # '
                + ' ; '.join(' '.join(map(str, sorted(x))) for x in conn))
        add(f'qpu {gline(n, edges)} | '
            + ' '.join(f'{a} {b}' for a, b in rem), impl, None,
            ('qpu', n, tuple(nes), tuple(nrem)))
        ck.bump('qpu_count_dist', str(len(comps)))

    # reproducers of the two former findings (fixed by 2c665e0), then all
    # (graph, remote subset) on <= 4 vertices, then random larger ones
    qpu_case(3, [(0, 2), (1, 2)], [(1, 2)])
    qpu_case(4, [(0, 3), (1, 3), (2, 3)], [(1, 3), (2, 3)])
    for n, edges, small in graphs:
        if small and n <= 4:
            for mask in range(1 << len(edges)):
                qpu_case(n, edges,
                         [e for i, e in enumerate(edges) if mask >> i & 1])
    for _ in range(6000 if thorough else 400):
        n, edges, small = rng.choice(graphs) if rng.random() < 0.3 else \
            graphs[-1 - rng.randrange(nrand)]
        raw = list(dict.fromkeys(edges))
        p = rng.choice((0.15, 0.3, 0.6))
        qpu_case(n, edges, [e for e in raw if rng.random() < p])

    # ------------------------------------------------------------------
    # maximal_matching (relational; the result depends on set order / shuffle)
    import random as _random

    def matching_case(n, edges, ignore, randomize):
        g = CouplingGraph(edges, n)
        nes = {tuple(sorted(e)) for e in edges}
        if randomize:
            _random.seed(rng.getrandbits(32))
        r = g.maximal_matching(list(ignore), randomize)
        ign = {tuple(sorted(e)) for e in ignore}
        ms = [tuple(sorted(e)) for e in r]
        used = [v for e in ms for v in e]
        why = None
        if not all(e in nes for e in ms) or not all(
                isinstance(e, tuple) and len(e) == 2 for e in r):
            why = 'contains a pair that is not an edge of the graph'
        elif len(used) != len(set(used)):
            why = 'two of its edges share a vertex (or an edge is repeated)'
        elif any(e in ign for e in ms):
            why = 'contains an ignored edge'
        elif any(a not in used and b not in used
                 for a, b in nes if (a, b) not in ign):
            why = 'is not maximal: a non-ignored edge has both ends unmatched'
        if why:
            ck.violation(
                'maximal_matching-differs-from-definition',
                'maximal_matching: the result ' + why,
                {'n': n, 'edges': edges, 'edges_to_ignore': list(ignore),
                 'randomize': randomize, 'result': r})
        # the same result through the Lean checker `validMatching` (whose
        # meaning is the theorem C20_maximal_matching)
        if all(isinstance(e, tuple) and len(e) == 2 and min(e) >= 0
               for e in list(r) + list(ignore)):
            add(f'matchcheck {gline(n, edges)} | '
                + ' '.join(f'{a} {b}' for a, b in ignore) + ' | '
                + ' '.join(f'{a} {b}' for a, b in r),
                'true', str(why is None).lower(),
                ('mmc', n, tuple(sorted(nes)), tuple(ignore), randomize,
                 tuple(sorted(ms))),
                'maximal_matching-differs-from-definition')
        ck.count(('mm', n, tuple(sorted(nes)), tuple(ignore), randomize,
                  tuple(sorted(ms))))
        ck.bump('relational_cases', 'maximal_matching')
        ck.bump('matching_size', str(len(ms)))

    for n, edges, small in graphs:
        nes = sorted({tuple(sorted(e)) for e in edges})
        matching_case(n, edges, [], False)
        if nes:
            for randomize in (False, True):
                ign = [e if rng.random() < 0.5 else (e[1], e[0])
                       for e in nes if rng.random() < 0.4]
                if rng.random() < 0.3:      # a non-edge in the ignore list
                    ign.append((0, n))
                matching_case(n, edges, ign, randomize)
            matching_case(n, edges, [], True)

    # ------------------------------------------------------------------
    # get_rooted_minimum_span(root) on connected graphs (relational): n-1
    # pairs (parent, child), each an edge of g, parent already reached, every
    # vertex reached exactly once, and the tree is a BFS tree (depth in the tree
    # = hop distance from the root).  The DFS pre-order of the listing is not
    # checked.  The same result goes through the Lean checker validMinSpan.
    for n, edges, small in graphs:
        nes = {tuple(sorted(e)) for e in edges}
        if not o_connected(n, nes):
            continue
        g = CouplingGraph(edges, n)
        for root in (range(n) if small and n <= 4 else [rng.randrange(n)]):
            try:
                r = g.get_rooted_minimum_span(root)
            except Exception as e:                      # noqa: BLE001
                r = 'raise-' + type(e).__name__
            good = isinstance(r, list) and len(r) == n - 1
            reached = {root}
            if good:
                for pr in r:
                    good = good and len(pr) == 2 \
                        and tuple(sorted(pr)) in nes \
                        and pr[0] in reached and pr[1] not in reached
                    if not good:
                        break
                    reached.add(pr[1])
                good = good and len(reached) == n
            if good:        # "minimum": a BFS tree (tree depth = hop distance)
                depth = {root: 0}
                for a, b in r:
                    depth[b] = depth[a] + 1
                good = depth == o_hops(n, nes, root)
            if not good:
                ck.violation(
                    'rooted_span-differs-from-definition',
                    'get_rooted_minimum_span: the result is not a list of n-1 '
                    'graph edges (parent, child) that connects the root to '
                    'every qudit by shortest paths, parents first',
                    {'n': n, 'edges': edges, 'root': root, 'result': r})
            if isinstance(r, list) and all(
                    isinstance(x, tuple) and len(x) == 2 for x in r):
                # through the Lean checker `validMinSpan` (theorem C20_rooted_span)
                add(f'spancheck {gline(n, edges)} | {root} | '
                    + ' '.join(f'{a} {b}' for a, b in r),
                    'true', str(bool(good)).lower(),
                    ('spanc', n, tuple(sorted(nes)), root, tuple(r)),
                    'rooted_span-differs-from-definition')
            ck.count(('span', n, tuple(sorted(nes)), root))
            ck.bump('relational_cases', 'rooted_minimum_span')

    # ------------------------------------------------------------------
    # malformed renumberings of get_subgraph.  Definition (docstring): the
    # renumbering must be a bijection location -> [0, len(location)); anything
    # else must raise.  (Before the fix 494efa1 the code only checked len, keys,
    # min == 0, max == len-1 and accepted non-injective renumberings.)
    def sg_ren_case(n, edges, loc, ren, kind):
        g = CouplingGraph(edges, n)
        try:
            r = g.get_subgraph(loc, dict(ren))
            impl = fmt_g(r)
        except (ValueError, TypeError):
            impl = 'raise'
        L = len(loc)
        bij = (len(ren) == L and set(ren) == set(loc)
               and sorted(ren.values()) == list(range(L)))
        assert not bij
        vals = list(ren.values())
        noninj = (len(ren) == L and set(ren) == set(loc)
                  and len(set(vals)) < L)
        ck.bump('subgraph_malformed', kind + ('' if impl == 'raise'
                                              else '-ACCEPTED'))
        sig = ('subgraph-accepts-non-injective-renumbering' if noninj
               else 'subgraph-accepts-malformed-renumbering')
        if all(k >= 0 and v >= 0 for k, v in ren.items()):
            add(f'subgraph {gline(n, edges)} | ' + ' '.join(map(str, loc))
                + ' | 1 ' + ' '.join(f'{a} {b}' for a, b in ren.items()),
                impl, 'raise', ('sgbad', n, tuple(edges), loc,
                                tuple(ren.items())), sig)
        elif impl != 'raise':      # negative numbers: implementation only
            ck.violation(sig, 'get_subgraph accepts a renumbering that is '
                         'not a permutation of [0, len(location))',
                         {'n': n, 'edges': edges, 'location': loc,
                          'renumbering': ren, 'impl': impl})

    # the reproducer of the former finding (fixed by 494efa1), every seed
    sg_ren_case(3, [(0, 1)], (0, 1, 2), {0: 0, 1: 2, 2: 2}, 'noninj')
    for _ in range(20000 if thorough else 1500):
        n, edges, small = rng.choice(graphs)
        L = rng.randint(1, min(n, 5))
        loc = tuple(rng.sample(range(n), L))
        vals = list(range(L))
        rng.shuffle(vals)
        ren = dict(zip(loc, vals))
        others = [q for q in range(n + 2) if q not in loc]
        kind = rng.choice(('size+', 'size-', 'keys', 'shift', 'max',
                           'noninj', 'noninj', 'anyvals', 'negative'))
        if kind == 'size+':
            ren[rng.choice(others)] = rng.randrange(L + 1)
        elif kind == 'size-':
            del ren[rng.choice(loc)]
            if rng.random() < 0.5 and ren:      # keep min 0 / max L-1
                ks = list(ren)
                ren[ks[0]] = 0
                ren[ks[-1]] = L - 1
        elif kind == 'keys':
            k = rng.choice(loc)
            v = ren.pop(k)
            ren[rng.choice(others)] = v
        elif kind == 'shift':
            ren = {k: v + 1 for k, v in ren.items()}
        elif kind == 'max':
            k = max(ren, key=ren.get)
            ren[k] = L + rng.randint(0, 2)
        elif kind == 'noninj':
            if L < 3:
                continue
            # duplicate a value but keep 0 and L-1 present
            mid = [k for k in loc if 0 < ren[k] < L - 1]
            ren[rng.choice(mid)] = rng.randrange(L)
            if sorted(ren.values()) == list(range(L)):
                continue
        elif kind == 'anyvals':
            ren = {k: rng.randrange(L + 1) for k in loc}
            if sorted(ren.values()) == list(range(L)):
                continue
        elif kind == 'negative':
            ren = {k: v - 1 for k, v in ren.items()}
        sg_ren_case(n, edges, loc, ren, kind)
    # empty location: min() of an empty sequence raises (model only)
    for n, edges, small in graphs[:30]:
        r = safe(lambda: CouplingGraph(edges, n).get_subgraph(()))
        add(f'subgraph {gline(n, edges)} |  | 0',
            r if r == 'raise' else fmt_g(r), None, ('sg-empty', n,
                                                    tuple(edges)))

    # ---------------------------------------------------------- run driver
    kinds = {}

    def settle(machine, cases, prefix):
        outs = ck.driver(machine, [c[0] for c in cases])
        if len(outs) != len(cases):
            raise RuntimeError('driver output length mismatch')
        for (line, impl, oracle, key, sig), model in zip(cases, outs):
            kind = prefix + line.split()[0]
            kinds[kind] = kinds.get(kind, 0) + 1
            ck.count(key)
            ck.bump('traces_validated_against_impl')
            if kinds[kind] == 7:
                ck.sample({'request': line[:600], 'impl': impl[:400],
                           'model': model[:400]}, limit=24)
            bad_oracle = oracle is not None and impl != oracle
            bad_model = impl != model
            if bad_oracle:
                ck.violation(
                    sig or f'{kind}-differs-from-definition',
                    SIG_WHAT.get(sig) or f'{kind}: implementation differs '
                    'from the textbook definition',
                    {'request': line, 'impl': impl, 'definition': oracle,
                     'model': model})
            if bad_model and (not bad_oracle or model != oracle):
                ck.violation(
                    f'{kind}-correspondence',
                    f'{kind}: implementation and Lean model disagree; the '
                    'definition oracle found no violating input '
                    f'(correspondence bqdriver {machine} <-> /repo no longer '
                    'checks)',
                    {'request': line, 'impl': impl, 'model': model,
                     'definition': oracle,
                     'broken': f'correspondence {machine}'},
                    found_input=False)

    settle('graph', cases, '')
    settle('kron', run_kron(ck, thorough), 'kron-')
    ck.coverage['requests_by_kind'] = kinds
    ck.coverage['rule'] = (
        'each case = one API request on one input. Graph requests: exhaustive '
        f'over all labelled graphs on <= {maxn} vertices, seeded random graphs '
        'on 6-11 vertices, all ordered locations for permutations; '
        'is_fully_connected_without for every q in 0..n (q = n is outside the '
        'domain, model only); QPU functions for every (graph, remote-edge '
        'subset) on <= 4 vertices plus seeded random ones; malformed '
        'get_subgraph renumberings (wrong size / keys / shifted / too large / '
        'non-injective / negative values) whose definition is "must raise"; '
        'maximal_matching and get_rooted_minimum_span depend on set order: '
        'every real result is checked relationally by a harness oracle and by '
        'the Lean checkers validMatching / validMinSpan (matchcheck, spancheck)'
        '. Kronecker requests (kron-*): random '
        'monomial matrices with entries in {0,+-1,+-i} over mixed radixes '
        '2/3/4: otimes of 1-3 operands, ipower with powers -5..7, builder '
        'sequences of 1-4 apply_left/apply_right (random unsorted locations, '
        'inverse flag) on 1-4 qudits with dimension <= 108, checked after every'
        ' step against the explicit digit-arithmetic embedding and, at the end,'
        ' exactly against the Lean index model; argument errors of apply_* '
        'must raise; dense random unitaries against the reference only '
        '(1e-9). distinct = distinct (request kind, canonical input, '
        'arguments); every counted case exercises the function on a distinct '
        'input')
    if not proved:
        ck.violation(
            'proof-obligation', 'Lean obligations of Props/C20 do not check: '
            + (ck.proof_failure or '')[:400],
            {'broken': 'BqVerif.Props.C20', 'log': ck.proof_failure},
            found_input=False)
    ck.assumptions += [
        'edge weights are naturals in the model; float weights only validated',
        'set iteration order abstracted: set-valued results compared sorted',
        'QPU members are compared as sets (set.pop order not modelled); '
        'maximal_matching / get_rooted_minimum_span depend on set order and '
        'are validated relationally, not modelled',
        'the Kronecker model BqVerif.Kron covers monomial matrices with '
        'entries in {0,+-1,+-i} only (exact index/phase arithmetic); dense '
        'unitaries are validated against the numpy reference written in the '
        'harness with tolerance 1e-9',
        'UnitaryMatrix.get_tensor_format does not exist in this /repo '
        'snapshot; the tensor-format clause is checked on UnitaryBuilder.tensor'
        ' (shape radixes*2, entries by digit indexing)',
        'get_individual_qpu_graphs returns [self] when there are no remote '
        'edges even if the graph is disconnected (qpu_count may then be > 1): '
        'documented shortcut, accepted as the definition',
        'get_qpu_connectivity is compared with the definition only when every '
        'remote edge joins two different QPUs',
    ]
