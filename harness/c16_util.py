"""Object-graph helpers for C16: recursive field equality and alias walk."""
from __future__ import annotations

import types
from typing import Any

import numpy as np

IMMUTABLE = (int, float, complex, str, bytes, bool, type(None), type,
             types.FunctionType, types.BuiltinFunctionType, types.ModuleType,
             types.MethodType, range, frozenset)


def deep_eq(a: Any, b: Any, path: str = '', seen=None,
            eq_types: tuple = ()) -> str | None:
    """None when `a` and `b` agree field by field (recursively), else the path
    of the first difference.  Functions compare by qualified name or code."""
    if seen is None:
        seen = set()
    key = (id(a), id(b))
    if key in seen:
        return None
    seen.add(key)
    if a is b:
        return None
    if type(a) is not type(b):
        return f'{path}: type {type(a).__name__} != {type(b).__name__}'
    if eq_types and isinstance(a, eq_types):
        # values with their own equality (gates: a CircuitGate's inner
        # parameters are a cache, not part of its identity)
        try:
            ok = (a == b) and (b == a) and hash(a) == hash(b)
        except TypeError:
            ok = (a == b) and (b == a)
        return None if ok else f'{path}: {a!r} != {b!r} (==/hash)'
    if isinstance(a, np.ndarray):
        if a.shape != b.shape or a.dtype != b.dtype:
            return f'{path}: array shape/dtype'
        return None if np.array_equal(a, b, equal_nan=a.dtype.kind in 'fc') \
            else f'{path}: array values'
    if isinstance(a, float):
        return None if (a == b or (a != a and b != b)) else f'{path}: {a}!={b}'
    if isinstance(a, (int, complex, str, bytes, bool, type(None), range)):
        return None if a == b else f'{path}: {a!r} != {b!r}'
    if isinstance(a, types.FunctionType):
        if a.__module__ == b.__module__ and a.__qualname__ == b.__qualname__ \
                and '<locals>' not in a.__qualname__ \
                and '<lambda>' not in a.__qualname__:
            return None
        if a.__code__.co_code != b.__code__.co_code or \
                a.__code__.co_consts != b.__code__.co_consts:
            return f'{path}: function code'
        ca = [c.cell_contents for c in (a.__closure__ or ())]
        cb = [c.cell_contents for c in (b.__closure__ or ())]
        return deep_eq(ca, cb, path + '.__closure__', seen, eq_types)
    if isinstance(a, (type, types.ModuleType, types.BuiltinFunctionType)):
        return None if a is b else f'{path}: {a!r} is not {b!r}'
    if isinstance(a, (list, tuple)):
        if len(a) != len(b):
            return f'{path}: len {len(a)} != {len(b)}'
        for i, (x, y) in enumerate(zip(a, b)):
            r = deep_eq(x, y, f'{path}[{i}]', seen, eq_types)
            if r:
                return r
        return None
    if isinstance(a, (set, frozenset)):
        if len(a) != len(b):
            return f'{path}: set size'
        try:
            if a == b:
                return None
        except Exception:
            pass
        return f'{path}: set contents'
    if isinstance(a, dict):
        if len(a) != len(b):
            return f'{path}: dict size {len(a)} != {len(b)}'
        for k, v in a.items():
            if k not in b:
                return f'{path}: key {k!r} missing'
            r = deep_eq(v, b[k], f'{path}[{k!r}]', seen, eq_types)
            if r:
                return r
        return None
    da = getattr(a, '__dict__', None)
    if da is not None:
        r = deep_eq(dict(da), dict(b.__dict__), path + '.__dict__', seen,
                    eq_types)
        if r:
            return r
    slots = []
    for klass in type(a).__mro__:
        slots += list(getattr(klass, '__slots__', ()))
    for s in slots:
        if hasattr(a, s) != hasattr(b, s):
            return f'{path}.{s}: presence'
        if hasattr(a, s):
            r = deep_eq(getattr(a, s), getattr(b, s), f'{path}.{s}', seen,
                            eq_types)
            if r:
                return r
    if da is None and not slots:
        try:
            if a == b or repr(a) == repr(b):   # native objects without ==
                return None
            return f'{path}: {a!r} != {b!r}'
        except Exception as e:
            return f'{path}: eq raised {e!r}'
    return None


def reach(obj: Any, whitelist=()) -> dict[int, tuple[str, Any]]:
    """id -> (path, object) for every MUTABLE object reachable from `obj`.
    Immutable values, classes, functions and instances of `whitelist` types
    (CachedClass singletons, values treated as immutable by the API) are not
    entered."""
    out: dict[int, tuple[str, Any]] = {}
    seen: set[int] = set()
    stack = [('', obj)]
    while stack:
        path, o = stack.pop()
        if id(o) in seen:
            continue
        seen.add(id(o))
        if isinstance(o, IMMUTABLE) or isinstance(o, whitelist):
            continue
        if isinstance(o, np.ndarray):
            out[id(o)] = (path, o)
            continue
        if isinstance(o, tuple):
            for i, x in enumerate(o):
                stack.append((f'{path}[{i}]', x))
            continue
        if isinstance(o, (list, set)):
            out[id(o)] = (path, o)
            for i, x in enumerate(o):
                stack.append((f'{path}[{i}]', x))
            continue
        if isinstance(o, dict):
            out[id(o)] = (path, o)
            for k, v in o.items():
                stack.append((f'{path}.key', k))
                stack.append((f'{path}[{k!r}]', v))
            continue
        d = getattr(o, '__dict__', None)
        slots = []
        for klass in type(o).__mro__:
            slots += list(getattr(klass, '__slots__', ()))
        if d is None and not slots:
            continue
        out[id(o)] = (path, o)
        if d is not None:
            for k, v in d.items():
                stack.append((f'{path}.{k}', v))
        for s in slots:
            if hasattr(o, s):
                stack.append((f'{path}.{s}', getattr(o, s)))
    return out


def shared_mutables(a: Any, b: Any, whitelist=()) -> list[str]:
    ra, rb = reach(a, whitelist), reach(b, whitelist)
    return sorted(f'{ra[i][0]} ~ {rb[i][0]} ({type(ra[i][1]).__name__})'
                  for i in ra.keys() & rb.keys())
