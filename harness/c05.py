"""C05 - all views of a Circuit stay mutually consistent after every edit."""
from harness import circ_check


def run(ck):
    circ_check.run(ck, 'C05')
