"""C13 - task failures reach their client; no client request takes the server down.

Tie (A).  A REAL `DetachedServer` is built without sockets (`object.__new__`,
exactly the attributes the `__init__`s create - asserted against their ASTs),
with fake connections, a fake selector and a plain outgoing queue that is
drained by the real `ServerBase.send_outgoing`.  Every event of a request
history is delivered through one iteration of the real `ServerBase.run` loop
(so `try/except/finally` -> `handle_system_error` -> `handle_shutdown` is
exercised), RESULT / ERROR / LOG arrive "from below" on an employee connection.
After every event the emitted messages, the five tables, `running` and the set
of closed connections are compared with the Lean model (`bqdriver server`).

Direct oracles, independent of the model (a per-task automaton written here):
every request gets exactly the automaton's reply; no exception escapes a
handler; the server keeps running; nothing about task t is ever sent to a
connection other than t's owner.

Client side: the real `Compiler.status/result/cancel/submit` run against a
scripted fake peer.  Error bubbling: a real `Worker` (and a real `Manager`
`handle_message`) carry an exception raised in a root task / in a child task
of depth 2 up to the real server and on to the real `Compiler.result`.
"""
from __future__ import annotations

import ast
import collections
import inspect
import itertools as it
import logging
import multiprocessing as mp
import os
import pickle
import queue
import random
import subprocess
import sys
import textwrap
import types
import uuid
from threading import Lock

from harness.common import Check, DRIVER, InfraError, ddmin

UNKNOWN_TASK = 0      # message id of the literal 'Unknown task.'
SYSTEM_ERROR = 1      # message id of a traceback produced by the run loop
# message ids >= 2: texts injected by the harness


# ====================================================================== fakes
class Drained(BaseException):
    """Raised by the fake outgoing queue when it is empty (leaves the real
    `send_outgoing` loop)."""


class FakeConn:
    __slots__ = ('name', 'sent', 'closed', 'inbox', 'log', 'send_error')

    def __init__(self, name, log):
        self.name = name
        self.sent = []
        self.closed = False
        self.inbox = collections.deque()
        self.log = log
        self.send_error = None

    def send(self, m):
        if self.closed:
            raise OSError('handle is closed')
        if self.send_error is not None:
            raise self.send_error
        self.sent.append(m)
        self.log.append(('send', self, m))

    def recv(self):
        if self.closed:
            raise OSError('handle is closed')
        if not self.inbox:
            raise EOFError
        item = self.inbox.popleft()
        if item is EOFError:
            raise EOFError
        return item

    def poll(self, timeout=0.0):
        return bool(self.inbox)

    def close(self):
        self.closed = True
        self.log.append(('close', self))

    def __repr__(self):
        return f'<conn {self.name}>'


class OutQ:
    """Stands in for `queue.Queue`: `put` is recorded, `get` never blocks."""

    def __init__(self, log):
        self.items = collections.deque()
        self.log = log

    def put(self, x):
        self.items.append(x)
        self.log.append(('put', x))

    def get(self):
        if not self.items:
            raise Drained()
        return self.items.popleft()

    def task_done(self):
        pass


class FakeThread:
    def is_alive(self):
        return False

    def join(self):
        pass


Key = collections.namedtuple('Key', 'fileobj data')


class FakeSel:
    """`selectors.DefaultSelector` stand-in; `unregister` of an unknown file
    object raises KeyError like the real one."""

    def __init__(self, owner):
        self.owner = owner
        self.registered = {}
        self.script = collections.deque()
        self.closed = False

    def register(self, conn, events, data=None):
        if conn in self.registered:
            raise KeyError(f'{conn!r} is already registered')
        self.registered[conn] = data

    def unregister(self, conn):
        if conn not in self.registered:
            raise KeyError(f'{conn!r} is not registered')
        del self.registered[conn]

    def select(self, timeout=None):
        if self.script:
            return self.script.popleft()
        # end of the scripted input: leave `run` without a shutdown
        self.owner._h_exit = True
        self.owner.running = False
        return []

    def close(self):
        self.closed = True


def _assigned_self_attrs(fn) -> set[str]:
    src = textwrap.dedent(inspect.getsource(fn))
    out = set()
    for node in ast.walk(ast.parse(src)):
        targets = []
        if isinstance(node, ast.Assign):
            targets = node.targets
        elif isinstance(node, (ast.AnnAssign, ast.AugAssign)):
            targets = [node.target]
        flat = []
        for t in targets:
            flat += list(t.elts) if isinstance(t, ast.Tuple) else [t]
        for el in flat:     # `self.x[...] = v` does not create an attribute
            if (isinstance(el, ast.Attribute)
                    and isinstance(el.value, ast.Name)
                    and el.value.id == 'self'):
                out.add(el.attr)
    return out


SERVERBASE_ATTRS = {
    'lower_id_bound', 'upper_id_bound', 'running', 'sel',
    'terminate_hotline', 'employees', 'conn_to_employee_dict', 'outgoing',
    'outgoing_thread'}
CONNECT_ATTRS = {'step_size', 'total_workers', 'num_idle_workers'}
DETACHED_ATTRS = {
    'clients', 'tasks', 'mailbox_to_task_dict', 'mailboxes',
    'mailbox_counter', 'port', 'listen_thread'}
WORKER_ATTRS = {
    '_id', '_conn', '_tasks', '_delayed_tasks', '_ready_task_ids',
    '_cancelled_task_ids', '_active_task', '_running', '_mailboxes',
    '_mailbox_counter', '_cache', 'most_recent_read_submit',
    'read_receipt_mutex', 'incoming_thread'}
# attributes that exist only on trees with a later maintainer fix (the
# harness creates them always; the list check accepts both trees)
WORKER_ATTRS_OPTIONAL = {'_mailbox_mutex'}
MANAGER_ATTRS = {
    'upstream', 'most_recent_read_submit', 'last_num_idle_sent_up',
    'lower_id_bound', 'upper_id_bound'}


def check_attr_lists():
    """The attributes the harness fills by hand are exactly those the real
    constructors create; a new attribute makes the check fail loudly."""
    from bqskit.runtime.base import ServerBase
    from bqskit.runtime.detached import DetachedServer
    from bqskit.runtime.worker import Worker
    from bqskit.runtime.manager import Manager
    problems = []
    for what, fn, mine in (
            ('ServerBase.__init__', ServerBase.__init__, SERVERBASE_ATTRS),
            ('ServerBase.connect_to_managers', ServerBase.connect_to_managers,
             CONNECT_ATTRS),
            ('DetachedServer.__init__', DetachedServer.__init__,
             DETACHED_ATTRS),
            ('Worker.__init__', Worker.__init__, WORKER_ATTRS)):
        real = _assigned_self_attrs(fn)
        if fn is Worker.__init__:
            real = real - WORKER_ATTRS_OPTIONAL
        if real != mine:
            problems.append(f'{what}: code assigns {sorted(real)}, harness '
                            f'fills {sorted(mine)}')
    real = _assigned_self_attrs(Manager.__init__)
    if not MANAGER_ATTRS >= real:
        problems.append(f'Manager.__init__: code assigns {sorted(real)}, '
                        f'harness knows {sorted(MANAGER_ATTRS)}')
    return problems


class Sim:
    """One real DetachedServer (or AttachedServer / Manager) with fake
    periphery.  `employees` = list of (total_workers, is_manager)."""

    def __init__(self, nemployees=2, kind='detached', employees=None,
                 step_size=1, lower=0, upper=int(2 ** 30), log=None):
        from bqskit.runtime.base import RuntimeEmployee
        from bqskit.runtime.detached import DetachedServer
        from bqskit.runtime.direction import MessageDirection as D
        self.D = D
        self.log = [] if log is None else log
        if kind == 'detached':
            cls = DetachedServer
        elif kind == 'attached':
            from bqskit.runtime.attached import AttachedServer
            cls = AttachedServer
        else:
            from bqskit.runtime.manager import Manager
            cls = Manager
        s = object.__new__(cls)
        # ServerBase.__init__
        s.lower_id_bound = lower
        s.upper_id_bound = upper
        s.running = True
        s.sel = FakeSel(s)
        s.terminate_hotline = None
        s.employees = []
        s.conn_to_employee_dict = {}
        s.outgoing = OutQ(self.log)
        s.outgoing_thread = FakeThread()
        if kind != 'manager':
            # DetachedServer.__init__ / AttachedServer.__init__
            s.clients = {}
            s.tasks = {}
            s.mailbox_to_task_dict = {}
            s.mailboxes = {}
            s.mailbox_counter = 0
        if kind == 'detached':
            s.port = 0
            s.listen_thread = FakeThread()
        if kind == 'manager':
            # Manager.__init__
            s.upstream = FakeConn('mgr-up', self.log)
            s.sel.register(s.upstream, 1, D.ABOVE)
            s.most_recent_read_submit = None
        from harness import runtime_sim as _rs
        import bqskit.runtime.base as _bmod
        _rs.autofill(s, [(_bmod.ServerBase, ('__init__',)), (cls, ('__init__',))])
        # connect_to_managers / spawn_workers
        if employees is None:
            employees = [(1, False)] * nemployees
        total = 0
        for i, (nw, is_mgr) in enumerate(employees):
            c = FakeConn(f'{kind}-emp{i}', self.log)
            eid = i if (is_mgr or kind != 'manager') else lower + i
            e = RuntimeEmployee(eid, c, nw, is_manager=is_mgr)
            s.employees.append(e)
            s.conn_to_employee_dict[c] = e
            s.sel.register(c, 1, D.BELOW)
            total += nw
        s.step_size = step_size
        s.total_workers = total
        s.num_idle_workers = total
        if kind == 'manager':
            s.last_num_idle_sent_up = total
        # harness hooks (instance attributes shadow the class methods)
        s._h_exit = False
        self.system_errors = []
        self.shutdowns = 0
        real_shutdown = cls.handle_shutdown
        real_syserr = cls.handle_system_error
        sim = self

        def handle_shutdown():
            if s._h_exit:           # scripted end of input, not a shutdown
                s._h_exit = False
                s.running = True
                return
            sim.shutdowns += 1
            real_shutdown(s)

        def handle_system_error(error_str):
            sim.system_errors.append(error_str)
            real_syserr(s, error_str)

        s.handle_shutdown = handle_shutdown
        s.handle_system_error = handle_system_error
        self.s = s
        self.cls = cls
        self.emp_conns = [e.conn for e in s.employees]
        self.conns = {}          # index -> FakeConn (clients)
        self.escaped = None

    # ------------------------------------------------------------ plumbing
    def new_client(self, idx):
        """What the listener thread does on accept."""
        c = FakeConn(f'cl{idx}', self.log)
        self.conns[idx] = c
        self.s.clients[c] = set()
        self.s.sel.register(c, 1, self.D.CLIENT)
        return c

    def deliver(self, conn, direction, item):
        """One iteration of the real run loop on one readable connection."""
        s = self.s
        conn.inbox.append(item)
        s.sel.script.append([(Key(conn, direction), 1)])
        del self.log[:]
        self.escaped = None
        try:
            self.cls.run(s)
        except Exception as e:      # `run` re-raises nothing normally
            self.escaped = e
        n = len(self.log)
        self.drain()
        return self.log[:n], self.log[n:]

    def direct(self, fn):
        """Run a harness-side action (e.g. listener accept) and drain."""
        del self.log[:]
        fn()
        n = len(self.log)
        self.drain()
        return self.log[:n], self.log[n:]

    def drain(self):
        try:
            self.cls.send_outgoing(self.s)
        except Drained:
            pass
        self.s.outgoing.items.clear()

    # ------------------------------------------------------------ snapshot
    def snapshot(self):
        s = self.s
        return (
            {c: set(ts) for c, ts in s.clients.items()}, dict(s.tasks),
            dict(s.mailbox_to_task_dict),
            {m: (b.result, b.client_waiting) for m, b in s.mailboxes.items()},
            s.mailbox_counter, s.running,
            {i: c.closed for i, c in self.conns.items()},
            dict(s.sel.registered),
            [(e.num_tasks, e.num_idle_workers, list(e.submit_cache))
             for e in s.employees], s.num_idle_workers,
            list(s.employees), dict(s.conn_to_employee_dict),
            dict(self.conns), self.shutdowns, len(self.system_errors))

    def restore(self, snap):
        from bqskit.runtime.detached import ServerMailbox
        s = self.s
        (cl, tk, mt, bx, ctr, run, closed, reg, emps, idle, emplist, c2e,
         conns, shut, nse) = snap
        s.clients = {c: set(ts) for c, ts in cl.items()}
        s.tasks = dict(tk)
        s.mailbox_to_task_dict = dict(mt)
        s.mailboxes = {m: ServerMailbox(r, w) for m, (r, w) in bx.items()}
        s.mailbox_counter = ctr
        s.running = run
        self.conns = dict(conns)
        for i, c in self.conns.items():
            c.closed = closed[i]
            c.inbox.clear()
        s.sel.registered = dict(reg)
        s.employees = list(emplist)
        s.conn_to_employee_dict = dict(c2e)
        for e, (nt, ni, sc) in zip(s.employees, emps):
            e.num_tasks, e.num_idle_workers, e.submit_cache = nt, ni, list(sc)
            e.conn.closed = False
        s.num_idle_workers = idle
        self.shutdowns = shut
        del self.system_errors[nse:]


class FakeCompTask:
    """The three attributes `handle_new_comp_task` reads (histories do not
    execute tasks; the bubbling test uses real CompilationTasks)."""

    def __init__(self, task_id):
        self.task_id = task_id
        self.logging_level = 0
        self.max_logging_depth = -1


def tid_uuid(i: int) -> uuid.UUID:
    return uuid.UUID(int=0xC13000000000 + i)


# ================================================== history runner (impl side)
class Runner:
    """Applies canonical events (`submit 0 1`, `result 0 7`, ...) to a Sim and
    renders what happened in the driver's format."""

    def __init__(self, sim: Sim, eof_rng: random.Random | None = None):
        from bqskit.runtime.message import RuntimeMessage as M
        from bqskit.runtime.result import RuntimeResult
        from bqskit.runtime.address import RuntimeAddress
        from bqskit.compiler.status import CompilationStatus as CS
        self.M, self.RuntimeResult, self.RuntimeAddress, self.CS = (
            M, RuntimeResult, RuntimeAddress, CS)
        self.sim = sim
        self.eof_rng = eof_rng
        self.tid_index = {}

    def tid(self, i):
        u = tid_uuid(i)
        self.tid_index[u] = i
        return u

    def conn_index(self, c):
        for i, cc in self.sim.conns.items():
            if cc is c:
                return i
        return None

    def apply(self, ev: str):
        sim, M, D = self.sim, self.M, self.sim.D
        k = ev.split()
        kind = k[0]
        if kind == 'connect':
            return sim.direct(lambda: sim.new_client(int(k[1])))
        if kind in ('result', 'error', 'log'):
            m, v = int(k[1]), int(k[2])
            emp = sim.emp_conns[0]
            if kind == 'result':
                r = self.RuntimeResult(self.RuntimeAddress(-1, m, 0),
                                       ('R', v), 0)
                return sim.deliver(emp, D.BELOW, (M.RESULT, r))
            if kind == 'error':
                return sim.deliver(emp, D.BELOW, (M.ERROR, (m, f'boom-{v}')))
            return sim.deliver(emp, D.BELOW, (M.LOG, (m, f'log-{v}')))
        c = sim.conns[int(k[1])]
        if kind == 'hello':
            return sim.deliver(c, D.CLIENT, (M.CONNECT, []))
        if kind == 'disconnect':
            if self.eof_rng is not None and self.eof_rng.random() < 0.5:
                return sim.deliver(c, D.CLIENT, EOFError)
            return sim.deliver(c, D.CLIENT, (M.DISCONNECT, None))
        t = self.tid(int(k[2]))
        if kind == 'submit':
            return sim.deliver(c, D.CLIENT, (M.SUBMIT, FakeCompTask(t)))
        msg = {'request': M.REQUEST, 'status': M.STATUS,
               'cancel': M.CANCEL}[kind]
        return sim.deliver(c, D.CLIENT, (msg, t))

    # ----- rendering -------------------------------------------------------
    def msg_id(self, text):
        if text == 'Unknown task.':
            return UNKNOWN_TASK
        if isinstance(text, str) and text.startswith(('boom-', 'log-')):
            return int(text.split('-')[1])
        if isinstance(text, str) and 'Traceback' in text:
            return SYSTEM_ERROR
        return f'?{text!r}'

    def render_client_msg(self, ci, msg, payload):
        M, CS = self.M, self.CS
        if msg == M.STATUS:
            return f'S.{ci}.' + {CS.UNKNOWN: 'unknown', CS.RUNNING: 'running',
                                 CS.DONE: 'done'}[payload]
        if msg == M.CANCEL:
            return f'K.{ci}'
        if msg == M.ERROR:
            return f'E.{ci}.{self.msg_id(payload)}'
        if msg == M.RESULT:
            v = payload[1] if isinstance(payload, tuple) else f'?{payload!r}'
            return f'R.{ci}.{v}'
        if msg == M.LOG:
            return f'L.{ci}.{self.msg_id(payload)}'
        if msg == M.READY:
            return f'Y.{ci}'
        return f'?{msg.name}.{ci}'

    def render_log(self, logs):
        """(client-visible effects in order, downward effects sorted,
        messages really written to client connections by the outgoing
        thread's code)."""
        sim, M = self.sim, self.M
        cli, down, delivered = [], [], []
        log, drained = logs
        for entry in drained:
            if entry[0] == 'send':
                ci = self.conn_index(entry[1])
                if ci is not None:
                    delivered.append(
                        self.render_client_msg(ci, *entry[2]))
        for entry in log:
            if entry[0] == 'put':
                conn, msg, payload = entry[1]
                ci = self.conn_index(conn)
                if ci is not None:
                    cli.append(self.render_client_msg(ci, msg, payload))
                elif msg == M.SUBMIT_BATCH:
                    for t in payload:
                        down.append(f'ds.{t.comp_task_id}')
                elif msg == M.CANCEL:
                    if conn is sim.emp_conns[0]:    # broadcast: count once
                        down.append(f'dc.{payload.mailbox_index}')
                elif msg == M.IMPORTPATH:
                    if conn is sim.emp_conns[0]:
                        down.append('di')
                else:
                    down.append(f'?{msg.name}')
            elif entry[0] == 'close':
                ci = self.conn_index(entry[1])
                if ci is not None:
                    cli.append(f'X.{ci}')
            elif entry[0] == 'send':
                # written directly by a handler (handle_system_error)
                ci = self.conn_index(entry[1])
                if ci is not None:
                    r = self.render_client_msg(ci, *entry[2])
                    cli.append(r)
                    delivered.append(r)
        return cli, sorted(down), delivered

    def render_state(self):
        s = self.sim.s
        ci, ti = self.conn_index, self.tid_index
        cl = sorted((ci(c), sorted(ti[t] for t in ts))
                    for c, ts in s.clients.items())
        tk = sorted((ti[t], m, ci(c)) for t, (m, c) in s.tasks.items())
        mt = sorted((m, ti[t]) for m, t in s.mailbox_to_task_dict.items())
        bx = sorted(
            (m, '-' if b.result is None else b.result[1],
             1 if b.client_waiting else 0) for m, b in s.mailboxes.items())
        closed = sorted(i for i, c in self.sim.conns.items() if c.closed)
        return (
            'clients=' + ' '.join(
                f'{c}:' + ','.join(map(str, ts)) for c, ts in cl)
            + ' ; tasks=' + ' '.join(f'{t}:{m}:{c}' for t, m, c in tk)
            + ' ; m2t=' + ' '.join(f'{m}:{t}' for m, t in mt)
            + ' ; boxes=' + ' '.join(f'{m}:{r}:{w}' for m, r, w in bx)
            + f' ; ctr={s.mailbox_counter} ; run={1 if s.running else 0}'
            + ' ; closed=' + ' '.join(map(str, closed)))


# ================================================= the automaton (the oracle)
class Automaton:
    """Per-task state machine Unknown -> Running -> Done -> Delivered |
    Cancelled, indexed by owner - the property's reference, written without
    looking at the server's tables.  `expected(ev)` returns the client-visible
    effects the event must have, then moves.

    Deliberate choices recorded in design_notes/C13.md:
      * a `request` for anything but an open task of the requester is answered
        ERROR 'Unknown task.' and the requester is disconnected;
      * LOG records are forwarded to the owner while the owner is connected;
      * an ERROR is forwarded to the owner only while the task is open
        (RUNNING/DONE); errors of cancelled, delivered or unknown
        compilations are discarded (`strict_errors`; the code before fix
        3a23d26 forwarded them - that is reported as
        `stale-error-forwarded:*` if it comes back)."""

    def __init__(self, strict_errors=True):
        self.conn = set()
        self.task = {}        # tid -> [state, owner, waiting, value, mailbox]
        self.next_mailbox = 0
        self.by_mailbox = {}
        self.strict_errors = strict_errors

    def wf(self, ev):
        k = ev.split()
        if k[0] == 'connect':
            return True
        if k[0] in ('result', 'error', 'log'):
            return True
        if int(k[1]) not in self.conn:
            return False
        if k[0] == 'submit':
            return int(k[2]) not in self.task
        return True

    def drop(self, c):
        self.conn.discard(c)
        for t in [t for t, st in self.task.items() if st[1] == c]:
            self.by_mailbox.pop(self.task[t][4], None)
            del self.task[t]

    def expected(self, ev):
        k = ev.split()
        kind = k[0]
        if kind == 'connect':
            self.conn.add(int(k[1]))
            return []
        if kind in ('result', 'error', 'log'):
            m, v = int(k[1]), int(k[2])
            t = self.by_mailbox.get(m)
            if t is None:
                return []
            st = self.task[t]
            if kind == 'log':
                return [f'L.{st[1]}.{v}']
            if kind == 'error':
                if st[0] in ('running', 'done') or not self.strict_errors:
                    return [f'E.{st[1]}.{v}']
                return []
            if st[0] == 'running':
                if st[2]:
                    st[0] = 'delivered'
                    return [f'R.{st[1]}.{v}']
                st[0], st[3] = 'done', v
                return []
            if st[0] == 'done':
                st[3] = v
            return []
        c = int(k[1])
        if kind == 'hello':
            return [f'Y.{c}']
        if kind == 'disconnect':
            self.drop(c)
            return [f'X.{c}']
        t = int(k[2])
        if kind == 'submit':
            self.task[t] = ['running', c, False, None, self.next_mailbox]
            self.by_mailbox[self.next_mailbox] = t
            self.next_mailbox += 1
            return []
        st = self.task.get(t)
        mine = st is not None and st[1] == c and st[0] in ('running', 'done')
        if kind == 'status':
            return [f'S.{c}.' + (st[0] if mine else 'unknown')]
        if kind == 'cancel':
            if mine:
                st[0] = 'cancelled'
            return [f'K.{c}']
        if kind == 'request':
            if not mine:
                self.drop(c)
                return [f'E.{c}.0', f'X.{c}']
            if st[0] == 'done':
                st[0] = 'delivered'
                return [f'R.{c}.{st[3]}']
            st[2] = True
            return []
        raise ValueError(ev)

    def state_of(self, t):
        st = self.task.get(t)
        return 'unknown' if st is None else st[0]


# ============================================================ comparison core
def parse_driver_line(line: str) -> dict:
    parts = [p.strip() for p in line.split(' ; ')]
    d = {'outcome': parts[0]}
    for p in parts[1:]:
        k, _, v = p.partition('=')
        d[k] = v.strip()
    d['state'] = ' ; '.join(
        f'{k}={d.get(k, "")}'.rstrip() if d.get(k, '') else f'{k}='
        for k in ('clients', 'tasks', 'm2t', 'boxes'))
    d['state'] += f' ; ctr={d.get("ctr")} ; run={d.get("run")} ; closed=' \
        + d.get('closed', '')
    return d


def norm_state(s: str) -> str:
    return ' ; '.join(p.strip() for p in s.split(' ; '))


class Finding:
    __slots__ = ('sig', 'what', 'replay', 'found')

    def __init__(self, sig, what, replay, found):
        self.sig, self.what, self.replay, self.found = sig, what, replay, found


class Session:
    """Impl + automaton side of a set of histories; collects the driver lines
    and what the implementation did, to be compared once the driver ran."""

    def __init__(self, strict_errors=True, eof_rng=None, nemployees=2):
        self.sim = Sim(nemployees)
        self.runner = Runner(self.sim, eof_rng)
        self.auto = Automaton(strict_errors)
        self.lines = []          # driver input
        self.records = []        # per event line: dict or None (control line)
        self.findings = []
        self.path = []
        self.value_owner = {}
        self.stats = collections.Counter()
        self.oracles_on = True

    # -- control lines
    def ctl(self, word):
        self.lines.append(word)
        self.records.append(None)

    def event(self, ev):
        """Apply one event to the real server; evaluate the direct oracles;
        remember what to compare with the model.  Returns False when the
        history cannot continue (server down)."""
        sim, auto = self.sim, self.auto
        k = ev.split()
        wf = auto.wf(ev)
        st_before = auto.state_of(int(k[2])) if k[0] in (
            'request', 'status', 'cancel', 'submit') else '-'
        if k[0] in ('result', 'error', 'log'):
            t = auto.by_mailbox.get(int(k[1]))
            st_before = '-' if t is None else auto.state_of(t)
            if t is not None:
                self.value_owner[(k[0], int(k[2]))] = auto.task[t][1]
            else:
                self.value_owner[(k[0], int(k[2]))] = None
        nse = len(sim.system_errors)
        nfind = len(self.findings)
        logs = self.runner.apply(ev)
        cli, down, delivered = self.runner.render_log(logs)
        state = self.runner.render_state()
        raised = len(sim.system_errors) > nse or sim.escaped is not None
        self.path.append(ev)
        self.stats[f'ev:{k[0]}'] += 1
        self.stats[f'st:{k[0]}:{st_before}'] += 1
        hist = list(self.path)
        if self.oracles_on and wf:
            exp = auto.expected(ev)
            # (1) no exception escapes a handler
            if raised:
                err = (sim.system_errors[-1] if len(sim.system_errors) > nse
                       else repr(sim.escaped))
                exc = err.strip().splitlines()[-1].split(':')[0] \
                    if err else '?'
                self.findings.append(Finding(
                    f'server-handler-raised:{k[0]}:{st_before}:{exc}',
                    f'{k[0]} for a task in state {st_before}: the real '
                    f'handler raised {exc}; the run loop shut the server '
                    'down', {'history': hist, 'error': err[-600:]}, True))
            # (2) server still running
            elif not sim.s.running:
                self.findings.append(Finding(
                    f'server-stopped:{k[0]}:{st_before}',
                    'server no longer running after a well-formed request',
                    {'history': hist}, True))
            # (3) exactly the automaton's reply
            elif cli != exp:
                sig = f'reply-differs:{k[0]}:{st_before}'
                stale = [r for r in cli if r not in exp]
                if (k[0] == 'error' and st_before in (
                        'cancelled', 'delivered') and exp == []
                        and len(cli) == 1 and cli[0].startswith('E.')):
                    sig = f'stale-error-forwarded:{st_before}'
                self.findings.append(Finding(
                    sig, f'{ev} (task state {st_before}): server answered '
                    f'{cli}, the per-task automaton requires {exp}',
                    {'history': hist, 'impl': cli, 'automaton': exp,
                     'extra': stale}, True))
                if sig.startswith('stale-error-forwarded'):
                    pass        # the automaton state is unaffected
            # (4) nothing about a task goes to somebody else
            for r in cli:
                p = r.split('.')
                kindmap = {'R': 'result', 'E': 'error', 'L': 'log'}
                if p[0] in kindmap and p[2].isdigit() and int(p[2]) >= 2:
                    own = self.value_owner.get((kindmap[p[0]], int(p[2])))
                    if (kindmap[p[0]], int(p[2])) in self.value_owner \
                            and own != int(p[1]):
                        self.findings.append(Finding(
                            f'leak:{kindmap[p[0]]}-sent-to-non-owner',
                            f'{r}: a {kindmap[p[0]]} of a task owned by '
                            f'client {own} was sent to client {p[1]}',
                            {'history': hist}, True))
        elif not wf:
            self.oracles_on = False
        # what was really written (outgoing thread's code run after the
        # handler): closes, and puts that reached an open connection
        pool = list(delivered)
        written = []
        for r in cli:
            if r.startswith('X.'):
                written.append(r)
            elif r in pool:
                pool.remove(r)
                written.append(r)
        if self.oracles_on and wf and not raised:
            lost = [r for r in cli if not r.startswith('X.')
                    and r not in written]
            if lost:
                self.findings.append(Finding(
                    f'reply-never-written:{k[0]}:{st_before}',
                    f'{ev} (task state {st_before}): the server put {lost} '
                    'for the client and then closed the connection in the '
                    'same handler; send_outgoing skips closed connections, '
                    'so the reply is never written (with the real outgoing '
                    'thread: 0 of 2000 runs)',
                    {'history': hist, 'put': cli, 'written': written}, True))
        diverged = any(not f.sig.startswith(('stale-error-forwarded',
                                             'reply-never-written'))
                       for f in self.findings[nfind:])
        self.lines.append(ev)
        self.records.append({
            'ev': ev, 'cli': ' '.join(cli), 'down': ' '.join(down),
            'state': state, 'raised': raised, 'wf': wf, 'hist': hist,
            'written': ' '.join(written),
            'oracles': self.oracles_on,
            'abs': {t: auto.state_of(t) for t in auto.task}
            if self.oracles_on else None})
        # after a first divergence from the automaton the rest of the history
        # proves nothing: do not continue it
        return not raised and sim.s.running and not diverged

    # -- snapshots for tree exploration
    def snapshot(self):
        a = self.auto
        return (self.sim.snapshot(),
                (set(a.conn), {t: list(v) for t, v in a.task.items()},
                 a.next_mailbox, dict(a.by_mailbox)),
                list(self.path), dict(self.value_owner), self.oracles_on,
                dict(self.runner.tid_index))

    def restore(self, snap):
        simsnap, (conn, task, nm, bm), path, vo, on, ti = snap
        self.sim.restore(simsnap)
        a = self.auto
        a.conn, a.task = set(conn), {t: list(v) for t, v in task.items()}
        a.next_mailbox, a.by_mailbox = nm, dict(bm)
        self.path[:] = path
        self.value_owner = dict(vo)
        self.oracles_on = on
        self.runner.tid_index = dict(ti)

    # -- model side
    def compare(self):
        """Run the driver over the collected lines and compare."""
        if not self.lines:
            return
        r = subprocess.run([str(DRIVER), 'server'],
                           input='\n'.join(self.lines) + '\n', text=True,
                           stdout=subprocess.PIPE, stderr=subprocess.PIPE)
        if r.returncode != 0:
            raise InfraError('bqdriver server failed: ' + r.stderr[-500:])
        outs = r.stdout.split('\n')[:-1]
        if len(outs) != len(self.lines):
            raise InfraError('driver output length mismatch')
        absmap = {'unknown': 'U', 'running': 'Run', 'done': 'Done',
                  'delivered': 'Del', 'cancelled': 'Can'}
        for rec, out in zip(self.records, outs):
            if rec is None:
                continue
            d = parse_driver_line(out)
            self.stats['compared'] += 1
            problems = []
            if (d['outcome'] == 'ok') == rec['raised']:
                problems.append(f'outcome model={d["outcome"]} '
                                f'impl_raised={rec["raised"]}')
            if not rec['raised']:
                if d.get('out', '') != rec['cli']:
                    problems.append(
                        f'client-visible model=[{d.get("out")}] '
                        f'impl=[{rec["cli"]}]')
                if d.get('written', '') != rec['written']:
                    problems.append(
                        f'written model=[{d.get("written")}] '
                        f'impl=[{rec["written"]}]')
                if d.get('down', '') != rec['down']:
                    problems.append(f'down model=[{d.get("down")}] '
                                    f'impl=[{rec["down"]}]')
                if norm_state(d['state']) != norm_state(rec['state']):
                    problems.append(f'tables model=[{d["state"]}] '
                                    f'impl=[{rec["state"]}]')
                if d.get('out', '') != d.get('spec', '') and rec['wf'] \
                        and rec['oracles']:
                    problems.append(
                        f'Lean spec replies [{d.get("spec")}] differ from '
                        f'Lean model replies [{d.get("out")}]')
            if (d.get('wf') == '1') != rec['wf'] and rec['oracles']:
                problems.append(f'wf model={d.get("wf")} harness={rec["wf"]}')
            if rec['abs'] is not None and not rec['raised']:
                mabs = {}
                for tok in d.get('abs', '').split():
                    t, _, st = tok.partition(':')
                    mabs[int(t)] = st.split('.')[0]
                for t, st in rec['abs'].items():
                    if mabs.get(t, 'U') != absmap[st]:
                        problems.append(
                            f'automaton state of task {t}: Lean '
                            f'{mabs.get(t)} harness {st}')
            if problems:
                kind = rec['ev'].split()[0]
                self.findings.append(Finding(
                    f'correspondence:{kind}',
                    'Lean model BqVerif.Server and the real DetachedServer '
                    f'disagree on `{rec["ev"]}`: ' + '; '.join(problems),
                    {'history': rec['hist'], 'problems': problems,
                     'broken': 'correspondence server'}, False))


def alphabet(nclients, ntids, nmail):
    evs = []
    for c in range(nclients):
        for t in range(ntids):
            for k in ('submit', 'request', 'status', 'cancel'):
                evs.append(f'{k} {c} {t}')
        evs.append(f'disconnect {c}')
    for m in range(nmail):
        evs.append(f'result {m} {7 + m}')
        evs.append(f'error {m} {2 + m}')
        evs.append(f'log {m} {4 + m}')
    return evs


def explore(sess: Session, evs, depth, seen=None):
    """Depth-first over all well-formed continuations.  With `seen` (a dict)
    subtrees below an already explored (state, remaining depth) are pruned."""
    if depth == 0:
        return
    for ev in evs:
        if not sess.auto.wf(ev):
            continue
        snap = sess.snapshot()
        sess.ctl('push')
        alive = sess.event(ev)
        if alive and depth > 1:
            go = True
            if seen is not None:
                key = sess.records[-1]['state'] + '|' + repr(sorted(
                    (t, v[:4]) for t, v in sess.auto.task.items()))
                if seen.get(key, 0) >= depth - 1:
                    go = False
                    sess.stats['pruned'] += 1
                else:
                    seen[key] = depth - 1
            if go:
                explore(sess, evs, depth - 1, seen)
        sess.ctl('pop')
        sess.restore(snap)


def explore_states(sess: Session, evs, depth):
    """Breadth-first over the reachable (server state, automaton state)
    pairs: every event is tried once in every distinct state reached by a
    well-formed history of length < depth.  Handlers are functions of the
    state, so this checks every step of every history of length <= depth."""
    def key():
        return sess.records[-1]['state'] + '|' + repr(sorted(
            (t, v[:4]) for t, v in sess.auto.task.items())) + repr(
            sorted(sess.auto.conn))
    sess.ctl('save')
    nsaved = 1
    frontier = [(sess.snapshot(), 0)]
    seen = set()
    for d in range(depth):
        nxt = []
        for snap, idx in frontier:
            for ev in evs:
                sess.restore(snap)
                if not sess.auto.wf(ev):
                    continue
                sess.ctl(f'load {idx}')
                alive = sess.event(ev)
                if alive and d + 1 < depth:
                    k = key()
                    if k not in seen:
                        seen.add(k)
                        sess.ctl('save')
                        nxt.append((sess.snapshot(), nsaved))
                        nsaved += 1
        sess.stats[f'states_at_depth_{d + 1}'] = len(nxt)
        frontier = nxt
        if not frontier:
            break
    sess.stats['distinct_states'] = len(seen)


def chunk_states(args):
    """Pool worker: state-space exploration below one first event."""
    first, depth, nclients, ntids, nmail = args
    _quiet()
    sess = Session(strict_errors=True)
    sess.ctl('reset')
    for c in range(nclients):
        sess.event(f'connect {c}')
    evs = alphabet(nclients, ntids, nmail)
    if first is None or (sess.auto.wf(first) and sess.event(first)):
        explore_states(sess, evs, depth - (0 if first is None else 1))
    sess.compare()
    return (dict(sess.stats),
            [(f.sig, f.what, f.replay, f.found) for f in sess.findings[:50]])


def _quiet():
    logging.disable(logging.CRITICAL)
    import bqskit.runtime.detached as det
    det.time = types.SimpleNamespace(sleep=lambda s: None)


def chunk_exhaustive(args):
    """Pool worker: all well-formed histories below each of the given
    prefixes (one driver run for the whole group)."""
    prefixes, depth, dedup, strict = args
    _quiet()
    sess = Session(strict_errors=strict)
    evs = alphabet(2, 2, 2)
    for prefix in prefixes:
        sess.sim = Sim(2)
        sess.runner = Runner(sess.sim)
        sess.auto = Automaton(strict)
        sess.path = []
        sess.value_owner = {}
        sess.oracles_on = True
        sess.ctl('reset')
        for ev in ('connect 0', 'connect 1'):
            sess.event(ev)
        ok = True
        for ev in prefix:
            if not sess.auto.wf(ev) or not sess.event(ev):
                ok = False
                break
        if ok:
            explore(sess, evs, depth - len(prefix), {} if dedup else None)
    sess.compare()
    return (dict(sess.stats),
            [(f.sig, f.what, f.replay, f.found) for f in sess.findings[:50]])


def chunk_random(args):
    """Pool worker: seeded random histories over 3 clients (linear replay,
    no snapshots), including client arrivals, EOF disconnects and - in the
    malformed stream - re-used task ids."""
    seed, count, maxlen, malformed, strict = args
    _quiet()
    rng = random.Random(seed)
    stats = collections.Counter()
    findings = []
    sess = None
    for h in range(count):
        if sess is None:
            if sess is not None:
                sess.compare()
                stats.update(sess.stats)
                findings += sess.findings
            sess = Session(strict_errors=strict,
                           eof_rng=random.Random(rng.random()))
        else:
            # a fresh server per history, same Session bookkeeping
            sess.sim = Sim(2)
            sess.runner = Runner(sess.sim, sess.runner.eof_rng)
            sess.auto = Automaton(strict)
            sess.path = []
            sess.value_owner = {}
            sess.oracles_on = True
        sess.ctl('reset')
        nconn = 0
        vctr = 10
        n = rng.randint(1, maxlen)
        ntid = rng.choice([2, 3, 4])
        for ev in ('connect 0',):
            sess.event(ev)
            nconn = 1
        for _ in range(n):
            # only registered connections can deliver anything
            live = sorted(i for i, c in sess.sim.conns.items()
                          if c in sess.sim.s.clients)
            r = rng.random()
            if (r < 0.08 and nconn < 3) or not live:
                if nconn >= 3:
                    break
                ev = f'connect {nconn}'
                nconn += 1
            elif r < 0.60:
                c = rng.choice(live)
                t = rng.randrange(ntid)
                k = rng.choice(['submit', 'submit', 'request', 'status',
                                'status', 'cancel', 'cancel', 'request'])
                if k == 'submit' and not malformed:
                    free = [x for x in range(ntid + 2)
                            if x not in sess.auto.task]
                    if not free:
                        k = 'status'
                    else:
                        t = rng.choice(free)
                ev = f'{k} {c} {t}'
            elif r < 0.66:
                ev = f'disconnect {rng.choice(live)}'
            elif r < 0.70:
                ev = f'hello {rng.choice(live)}'
            else:
                m = rng.randrange(max(1, sess.auto.next_mailbox + 1)) \
                    if not malformed else rng.randrange(6)
                vctr += 1
                ev = f'{rng.choice(["result", "result", "error", "log"])} ' \
                     f'{m} {vctr}'
            if not malformed and not sess.auto.wf(ev):
                continue
            if not sess.event(ev):
                break
    if sess is not None:
        sess.compare()
        stats.update(sess.stats)
        findings += sess.findings
    return (dict(stats),
            [(f.sig, f.what, f.replay, f.found) for f in findings[:50]])


# ===================================== error bubbling: real worker/manager/server
class WouldBlock(Exception):
    pass


class NBQueue(queue.Queue):
    """The worker's ready queue: a blocking `get` hands control back."""

    def get(self, block=True, timeout=None):
        try:
            return super().get(False)
        except queue.Empty:
            if not block:
                raise
            raise WouldBlock()


ORIGINAL = 'original-message-of-the-failing-pass-'


async def _child(depth, how, msg, exc_name):
    """A task `depth` levels above the raising one."""
    from bqskit.runtime import get_runtime
    if depth == 0:
        raise {'ValueError': ValueError, 'RuntimeError': RuntimeError,
               'KeyError': KeyError}[exc_name](msg)
    if how == 'submit':
        f = get_runtime().submit(_child, depth - 1, how, msg, exc_name)
        return await f
    f = get_runtime().map(_child, [depth - 1, -1], how=how, msg=msg,
                          exc_name=exc_name)
    return await f


async def _sibling_ok(x):
    return x


def _make_passes():
    from bqskit.compiler.basepass import BasePass

    class RaiseAtDepth(BasePass):
        """Raises `exc(msg)` in a task `depth` levels below the root task
        (depth 0: in the pass itself)."""

        def __init__(self, depth, how, msg, exc_name='ValueError'):
            self.depth, self.how, self.msg = depth, how, msg
            self.exc_name = exc_name

        async def run(self, circuit, data):
            await _child(self.depth, self.how, self.msg, self.exc_name)

    class OkPass(BasePass):
        async def run(self, circuit, data):
            from bqskit.runtime import get_runtime
            r = await get_runtime().map(_sibling_ok, [1, 2, 3])
            data['ok'] = sum(r)

    return RaiseAtDepth, OkPass


async def _child(depth, how, msg, exc_name):   # noqa: F811 (final version)
    from bqskit.runtime import get_runtime
    if depth < 0:
        return 0                    # harmless sibling of a map
    if depth == 0:
        raise {'ValueError': ValueError, 'RuntimeError': RuntimeError,
               'KeyError': KeyError}[exc_name](msg)
    if how == 'submit':
        return await get_runtime().submit(
            _child, depth - 1, how, msg, exc_name)
    return await get_runtime().map(
        _child, [-1, depth - 1], how=how, msg=msg, exc_name=exc_name)


RaiseAtDepth = OkPass = None


def _passes():
    global RaiseAtDepth, OkPass
    if RaiseAtDepth is None:
        RaiseAtDepth, OkPass = _make_passes()
        RaiseAtDepth.__qualname__ = 'RaiseAtDepth'
        OkPass.__qualname__ = 'OkPass'
    return RaiseAtDepth, OkPass


class ClientConn(FakeConn):
    """Client end of the client<->server link: a blocking `recv` pumps the
    network until something arrives; nothing left to do = the call hangs."""
    __slots__ = ('net', 'hung')

    def __init__(self, name, log, net):
        super().__init__(name, log)
        self.net = net
        self.hung = False

    def recv(self):
        self.net._flush()
        while not self.inbox:
            if len(self.net.trace) > 20000 or not self.net.pump_one():
                self.hung = True
                raise EOFError      # stands in for "blocks forever"
            self.net._flush()
        return self.inbox.popleft()

    def poll(self, timeout=0.0):
        self.net._flush()
        return bool(self.inbox)


class Net:
    """client <-> server <-> [managers <->] workers; real node objects, FIFO
    channels, a seeded scheduler choosing the next enabled transition."""

    def __init__(self, rng, nmanagers=0, nworkers=2):
        import bqskit.runtime.worker as wmod
        from bqskit.runtime.worker import Worker
        self.wmod = wmod
        self.rng = rng
        self.trace = []
        wmod.os = types.SimpleNamespace(
            kill=lambda *a: self.trace.append(('kill',) + a),
            getpid=os.getpid)
        log = []
        self.workers = []
        self.links = []     # (upper node, upper conn, lower node, lower conn)
        if nmanagers == 0:
            self.server = Sim(employees=[(1, False)] * nworkers)
            parents = [(self.server, i, i) for i in range(nworkers)]
            self.managers = []
        else:
            step = int(2 ** 30) // nmanagers
            self.server = Sim(employees=[(nworkers, True)] * nmanagers,
                              step_size=step)
            self.managers = []
            parents = []
            for i in range(nmanagers):
                m = Sim(kind='manager', employees=[(1, False)] * nworkers,
                        lower=i * step, upper=(i + 1) * step)
                self.managers.append(m)
                self.links.append((self.server, self.server.emp_conns[i],
                                   m, m.s.upstream))
                for j in range(nworkers):
                    parents.append((m, j, i * step + j))
        for parent, slot, wid in parents:
            w = object.__new__(Worker)
            w._id = wid
            w._conn = FakeConn(f'w{wid}-up', log)
            w._tasks = {}
            w._delayed_tasks = []
            w._ready_task_ids = NBQueue()
            w._cancelled_task_ids = set()
            w._active_task = None
            w._running = True
            w._mailboxes = {}
            w._mailbox_counter = 0
            w._cache = {}
            w.most_recent_read_submit = None
            w.read_receipt_mutex = Lock()
            w._mailbox_mutex = Lock()
            w.incoming_thread = None
            from harness import runtime_sim as _rs
            _rs.autofill(w, [(Worker, ('__init__',))])
            self.workers.append(w)
            self.links.append((parent, parent.emp_conns[slot], w, w._conn))
        self.client_conn = ClientConn('client', log, self)
        self.server_client = self.server.new_client(0)
        self.blocked_workers = set()
        self.errors_at_server = []

    # -- moving messages -----------------------------------------------------
    def _flush(self):
        """Move everything written to a fake connection into the inbox of the
        peer (FIFO per direction)."""
        for up, upc, low, lowc in self.links:
            if upc.sent:
                lowc.inbox.extend(upc.sent)
                del upc.sent[:]
            if lowc.sent:
                upc.inbox.extend(lowc.sent)
                del lowc.sent[:]
        if self.server_client.sent:
            self.client_conn.inbox.extend(self.server_client.sent)
            del self.server_client.sent[:]
        if self.client_conn.sent:
            self.server_client.inbox.extend(self.client_conn.sent)
            del self.client_conn.sent[:]

    def enabled(self):
        self._flush()
        en = []
        if self.server_client.inbox and not self.server_client.closed:
            en.append(('srv-client',))
        for k, (up, upc, low, lowc) in enumerate(self.links):
            if upc.inbox:
                en.append(('up', k))
            if lowc.inbox:
                en.append(('down', k))
        for i, w in enumerate(self.workers):
            if i not in self.blocked_workers or not w._ready_task_ids.empty() \
                    or w._delayed_tasks:
                en.append(('step', i))
        return en

    def pump_one(self):
        en = self.enabled()
        if not en:
            return False
        tr = self.rng.choice(en)
        self.trace.append(tr)
        if tr[0] == 'srv-client':
            c = self.server_client
            item = c.inbox.popleft()
            self.server.deliver_item(c, self.server.D.CLIENT, item)
        elif tr[0] == 'up':
            up, upc, low, lowc = self.links[tr[1]]
            item = upc.inbox.popleft()
            if up is self.server and item[0].name == 'ERROR':
                self.errors_at_server.append(item[1])
            up.deliver_item(upc, up.D.BELOW, item)
        elif tr[0] == 'down':
            up, upc, low, lowc = self.links[tr[1]]
            item = lowc.inbox.popleft()
            if isinstance(low, Sim):
                low.deliver_item(lowc, low.D.ABOVE, item)
            else:
                self.worker_recv(low, item)
        else:
            i = tr[1]
            w = self.workers[i]
            self.wmod._worker = w
            try:
                w._try_step_next_ready_task()
                self.blocked_workers.discard(i)
            except WouldBlock:
                self.blocked_workers.add(i)
        return True

    def worker_recv(self, w, item):
        """One iteration of the real `Worker.recv_incoming`."""
        real = w._conn

        class Once:
            def recv(self_inner):
                w._running = False
                return item
        w._conn = Once()
        try:
            type(w).recv_incoming(w)
        finally:
            w._conn = real
            w._running = True
        i = self.workers.index(w)
        self.blocked_workers.discard(i)


def _sim_deliver_item(self, conn, direction, item):
    conn.inbox.appendleft(item)
    s = self.s
    s.sel.script.append([(Key(conn, direction), 1)])
    self.escaped = None
    try:
        self.cls.run(s)
    except Exception as e:
        self.escaped = e
    self.drain()


Sim.deliver_item = _sim_deliver_item


def new_client_compiler(conn):
    from bqskit.compiler.compiler import Compiler
    c = object.__new__(Compiler)
    c.p = None
    c.conn = conn
    return c


def chain_text(e: BaseException) -> str:
    """str(e) and the text of everything in its __cause__/__context__ chain
    (plus the formatted traceback): where "carrying the original message" is
    looked for."""
    import traceback
    parts, seen, x = [], set(), e
    while x is not None and id(x) not in seen:
        seen.add(id(x))
        parts.append(str(x))
        x = x.__cause__ or x.__context__
    parts.append(''.join(
        traceback.format_exception(type(e), e, e.__traceback__)))
    return '\n'.join(parts)


def bubbling_case(seed, nmanagers, depth, how, exc_name, with_ok_first):
    """One end-to-end run; returns a dict describing the client's view."""
    from bqskit.ir.circuit import Circuit
    Raise, Ok = _passes()
    rng = random.Random(seed)
    net = Net(rng, nmanagers=nmanagers, nworkers=2)
    comp = new_client_compiler(net.client_conn)
    msg = ORIGINAL + f'{seed}-{depth}-{how}'
    out = {'seed': seed, 'nmanagers': nmanagers, 'depth': depth, 'how': how,
           'exc': exc_name, 'msg': msg}
    ok_id = None
    if with_ok_first:
        ok_id = comp.submit(Circuit(1), [Ok()], request_data=True)
    tid = comp.submit(Circuit(1), [Raise(depth, how, msg, exc_name)])
    if with_ok_first:
        try:
            r = comp.result(ok_id)
            out['ok_result'] = (r[1]['ok'] == 6)
        except RuntimeError as e:
            # the failing compilation's ERROR may overtake: legal
            out['ok_result'] = 'raised:' + ('orig' if msg in chain_text(e)
                                            else 'other')
    if comp.conn is not None:
        try:
            r = comp.result(tid)
            out['outcome'] = 'returned'
            out['value'] = repr(r)[:80]
        except RuntimeError as e:
            out['outcome'] = 'raised'
            out['carries'] = msg in chain_text(e)
            out['top'] = str(e)
    else:
        out['outcome'] = 'raised-early'
        out['carries'] = out.get('ok_result') == 'raised:orig'
    out['hung'] = net.client_conn.hung
    out['server_running'] = net.server.s.running
    out['server_errors'] = len(net.server.system_errors) + sum(
        len(m.system_errors) for m in net.managers)
    out['transitions'] = len(net.trace)
    # the ERROR message as it arrived at the server, for the model
    srv = net.server.s
    mb = [m for t, (m, c) in srv.tasks.items() if t == tid]
    out['mailbox'] = mb[0] if mb else None
    out['errors_at_server'] = [
        (p[0], msg in p[1]) if isinstance(p, tuple) else ('sys', False)
        for p in net.errors_at_server]
    out['hops'] = 1 if nmanagers else 0
    return out


def swallow_cases():
    """The `except Exception` branch of the real
    `Worker._try_step_next_ready_task` for the four combinations (plain
    RuntimeError?, cancel of an ancestor processed during the step?)."""
    import bqskit.runtime.worker as wmod
    from bqskit.runtime.task import RuntimeTask
    from bqskit.runtime.address import RuntimeAddress
    res = []
    for plain in (0, 1):
        for canc in (0, 1):
            net = Net(random.Random(0), 0, 1)
            w = net.workers[0]
            anc = RuntimeAddress(-1, 5, 0)
            task = RuntimeTask((_raise_during_cancel, (plain, canc), {}),
                               RuntimeAddress(w._id, 0, 0), 5, (anc,))
            w._add_task(task)
            wmod._worker = w
            del w._conn.sent[:]
            w._try_step_next_ready_task()
            errs = [p for (m, p) in w._conn.sent if m.name == 'ERROR']
            if errs:
                got = f'error {errs[0][0]} ' + (
                    '9' if 'swallow-probe' in errs[0][1] else '?')
            else:
                got = 'swallowed'
            res.append((f'bubble 5 1 0 {canc} {plain} 9', got))
    return res


def _raise_during_cancel(plain, canc):
    import bqskit.runtime.worker as wmod
    from bqskit.runtime.address import RuntimeAddress
    if canc:    # what the incoming thread does on CANCEL of the root task
        wmod._worker._cancelled_task_ids.add(RuntimeAddress(-1, 5, 0))
    raise (RuntimeError if plain else ValueError)('swallow-probe')


def chunk_bubbling(args):
    _quiet()
    res = []
    for a in args:
        try:
            res.append(bubbling_case(*a))
        except Exception as e:     # harness trouble is not a verdict
            import traceback
            res.append({'args': a, 'harness_error':
                        ''.join(traceback.format_exception(e))[-1500:]})
    return res


# ======================================================= client side (Compiler)
class _Capture(logging.Handler):
    def __init__(self):
        super().__init__(level=0)
        self.got = []

    def emit(self, record):
        self.got.append(record.getMessage())


def _log_payload(x, as_tuple=False):
    """What the worker's record factory sends: a pickled LogRecord, or the
    pickled (name, level, text) fallback."""
    if as_tuple:
        return pickle.dumps(('c13.client', logging.WARNING, f'log-{x}'))
    return pickle.dumps(logging.LogRecord(
        'c13.client', logging.WARNING, __file__, 1, f'log-{x}', None, None))


def client_checks(ck_rng, thorough):
    """Real `Compiler` methods against a scripted peer.  Returns
    (driver_lines, impl_outcomes, findings, stats)."""
    from bqskit.compiler.status import CompilationStatus as CS
    from bqskit.runtime.message import RuntimeMessage as M
    from bqskit.ir.circuit import Circuit
    logging.disable(logging.NOTSET)
    logger = logging.getLogger('c13.client')
    logger.setLevel(logging.DEBUG)
    logger.propagate = False
    cap = _Capture()
    logger.addHandler(cap)
    findings, stats = [], collections.Counter()
    lines, impl = [], []
    stat_name = {'running': CS.RUNNING, 'done': CS.DONE,
                 'unknown': CS.UNKNOWN}

    def wire(tok, x):
        if tok == 'L':
            return (M.LOG, _log_payload(x, as_tuple=(x % 2 == 1)))
        if tok == 'E':
            return (M.ERROR, f'boom-{x}')
        if tok == 'R':
            return (M.RESULT, ('R', x))
        if tok == 'K':
            return (M.CANCEL, None)
        return (M.STATUS, stat_name[x])

    # (1) `_recv_handle_log_error` on every message sequence of length <= n
    toks = [('L', 3), ('L', 4), ('E', 5), ('R', 6), ('K', None),
            ('S', 'done')]
    n = 5 if thorough else 4
    for k in range(0, n + 1):
        for seq in it.product(toks, repeat=k):
            c = FakeConn('peer', [])
            comp = new_client_compiler(c)
            for tok, x in seq:
                c.inbox.append(wire(tok, x))
            del cap.got[:]
            try:
                msg, payload = comp._recv_handle_log_error()
                if msg == M.RESULT:
                    got = f'returned R.0.{payload[1]}'
                elif msg == M.CANCEL:
                    got = 'returned K.0'
                elif msg == M.STATUS:
                    got = f'returned S.0.{payload.name.lower()}'
                else:
                    got = f'returned ?{msg!r}'
            except RuntimeError as e:
                t = str(e)
                got = f'raised {t.split("-")[1]}' if t.startswith('boom-') \
                    else f'raised ?{t}'
            except EOFError:
                got = 'blocked'
            except Exception as e:      # anything else is the client's bug
                got = f'crashed {type(e).__name__}'
            line = 'recv ' + ' '.join(
                tok if x is None else f'{tok} {x}' for tok, x in seq)
            lines.append(line)
            impl.append(got)
            stats['recv_sequences'] += 1
            # direct oracle: logs before the outcome are passed through, the
            # first ERROR raises with its text, otherwise the LAST non-log
            # message is returned; only logs -> keeps waiting
            logs_before = []
            exp = 'blocked'
            for tok, x in seq:
                if tok == 'L':
                    logs_before.append(f'log-{x}')
                elif tok == 'E':
                    exp = f'raised {x}'
                    break
                else:
                    exp = 'returned ' + (
                        f'R.0.{x}' if tok == 'R' else
                        'K.0' if tok == 'K' else f'S.0.{x}')
            if got != exp or cap.got != logs_before:
                findings.append(Finding(
                    'client-recv-loop',
                    f'_recv_handle_log_error on {line}: got {got} with logs '
                    f'{cap.got}, the property requires {exp} with logs '
                    f'{logs_before}', {'sequence': line}, True))

    # (1b) `_recv_log_error_until_empty`: pending LOGs are passed through,
    # a pending ERROR raises, anything else is a protocol error
    for k in range(0, 5 if thorough else 4):
        for seq in it.product(toks, repeat=k):
            c = FakeConn('peer', [])
            comp = new_client_compiler(c)
            for tok, x in seq:
                c.inbox.append(wire(tok, x))
            del cap.got[:]
            try:
                comp._recv_log_error_until_empty()
                got = 'clean'
            except RuntimeError as e:
                t = str(e)
                got = (f'raised {t.split("-")[1]}' if t.startswith('boom-')
                       else 'unexpected' if 'Unexpected message' in t
                       else f'raised ?{t}')
            except AttributeError:
                got = 'attributeError'
            except Exception as e:
                got = f'crashed {type(e).__name__}'
            line = 'predrain ' + ' '.join(
                tok if x is None else f'{tok} {x}' for tok, x in seq)
            lines.append(line)
            impl.append(got)
            stats['predrain_sequences'] += 1
            logs_before, exp = [], 'clean'
            for tok, x in seq:
                if tok == 'L':
                    logs_before.append(f'log-{x}')
                elif tok == 'E':
                    exp = f'raised {x}'
                    break
                else:
                    exp = 'unexpected'
                    break
            if got != exp or cap.got != logs_before:
                findings.append(Finding(
                    'client-predrain:' + got.split()[0],
                    f'_recv_log_error_until_empty on {line}: got {got} with '
                    f'logs {cap.got}, the property requires {exp} with logs '
                    f'{logs_before} (pending LOG records must not make the '
                    'next call fail)', {'sequence': line}, True))

    # (1c) `_send_recv` as a whole: pending messages, then the arriving ones
    class Peer0(FakeConn):
        __slots__ = ('replies',)

        def send(self, m):
            self.sent.append(m)
            self.inbox.extend(self.replies)
            self.replies = []
    short = [('L', 3), ('E', 5), ('R', 6), ('S', 'done')]
    for kp in range(0, 3):
        for pend in it.product(short, repeat=kp):
            for ka in range(0, 3):
                for arr in it.product(short, repeat=ka):
                    c = Peer0('peer', [])
                    c.replies = [wire(tok, x) for tok, x in arr]
                    for tok, x in pend:
                        c.inbox.append(wire(tok, x))
                    comp = new_client_compiler(c)
                    try:
                        msg, payload = comp._send_recv(M.STATUS, uuid.uuid4())
                        got = 'returned ' + (
                            f'R.0.{payload[1]}' if msg == M.RESULT else
                            f'S.0.{payload.name.lower()}')
                    except RuntimeError as e:
                        cause = e.__cause__
                        t = str(cause)
                        if isinstance(cause, EOFError):
                            got = 'blocked'
                        elif isinstance(cause, RuntimeError) \
                                and t.startswith('boom-'):
                            got = f'wrapped {t.split("-")[1]}'
                        elif isinstance(cause, RuntimeError) \
                                and 'Unexpected message' in t:
                            got = 'wrapped -'
                        else:
                            got = f'crashed {type(cause).__name__}'
                        if not str(e).startswith(
                                'Server connection unexpectedly closed'):
                            got += ' unwrapped'
                    except Exception as e:
                        got = f'crashed {type(e).__name__}'

                    def fmt(seq):
                        return ' '.join(tok if x is None else f'{tok} {x}'
                                        for tok, x in seq)
                    lines.append(f'sendrecv {fmt(pend)} / {fmt(arr)}')
                    impl.append(got)
                    stats['sendrecv_cases'] += 1

    # (2) the API calls
    class Peer(FakeConn):
        __slots__ = ('replies',)

        def send(self, m):
            self.sent.append(m)
            self.inbox.extend(self.replies)
            self.replies = []

    def call(method, replies, stale=()):
        c = Peer('peer', [])
        c.replies = list(replies)
        c.inbox.extend(stale)
        comp = new_client_compiler(c)
        tid = uuid.uuid4()
        del cap.got[:]
        try:
            if method == 'submit':
                r = comp.submit(Circuit(1), [_passes()[1]()])
                return ('returned', r, list(cap.got), comp, c)
            r = getattr(comp, method)(tid)
            return ('returned', r, list(cap.got), comp, c)
        except RuntimeError as e:
            return ('raised', e, list(cap.got), comp, c)
        except Exception as e:
            return ('crashed', e, list(cap.got), comp, c)

    reply_for = {'status': (M.STATUS, CS.DONE), 'result': (M.RESULT, ('R', 9)),
                 'cancel': (M.CANCEL, None)}
    want = {'status': CS.DONE, 'result': ('R', 9), 'cancel': True}
    for method in ('status', 'result', 'cancel'):
        for nlogs in (0, 1, 3):
            logs = [(M.LOG, _log_payload(20 + i, i % 2 == 1))
                    for i in range(nlogs)]
            # reply preceded by logs -> value; logs passed through
            o = call(method, logs + [reply_for[method]])
            stats['client_calls'] += 1
            if o[0] != 'returned' or o[1] != want[method] or o[2] != [
                    f'log-{20 + i}' for i in range(nlogs)]:
                findings.append(Finding(
                    f'client-call-mapping:{method}',
                    f'Compiler.{method} with {nlogs} LOG before the reply: '
                    f'{o[0]} {o[1]!r} logs={o[2]}', {'method': method}, True))
            # ERROR (after logs) -> RuntimeError carrying the text
            o = call(method, logs + [(M.ERROR, 'Traceback ... ValueError: '
                                      + ORIGINAL + method)])
            stats['client_calls'] += 1
            if o[0] != 'raised' or (ORIGINAL + method) not in chain_text(o[1]):
                findings.append(Finding(
                    f'client-error-lost:{method}',
                    f'Compiler.{method}: ERROR reply did not surface as a '
                    f'RuntimeError carrying the message: {o[0]} {o[1]!r}',
                    {'method': method}, True))
            elif (ORIGINAL + method) not in str(o[1]):
                # observation, not a violation: the message is carried by the
                # __cause__ chain (what test_errors_raised_locally checks)
                stats['error_text_only_in_cause_chain'] += 1
        # a reply of the wrong kind is not returned as a value
        wrong = reply_for['cancel' if method != 'cancel' else 'status']
        o = call(method, [wrong])
        stats['client_calls'] += 1
        if o[0] != 'raised':
            findings.append(Finding(
                f'client-wrong-kind-accepted:{method}',
                f'Compiler.{method} returned {o[1]!r} for a reply of the '
                'wrong kind', {'method': method}, True))
        # connection closed instead of a reply -> RuntimeError (no hang)
        o = call(method, [])
        stats['client_calls'] += 1
        if o[0] != 'raised':
            findings.append(Finding(
                f'client-eof-not-raised:{method}', 'EOF did not raise',
                {'method': method}, True))
    # a LOG that is already in the pipe when the next call starts (it arrived
    # between two calls) must be passed through and not end the call
    for method in ('status', 'result', 'cancel', 'submit'):
        stale = [(M.LOG, _log_payload(30))]
        o = call(method, [reply_for[method]] if method != 'submit' else [],
                 stale)
        stats['client_calls'] += 1
        ok = o[0] == 'returned' and (method == 'submit'
                                     or o[1] == want[method])
        if not ok:
            cause = o[1].__cause__ if o[0] == 'raised' else None
            findings.append(Finding(
                f'client-stale-log-kills-call:{method}:'
                f'{type(cause).__name__}',
                f'Compiler.{method} with a LOG record already waiting in the '
                'pipe (it arrived after the previous call returned): '
                f'_recv_log_error_until_empty treats the pickled payload as a '
                f'LogRecord -> {type(cause).__name__}: {cause}; the call '
                'fails with "Server connection unexpectedly closed." and '
                'the connection is dropped',
                {'method': method, 'pipe': 'LOG(pickled record) before the '
                 'request is sent', 'conn_after': repr(o[3].conn)}, True))
    # an ERROR already in the pipe surfaces at the next call with its text
    for method in ('status', 'submit'):
        o = call(method, [], [(M.ERROR, 'x ' + ORIGINAL + 'stale')])
        stats['client_calls'] += 1
        if o[0] != 'raised' or (ORIGINAL + 'stale') not in chain_text(o[1]):
            findings.append(Finding(
                f'client-stale-error-lost:{method}', 'stale ERROR lost',
                {'method': method}, True))
    logger.removeHandler(cap)
    logging.disable(logging.CRITICAL)
    return lines, impl, findings, stats


# ================================================ the outgoing thread's code
def outgoing_checks():
    """The real `send_outgoing` when a client has vanished.  Real sockets
    (measured): after the peer closed, the second `send` raises
    BrokenPipeError; after a close with unread data the first raises
    ConnectionResetError.  Oracles: the thread survives every EOF/OSError
    send failure, does not touch the tables (disconnecting is the main
    loop's job), other clients are still answered, and the main loop's EOF
    for the vanished client is an ordinary disconnect.
    Returns (driver lines, impl, findings)."""
    from bqskit.runtime.message import RuntimeMessage as M
    findings, lines, impl = [], [], []
    excs = {'eof': EOFError(), 'reset': ConnectionResetError(104, 'reset'),
            'brokenpipe': BrokenPipeError(32, 'Broken pipe'),
            'oserror': OSError(9, 'Bad file descriptor'),
            'nonoserror': TypeError('cannot pickle')}
    for name, exc in excs.items():
        sim = Sim(2)
        r = Runner(sim)
        for ev in ('connect 0', 'connect 1', 'submit 0 0', 'submit 1 1'):
            r.apply(ev)
        before = r.render_state()
        # client 0 is gone; a LOG of its task is forwarded to it
        sim.conns[0].send_error = exc
        sim.s.outgoing.put((sim.conns[0], M.LOG, 'log-4'))
        survived, died_with = True, ''
        try:
            sim.cls.send_outgoing(sim.s)
        except Drained:
            pass
        except BaseException as e:     # leaves `while True`: the thread dies
            survived = False
            died_with = type(e).__name__
        same = r.render_state() == before
        lines.append(f'outgoing {name}')
        impl.append(f'{"true" if survived else "false"} '
                    f'{"same" if same else "changed"}')
        scen = ['connect 0', 'connect 1', 'submit 0 0', 'submit 1 1',
                f'<client 0 vanishes: send raises {type(exc).__name__}>',
                'log 0 4']
        if name == 'nonoserror':
            continue                    # not a peer failure: model only
        if not survived:
            findings.append(Finding(
                f'outgoing-thread-dies:{died_with}',
                f'a client vanished and `conn.send` raised {died_with} in '
                'ServerBase.send_outgoing: the exception leaves the `while '
                'True` loop, the outgoing thread ends while `running` stays '
                'True - from then on nothing is ever written to any client '
                'or employee (every client hangs)',
                {'scenario': scen, 'running_after': bool(sim.s.running)},
                True))
            continue
        if not same:
            findings.append(Finding(
                f'outgoing-thread-mutates-tables:{type(exc).__name__}',
                'send_outgoing changed the server tables (it runs on a '
                'second thread; disconnecting is the main loop\'s job): '
                f'{before} -> {r.render_state()}', {'scenario': scen}, True))
        # another client's request is still answered
        cli, _, delivered = r.render_log(r.apply('status 1 1'))
        if 'S.1.running' not in delivered:
            findings.append(Finding(
                f'other-client-unanswered-after:{type(exc).__name__}',
                f'after the failed send, `status 1 1` was answered {cli} / '
                f'written {delivered}', {'scenario': scen + ['status 1 1']},
                True))
        # the main loop now sees the EOF of the vanished client
        nse = len(sim.system_errors)
        sim.deliver(sim.conns[0], sim.D.CLIENT, EOFError)
        if len(sim.system_errors) > nse or not sim.s.running:
            err = (sim.system_errors or ['?'])[-1].strip()
            exc_name = err.splitlines()[-1].split(':')[0]
            findings.append(Finding(
                f'double-disconnect:{exc_name}',
                f'after {type(exc).__name__} in send_outgoing the main '
                'loop\'s handling of the EOF of the same connection raised '
                f'{exc_name} and shut the whole server down',
                {'scenario': scen + ['<main thread: EOF on client 0>'],
                 'error': err[-300:]}, True))
        elif sim.conns[0] in sim.s.clients:
            findings.append(Finding(
                'vanished-client-not-disconnected',
                'the EOF of the vanished client did not remove it',
                {'scenario': scen}, True))
    return lines, impl, findings


# ====================================================== attached server (small)
def attached_checks():
    """AttachedServer shares the handlers; a client disconnect (and therefore
    a 'Bad client' request) is a shutdown there.  Oracle: no handler raises
    for the request kinds of a single well-behaved client."""
    from bqskit.runtime.message import RuntimeMessage as M
    findings, stats = [], collections.Counter()
    evs = ['submit 0 0', 'submit 0 1', 'request 0 0', 'status 0 0',
           'cancel 0 0', 'status 0 1', 'cancel 0 1', 'result 0 7',
           'error 0 2', 'log 0 4', 'result 1 8']
    for hist in it.product(evs, repeat=3):
        sim = Sim(2, kind='attached')
        r = Runner(sim)
        sim.new_client(0)
        auto = Automaton(strict_errors=True)
        auto.expected('connect 0')
        for i, ev in enumerate(hist):
            if not auto.wf(ev):
                break
            exp = auto.expected(ev)
            cli, down, _ = r.render_log(r.apply(ev))
            stats['attached_events'] += 1
            if sim.system_errors or sim.escaped is not None:
                findings.append(Finding(
                    f'attached-handler-raised:{ev.split()[0]}',
                    'AttachedServer handler raised: '
                    + (sim.system_errors or [repr(sim.escaped)])[-1][-300:],
                    {'history': list(hist[:i + 1])}, True))
                break
            if not sim.s.running:
                # only a bad request may stop an attached server
                if not (ev.startswith('request') and exp
                        and exp[0].startswith('E.')):
                    findings.append(Finding(
                        f'attached-stopped:{ev.split()[0]}',
                        'AttachedServer stopped on a good request',
                        {'history': list(hist[:i + 1])}, True))
                break
            expf = [e for e in exp]
            if cli != expf:
                findings.append(Finding(
                    f'attached-reply-differs:{ev.split()[0]}',
                    f'AttachedServer answered {cli}, automaton {expf}',
                    {'history': list(hist[:i + 1])}, True))
                break
    return findings, stats


# ======================================================================== run
class _Counted(set):
    """`distinct_nontrivial` for tree exploration: every node of the history
    tree is a distinct history; they are counted, not stored."""
    extra = 0

    def __len__(self):
        return super().__len__() + self.extra


FIRST = ['submit 0 0', 'request 0 0', 'status 0 0', 'cancel 0 0',
         'disconnect 0', 'result 0 7', 'error 0 2', 'log 0 4']


def reproduces(hist, sig):
    """Does this (well-formed) history show the finding `sig` on the real
    server?  Used to shrink reported histories."""
    sess = Session(strict_errors=True)
    for ev in hist:
        if not sess.auto.wf(ev):
            return False
        alive = sess.event(ev)
        if any(f.sig == sig for f in sess.findings):
            return True
        if not alive:
            return False
    return False


def replay_history(hist, out=sys.stdout):
    _quiet()
    sess = Session(strict_errors=True)
    sess.ctl('reset')
    for ev in hist:
        alive = sess.event(ev)
        rec = sess.records[-1]
        print(f'{ev:<16} impl: [{rec["cli"]}] down [{rec["down"]}] '
              f'raised={rec["raised"]}\n{"":<16} {rec["state"]}', file=out)
        if not alive:
            print(f'{"":<16} server is down: '
                  + (sess.sim.system_errors or ['?'])[-1][-400:], file=out)
            break
    sess.compare()
    for f in sess.findings:
        print(f'  -> {f.sig}: {f.what}', file=out)
    return sess.findings


def run(ck: Check):
    from bqskit.ir.circuit import Circuit  # noqa: F401 (import order)
    import json
    ck._distinct = _Counted()
    thorough = ck.tier == 'thorough'
    if ck.replay_path:
        body = json.loads(open(ck.replay_path).read())
        rp = body.get('replay', body)
        hist = rp.get('history')
        if hist:
            for f in replay_history(hist):
                ck.violation(f.sig, f.what, f.replay, f.found)
        elif 'method' in rp or 'sequence' in rp:
            _quiet()
            for f in client_checks(ck.rng, False)[2]:
                print(f'  -> {f.sig}: {f.what}')
                ck.violation(f.sig, f.what, f.replay, f.found)
        elif 'case' in rp and 'seed' in rp['case']:
            _quiet()
            c = rp['case']
            o = bubbling_case(c['seed'], c['nmanagers'], c['depth'], c['how'],
                              c['exc'], rp.get('observed', {}).get(
                                  'ok_result') is not None)
            print(o)
        return
    import time as _time
    phases = {}
    t0 = _time.time()
    drift = check_attr_lists()
    if drift:
        ck.coverage['constructor_attribute_drift'] = drift
    proved = ck.lean_obligations()
    phases['lean'] = round(_time.time() - t0, 1)
    t0 = _time.time()
    _quiet()
    ncpu = min(16, os.cpu_count() or 1)
    all_findings: list[tuple] = []
    stats = collections.Counter()

    def absorb(res):
        for st, fs in res:
            stats.update(st)
            all_findings.extend(fs)

    evs = alphabet(2, 2, 2)
    depth = 5 if thorough else 4
    prefixes = [[a, b] for a in FIRST for b in evs]
    ck.rng.shuffle(prefixes)
    ngroups = 4 * ncpu if thorough else ncpu
    jobs = [(prefixes[i::ngroups], depth, False, True)
            for i in range(ngroups)]
    # state-space exploration: (first event | None, depth, clients, tids,
    # mailboxes); 2x2x2 saturates at depth 10 (1 244 states): complete
    if thorough:
        djobs = [(None, 14, 2, 2, 2), (None, 14, 3, 2, 2)]
        djobs += [(f, 7, 2, 3, 3) for f in alphabet(2, 3, 3)]
        djobs += [(f, 5, 3, 3, 3) for f in alphabet(3, 3, 3)]
    else:
        djobs = [(None, 14, 2, 2, 2), (None, 6, 3, 2, 2)]
    nrand = 100000 if thorough else 4000
    per = 250
    rjobs = [(ck.rng.randrange(1 << 30), per, 30, False, True)
             for _ in range(nrand // per)]
    mjobs = [(ck.rng.randrange(1 << 30), per, 30, True, True)
             for _ in range(max(4, nrand // per // 5))]
    bub = []
    for seed in range(12 if thorough else 3):
        for nm in (0, 1, 2):
            for d in (0, 1, 2, 3):
                for how in ('submit', 'map'):
                    for exc in ('ValueError', 'RuntimeError', 'KeyError'):
                        for okf in (False, True):
                            bub.append((ck.rng.randrange(1 << 30), nm, d, how,
                                        exc, okf))
    bjobs = [bub[i::ncpu] for i in range(ncpu)]
    with mp.Pool(ncpu) as pool:
        r1 = pool.map_async(chunk_exhaustive, jobs, chunksize=1)
        r2 = pool.map_async(chunk_states, djobs, chunksize=1)
        r3 = pool.map_async(chunk_random, rjobs, chunksize=1)
        r4 = pool.map_async(chunk_random, mjobs, chunksize=1)
        r5 = pool.map_async(chunk_bubbling, bjobs, chunksize=1)
        ex = r1.get()
        n_tree = sum(st.get('compared', 0) for st, _ in ex)
        absorb(ex)
        dd = r2.get()
        n_dedup = sum(st.get('compared', 0) for st, _ in dd)
        absorb(dd)
        rr = r3.get()
        n_rand = sum(st.get('compared', 0) for st, _ in rr)
        absorb(rr)
        mm = r4.get()
        n_mal = sum(st.get('compared', 0) for st, _ in mm)
        # in the malformed stream only the correspondence is a verdict
        for st, fs in mm:
            stats.update({'malformed:' + k: v for k, v in st.items()
                          if k.startswith('ev:')})
            all_findings.extend(f for f in fs if not f[3])
        bres = [x for chunk in r5.get() for x in chunk]
    phases['histories'] = round(_time.time() - t0, 1)
    t0 = _time.time()
    ck._distinct.extra += n_tree
    ck.coverage['evaluations'] += n_tree + n_dedup + n_rand + n_mal
    ck.coverage['traces_validated_against_impl'] += (
        n_tree + n_dedup + n_rand + n_mal)
    ck.coverage['exhaustive'] = True
    ck.coverage['exhaustive_space'] = (
        f'all well-formed histories of length <= {depth} over 2 clients x 2 '
        f'task ids x {{submit, request, status, cancel, disconnect}} x '
        f'{{result, error, log}} for 2 mailboxes, first event canonical up '
        f'to client/task renaming ({n_tree} history-tree nodes); plus the '
        'COMPLETE reachable state space over that alphabet (it saturates at '
        f'depth 10, {dd[0][0].get("distinct_states")} states: every event in '
        'every state reachable by a well-formed history of any length) and '
        'breadth-first state exploration for larger alphabets: '
        + '; '.join(sorted({f'{j[2]} clients x {j[3]} ids x {j[4]} mailboxes '
                            f'to depth {j[1]}' for j in djobs[1:]}))
        + f' ({n_dedup} events in all)')
    ck.coverage['random_histories'] = nrand
    ck.coverage['events_by_kind'] = {
        k[3:]: v for k, v in stats.items() if k.startswith('ev:')}
    ck.coverage['request_by_task_state'] = {
        k[3:]: v for k, v in stats.items() if k.startswith('st:')}
    ck.coverage['malformed_stream_events'] = n_mal

    # ---- error bubbling, end to end on the real nodes
    blines, bexp = [], []
    for o in bres:
        if 'harness_error' in o:
            raise InfraError('bubbling harness: ' + o['harness_error'])
        ck.count(('bubble', o['nmanagers'], o['depth'], o['how'], o['exc'],
                  o.get('ok_result'), o['transitions']))
        ck.bump('bubbling_outcomes', o['outcome'])
        key = {'nmanagers': o['nmanagers'], 'depth': o['depth'],
               'how': o['how'], 'exc': o['exc'], 'seed': o['seed']}
        good = (o['outcome'] in ('raised', 'raised-early')
                and o.get('carries') and not o['hung']
                and o['server_running'] and o['server_errors'] == 0)
        if not good:
            what = ('hang' if o['hung'] else
                    'returned-a-value' if o['outcome'] == 'returned' else
                    'message-lost' if not o.get('carries') else
                    'server-damaged')
            all_findings.append((
                f'bubbling:{what}:depth{o["depth"]}:{o["how"]}',
                f'exception {o["exc"]}({o["msg"]!r}) raised {o["depth"]} '
                f'levels below the root task with {o["nmanagers"]} manager(s)'
                f': client saw {o}', {'case': key, 'observed': o}, True))
        es = [e for e in o['errors_at_server'] if e[0] == o['mailbox']]
        blines.append(f'bubble {o["mailbox"]} {o["depth"]} {o["hops"]} 0 '
                      f'{1 if o["exc"] == "RuntimeError" else 0} 9')
        bexp.append((f'error {o["mailbox"]} 9' if es and es[0][1]
                     else f'impl:{o["errors_at_server"]}', key))
    for line, got in swallow_cases():
        blines.append(line)
        bexp.append((got, {'case': line}))
    ck.sample(bres[0])
    ck.sample(bres[-1])

    # ---- client side
    clines, cimpl, cfind, cstats = client_checks(ck.rng, thorough)
    for f in cfind:
        all_findings.append((f.sig, f.what, f.replay, f.found))
    stats.update(cstats)
    olines, oimpl, ofind = outgoing_checks()
    for f in ofind:
        all_findings.append((f.sig, f.what, f.replay, f.found))
    clines = clines + olines
    cimpl = cimpl + oimpl
    outs = ck.driver('server', blines + clines)
    for (exp, key), line, got in zip(bexp, blines, outs[:len(blines)]):
        ck.count(('bubble-model', line))
        if exp != got:
            all_findings.append((
                'correspondence:bubble',
                f'error path worker->manager->server: model says `{got}` for '
                f'`{line}`, the real nodes produced `{exp}`',
                {'case': key, 'broken': 'correspondence error path'}, False))
    for line, a, b in zip(clines, cimpl, outs[len(blines):]):
        ck.count(('recv', line))
        if a != b:
            all_findings.append((
                'correspondence:client-recv',
                {'recv': '_recv_handle_log_error',
                 'predrain': '_recv_log_error_until_empty',
                 'sendrecv': 'Compiler._send_recv',
                 'outgoing': 'ServerBase.send_outgoing'}.get(
                     line.split()[0], line.split()[0])
                + f': model `{b}` vs real `{a}` on `{line}`',
                {'sequence': line,
                              'broken': 'correspondence client recv'}, False))
    ck.coverage['client_side'] = dict(cstats)

    # ---- attached server
    afind, astats = attached_checks()
    for f in afind:
        all_findings.append((f.sig, f.what, f.replay, f.found))
    ck.coverage['attached_events'] = astats['attached_events']
    ck.coverage['evaluations'] += astats['attached_events']

    phases['bubbling_client_attached'] = round(_time.time() - t0, 1)
    ck.coverage['phase_seconds'] = phases
    # ---- verdicts
    seen = set()
    for sig, what, replay, found in all_findings:
        if sig in seen:
            continue
        seen.add(sig)
        if drift and 'AttributeError' in sig:
            raise InfraError(
                'the constructors create attributes the harness does not '
                f'fill: {drift}')
        if found and isinstance(replay.get('history'), list) \
                and not sig.startswith('attached'):
            try:
                small = ddmin(list(replay['history']),
                              lambda h: reproduces(h, sig))
                if reproduces(small, sig):
                    replay = dict(replay, history=small,
                                  found_as=replay['history'])
                    what += f'  [minimal history: {small}]'
            except Exception:
                pass
        ck.violation(sig, what, replay, found_input=found)
    ck.coverage['finding_signatures_seen'] = sorted(seen)
    ck.sample({'history': ['connect 0', 'submit 0 0', 'request 0 0',
                           'result 0 7'],
               'replies': ['', '', '', 'R.0.7']})
    if not proved:
        ck.violation(
            'proof-obligation', 'Lean obligations of Props/C13 do not check: '
            + (ck.proof_failure or '')[:400],
            {'broken': 'BqVerif.Props.C13', 'log': ck.proof_failure},
            found_input=False)
    ck.coverage['rule'] = (
        'one evaluation = one event delivered to the real DetachedServer '
        'through the real run loop, with replies, the five tables, running '
        'and closed connections compared with the Lean model and the replies '
        'compared with an independent automaton; distinct = distinct '
        'histories (nodes of the exhaustive history tree) plus distinct '
        'bubbling / client cases; every counted case exercises a handler')
    ck.assumptions += [
        'atomicity: one handler runs at a time (server handlers run on one '
        'thread); the outgoing thread is modelled as "drained after each '
        'handler" - its race with conn.close() is outside the model',
        'connections, uuids and message texts are abstracted to naturals '
        '(first-seen canonicalisation); schedule_tasks/broadcast abstracted '
        'to downSubmit/downCancel (C15)',
        'OS level (sockets, EOF delivery, BrokenPipeError in the outgoing '
        'thread) is not modelled: see design_notes/C13.md',
        'error bubbling: flat and 1-level manager topologies driven end to '
        'end; deeper manager trees by the induction throughManagers only',
    ]
