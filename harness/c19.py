"""C19 - cost functions and instantiation are faithful to circuit semantics.

Tie (A).  Seeded circuits over gates that the binary engine `bqskitrs`
implements natively, library gates it evaluates through the Python gate object
(openqudit expressions, composed gates) and harness-defined pure-Python gates
(`PyGivens`, `PyProxy`: no `_expr`, so every evaluation is a callback into
Python), radixes 2 and 3, widths 1-4; targets of the three kinds (unitary,
state, state system), random / phase-equal / perturbed; parameter points random
and at rational points of the unit circle.

For every (circuit, target, x) the values of the REAL generators
(`HilbertSchmidtCostGenerator`, `HilbertSchmidtResidualsGenerator`:
`get_cost`, `get_grad`, `get_cost_and_grad`, `__call__`, `calc_cost`,
`get_residuals`, `get_residuals_and_grad`) are compared with

  (1) an independent numpy reference computed from `circuit.get_unitary(x)` /
      `get_unitary_and_grad(x)` by the definitions stated in Model/Cost.lean
      (this oracle decides `found_input`; 1e-9),
  (2) the Lean model `bqdriver cost` evaluating the same formulas in exact
      rational arithmetic (on the float matrices read as exact dyadic
      rationals, and - at rational-circle points - on exactly rational circuit
      unitaries built by a Fraction simulator written here), through
      cost*(2-cost) = 1-|t|^2/K^2,
  (3) central finite differences of `get_cost` / `get_residuals`,
  (4) the same circuit with every gate wrapped in `PyProxy` (forces the
      callback path for gates the engine would evaluate natively).

`instantiate`: QFactor and Minimization x {Ceres+residuals, LBFGS+cost,
SciPy+cost}, 1-8 starts, all target kinds, through `Circuit.instantiate`,
`multi_start_instantiate` and the async variant on a stub runtime.  The per-start
results are captured by wrapping `<class>.instantiate`; checked: identity of the
returned object, structure text before/after (harness/circ_sim.py, parameters
blanked), finite parameters, the final parameters are exactly the candidate the
Lean `multiStart` selects for the engine's own key values, reference cost of the
result <= reference cost of every candidate (+1e-9) - including candidates that
are the untouched starting point.

`Circuit.instantiate` method selection and `Circuit.set_params` are compared
with the Lean `selectInst` / `setParams`.
"""
from __future__ import annotations

import asyncio
import contextlib
import math
import os
import random
import subprocess
import sys
import warnings
from fractions import Fraction

import numpy as np

from bqskit.ir.circuit import Circuit  # noqa: F401  (import order)
from bqskit.ir.gate import Gate
from bqskit.qis.unitary.unitarymatrix import UnitaryMatrix

from harness.common import Check, REPO, VERIF

TOL = 1e-9
FD_H = 1e-5
DENOM_BOUND = 4_000_000
CIRCLE = [  # rational points (cos, sin) of the unit circle
    (Fraction(1), Fraction(0)), (Fraction(0), Fraction(1)),
    (Fraction(3, 5), Fraction(4, 5)), (Fraction(4, 5), Fraction(3, 5)),
    (Fraction(-3, 5), Fraction(4, 5)), (Fraction(3, 5), Fraction(-4, 5)),
    (Fraction(5, 13), Fraction(12, 13)), (Fraction(12, 13), Fraction(-5, 13)),
    (Fraction(15, 17), Fraction(8, 17)), (Fraction(-8, 17), Fraction(15, 17)),
    (Fraction(-1), Fraction(0)), (Fraction(0), Fraction(-1)),
]


# ------------------------------------------------------------ python gates
class PyGivens(Gate):
    """A pure-Python gate (no `_expr`): Givens rotation with a phase between
    basis states `i`,`j` of a register with the given radixes; 2 parameters.

        U[i,i] = cos t,  U[i,j] = -e^{ip} sin t,  U[j,i] = e^{-ip} sin t,
        U[j,j] = cos t,  identity elsewhere.
    """

    _num_params = 2

    def __init__(self, radixes=(2,), i=0, j=1):
        self._radixes = tuple(radixes)
        self._num_qudits = len(self._radixes)
        self.i, self.j = i, j
        self._name = f'PyGivens({list(self._radixes)},{i},{j})'

    def _mats(self, params):
        t, p = float(params[0]), float(params[1])
        d = self.dim
        c, s = math.cos(t), math.sin(t)
        e = complex(math.cos(p), math.sin(p))
        i, j = self.i, self.j
        U = np.eye(d, dtype=np.complex128)
        U[i, i] = c
        U[i, j] = -e * s
        U[j, i] = np.conj(e) * s
        U[j, j] = c
        dt = np.zeros((d, d), dtype=np.complex128)
        dt[i, i] = -s
        dt[i, j] = -e * c
        dt[j, i] = np.conj(e) * c
        dt[j, j] = -s
        dp = np.zeros((d, d), dtype=np.complex128)
        dp[i, j] = -1j * e * s
        dp[j, i] = -1j * np.conj(e) * s
        return U, np.array([dt, dp])

    def get_unitary(self, params=[]):
        self.check_parameters(params)
        return UnitaryMatrix(self._mats(params)[0], self._radixes, False)

    def get_grad(self, params=[]):
        self.check_parameters(params)
        return self._mats(params)[1]

    def get_unitary_and_grad(self, params=[]):
        self.check_parameters(params)
        U, g = self._mats(params)
        return UnitaryMatrix(U, self._radixes, False), g

    def is_differentiable(self):
        return True

    def __eq__(self, o):
        return (type(o) is PyGivens and o._radixes == self._radixes
                and (o.i, o.j) == (self.i, self.j))

    def __hash__(self):
        return hash(('PyGivens', self._radixes, self.i, self.j))


class PyProxy(Gate):
    """Pure-Python wrapper around a library gate: the engine cannot recognise
    it, so it evaluates the wrapped gate's PYTHON definition by callback."""

    def __init__(self, gate):
        self.gate = gate
        self._radixes = tuple(gate.radixes)
        self._num_qudits = gate.num_qudits
        self._num_params = gate.num_params
        self._name = f'PyProxy({gate.name})'

    def get_unitary(self, params=[]):
        return self.gate.get_unitary(params)

    def get_grad(self, params=[]):
        return self.gate.get_grad(params)

    def get_unitary_and_grad(self, params=[]):
        return self.gate.get_unitary_and_grad(params)

    def is_differentiable(self):
        return True

    def __eq__(self, o):
        return type(o) is PyProxy and o.gate == self.gate

    def __hash__(self):
        return hash(('PyProxy', self.gate))


# ------------------------------------------------------------------- pool
def build_pool():
    """key -> (gate, tags).  tags: native (engine has its own implementation),
    oq (openqudit expression reached through the Python object), composed,
    python (harness-defined), exact (rational at rational-circle points),
    vu (VariableUnitaryGate: no gradient in the engine)."""
    import bqskit.ir.gates as G
    P: dict[str, tuple] = {}

    def add(key, gate, *tags):
        P[key] = (gate, frozenset(tags))

    add('U3', G.U3Gate(), 'native', 'exact')
    add('RX', G.RXGate(), 'native', 'exact')
    add('RY', G.RYGate(), 'native', 'exact')
    add('RZ', G.RZGate(), 'native', 'exact')
    add('U1', G.U1Gate(), 'native', 'exact')
    add('U2', G.U2Gate(), 'native')
    add('U8', G.U8Gate(), 'native')
    add('CRX', G.CRXGate(), 'native', 'exact')
    add('CRY', G.CRYGate(), 'native', 'exact')
    add('CRZ', G.CRZGate(), 'native', 'exact')
    add('RXX', G.RXXGate(), 'native', 'exact')
    add('RYY', G.RYYGate(), 'native', 'exact')
    add('RZZ', G.RZZGate(), 'native', 'exact')
    add('CNOT', G.CNOTGate(), 'native', 'exact')
    add('CZ', G.CZGate(), 'native', 'exact')
    add('H', G.HGate(), 'native')
    add('X', G.XGate(), 'native', 'exact')
    add('S', G.SGate(), 'native', 'exact')
    add('T', G.TGate(), 'native')
    add('SWAP', G.SwapGate(), 'native', 'exact')
    add('CSUM3', G.CSUMGate(3), 'native', 'exact')
    add('SHIFT3', G.ShiftGate(3), 'native', 'exact')
    add('H3', G.HGate(3), 'native')
    add('CLOCK3', G.ClockGate(3), 'native')
    add('MIX23', G.ConstantUnitaryGate(UnitaryMatrix(
        np.eye(6)[[1, 0, 2, 3, 5, 4]], [2, 3])), 'native', 'exact')
    add('VU1', G.VariableUnitaryGate(1), 'native', 'vu')
    add('VU1_3', G.VariableUnitaryGate(1, [3]), 'native', 'vu')
    add('VU2', G.VariableUnitaryGate(2), 'native', 'vu')
    add('VU23', G.VariableUnitaryGate(2, [2, 3]), 'native', 'vu')
    # library gates evaluated through the Python object
    add('CP', G.CPGate(), 'oq', 'exact')
    add('CU', G.CUGate(), 'oq')
    add('FSIM', G.FSIMGate(), 'oq')
    add('PXZ', G.PhasedXZGate(), 'oq')
    add('U1q', G.U1qGate(), 'oq')
    add('CCP', G.CCPGate(), 'oq')
    add('DIAG2', G.DiagonalGate(2), 'oq')
    add('PAULI1', G.PauliGate(1), 'oq')
    add('PAULIZ2', G.PauliZGate(2), 'oq')
    add('MPRY2', G.MPRYGate(2), 'oq')
    add('MPRZ2', G.MPRZGate(2), 'oq')
    add('ACP33', G.ArbitraryCPhaseGate([3, 3]), 'oq')
    add('ACP23', G.ArbitraryCPhaseGate([2, 3]), 'oq')
    add('RSU3_1', G.RSU3Gate(1), 'oq')
    # composed gates
    add('C(RZ)', G.ControlledGate(G.RZGate()), 'composed', 'exact')
    add('C3(U3)', G.ControlledGate(G.U3Gate(), 1, 3), 'composed', 'exact')
    add('C(RX)@3', G.ControlledGate(G.RXGate(), 1, 3, [2]), 'composed',
        'exact')
    add('Dg(U3)', G.DaggerGate(G.U3Gate()), 'composed', 'exact')
    add('Dg(CRY)', G.DaggerGate(G.CRYGate()), 'composed', 'exact')
    add('Tag(RXX)', G.TaggedGate(G.RXXGate(), 'c19'), 'composed', 'exact')
    add('Pow(RZ,3)', G.PowerGate(G.RZGate(), 3), 'composed', 'exact')
    add('Pow(U3,-2)', G.PowerGate(G.U3Gate(), -2), 'composed', 'exact')
    add('Frz(U3)', G.FrozenParameterGate(
        G.U3Gate(), {1: 2 * math.atan2(4, 3)}), 'composed', 'exact')
    add('Emb(U3)', G.EmbeddedGate(G.U3Gate(), 3, [0, 2]), 'composed', 'exact')
    sub = Circuit(2)
    sub.append_gate(G.U3Gate(), 0)
    sub.append_gate(G.CNOTGate(), (0, 1))
    sub.append_gate(G.RYGate(), 1)
    add('Blk(2)', G.CircuitGate(sub), 'composed', 'exact')
    sub3 = Circuit(2, [2, 3])
    sub3.append_gate(G.RZGate(), 0)
    sub3.append_gate(PyGivens((2, 3), 1, 5), (0, 1))
    add('Blk(23)', G.CircuitGate(sub3), 'composed', 'exact', 'python')
    # harness-defined pure-Python gates
    add('PyG2', PyGivens((2,), 0, 1), 'python', 'exact')
    add('PyG3', PyGivens((3,), 0, 2), 'python', 'exact')
    add('PyG23', PyGivens((2, 3), 1, 3), 'python', 'exact')
    add('PyG32', PyGivens((3, 2), 0, 5), 'python', 'exact')
    add('PyG22', PyGivens((2, 2), 1, 2), 'python', 'exact')
    add('Px(U3)', PyProxy(G.U3Gate()), 'python', 'exact')
    add('Px(RZZ)', PyProxy(G.RZZGate()), 'python', 'exact')
    add_variants(add, random.Random(POOL_SEED * 104729 + 19))
    return P


def add_variants(add, rng):
    """Round 4 (seeded C19-4 was missed: the pool held ONE FrozenParameterGate,
    built from an ascending dict).  Composed gates whose meaning depends on how
    their constructor arguments are written: frozen dicts in ascending /
    descending / arbitrary insertion order over inner gates with 2-8
    parameters, nestings of composed gates, control levels, level maps.  They
    take the non-native evaluation path; the oracles are the ones of every
    cost case (numpy definition from the gates' own unitaries, finite
    differences of get_cost / get_residuals, PyProxy re-evaluation)."""
    import bqskit.ir.gates as G
    inners = [('U3', G.U3Gate()), ('CU', G.CUGate()), ('FSIM', G.FSIMGate()),
              ('PXZ', G.PhasedXZGate()), ('U8', G.U8Gate()),
              ('PAULI1', G.PauliGate(1)), ('U2', G.U2Gate()),
              ('C(U3)', G.ControlledGate(G.U3Gate()))]

    def frz(name, g, order):
        n = g.num_params
        k = rng.randint(2, n - 1) if n >= 3 else 1
        idxs = rng.sample(range(n), k)
        if order == 'asc':
            idxs.sort()
        elif order == 'desc':
            idxs.sort(reverse=True)
        elif idxs == sorted(idxs) and k > 1:
            idxs[0], idxs[-1] = idxs[-1], idxs[0]
        fr = {i: round(rng.uniform(-3, 3), 3) for i in idxs}
        key = f'Frz[{order}]({name};' + ','.join(
            f'{i}={v}' for i, v in fr.items()) + ')'
        return key, G.FrozenParameterGate(g, fr)

    frozen = []
    for name, g in inners:
        for order in ('asc', 'desc', 'mixed'):
            key, fg = frz(name, g, order)
            add(key, fg, 'composed', 'variant')
            frozen.append((key, fg))
    # nestings: the outer gate's parameters are the inner frozen gate's
    for key, fg in rng.sample(frozen, 6):
        kind = rng.choice(['Dg', 'C', 'Pow', 'Tag'])
        if kind == 'Dg':
            add(f'Dg({key})', G.DaggerGate(fg), 'composed', 'variant')
        elif kind == 'C' and fg.num_qudits == 1:
            add(f'C({key})', G.ControlledGate(fg), 'composed', 'variant')
        elif kind == 'Pow':
            pw = rng.choice([2, -1, 3])
            add(f'Pow({key},{pw})', G.PowerGate(fg, pw), 'composed',
                'variant')
        else:
            add(f'Tag({key})', G.TaggedGate(fg, 'v'), 'composed', 'variant')
    add('C(RY)@3[1]', G.ControlledGate(G.RYGate(), 1, 3, [1]), 'composed',
        'variant')
    add('C(RZ)@3[0,2]', G.ControlledGate(G.RZGate(), 1, 3, [[0, 2]]),
        'composed', 'variant')
    add('CC(U3)', G.ControlledGate(G.U3Gate(), 2), 'composed', 'variant')
    add('C(U3)@23', G.ControlledGate(G.U3Gate(), 2, [2, 3], [[1], [0, 2]]),
        'composed', 'variant')
    add('Emb(RZ;3;1,2)', G.EmbeddedGate(G.RZGate(), 3, [1, 2]), 'composed',
        'variant')
    add('Emb(U3;3;2,0)', G.EmbeddedGate(G.U3Gate(), 3, [2, 0]), 'composed',
        'variant')
    add('Dg(Pow(U3,2))', G.DaggerGate(G.PowerGate(G.U3Gate(), 2)), 'composed',
        'variant')


POOL_SEED = 0
_POOL = None


def set_pool_seed(seed: int):
    global POOL_SEED, _POOL
    if seed != POOL_SEED or _POOL is None:
        POOL_SEED = seed
        _POOL = None


def pool():
    global _POOL
    if _POOL is None:
        _POOL = build_pool()
    return _POOL


# --------------------------------------------------------------- generators
def find_location(rng, radixes, gate_radixes):
    qs = list(range(len(radixes)))
    for _ in range(20):
        rng.shuffle(qs)
        loc, used = [], set()
        for r in gate_radixes:
            q = next((q for q in qs if q not in used and radixes[q] == r),
                     None)
            if q is None:
                break
            used.add(q)
            loc.append(q)
        else:
            return tuple(loc)
    return None


def gen_spec(rng, radixes, nops, keys):
    """A circuit spec: list of (pool key, location)."""
    P = pool()
    ops = []
    fitting = [k for k in keys if find_location(rng, radixes, P[k][0].radixes)]
    if not fitting:
        return ops
    for _ in range(nops):
        k = rng.choice(fitting)
        loc = find_location(rng, radixes, P[k][0].radixes)
        if loc is not None:
            ops.append((k, loc))
    return ops


def build_circuit(radixes, ops, proxy=False, proxy_keys=()):
    """proxy=True wraps every library gate in PyProxy; proxy_keys wraps only
    the gates with these pool keys."""
    P = pool()
    c = Circuit(len(radixes), list(radixes))
    for k, loc in ops:
        g = P[k][0]
        if (proxy or k in proxy_keys) and not isinstance(
                g, (PyProxy, PyGivens)):
            g = PyProxy(g)
        c.append_gate(g, loc)
    return c


def rand_unitary(nrng, dim):
    z = nrng.standard_normal((dim, dim)) + 1j * nrng.standard_normal((dim, dim))
    q, r = np.linalg.qr(z)
    d = np.diag(r)
    return q * (d / np.abs(d))


def rand_herm(nrng, dim):
    z = nrng.standard_normal((dim, dim)) + 1j * nrng.standard_normal((dim, dim))
    return (z + z.conj().T) / 2


def expm_herm(H, eps):
    w, v = np.linalg.eigh(H)
    return (v * np.exp(1j * eps * w)) @ v.conj().T


def gen_params(rng, n, mode):
    if mode == 'circle':
        out = []
        for _ in range(n):
            c, s = rng.choice(CIRCLE)
            out.append(2 * math.atan2(s, c))
        return np.array(out, dtype=np.float64)
    if mode == 'wide':
        return np.array([rng.uniform(-20, 20) for _ in range(n)])
    return np.array([rng.uniform(0, 2 * math.pi) for _ in range(n)])


# ------------------------------------------------------------------ targets
class Target:
    """kind in {'U','S','Y'}; carries both the bqskit object and the plain
    numpy data the reference formulas use."""

    def __init__(self, kind, radixes, T=None, psi=None, pairs=None):
        from bqskit.qis.state.state import StateVector
        from bqskit.qis.state.system import StateSystem
        self.kind = kind
        self.radixes = list(radixes)
        if kind == 'U':
            self.T = np.array(T, dtype=np.complex128)
            self.K = self.T.shape[0]
            self.obj = UnitaryMatrix(self.T, self.radixes, False)
        elif kind == 'S':
            self.psi = np.array(psi, dtype=np.complex128)
            self.obj = StateVector(self.psi, self.radixes, False)
        else:
            self.pairs = [(np.array(v, dtype=np.complex128),
                           np.array(w, dtype=np.complex128)) for v, w in pairs]
            self.K = len(self.pairs)
            # Tm = sum_j |w_j><v_j|   (computed here, not read from bqskit)
            self.T = sum(np.outer(w, v.conj()) for v, w in self.pairs)
            self.obj = StateSystem({
                StateVector(v, self.radixes, False):
                StateVector(w, self.radixes, False) for v, w in self.pairs})


def gen_target(rng, nrng, kind, flavour, radixes, U):
    dim = U.shape[0]
    phi = rng.uniform(0, 2 * math.pi)
    ph = complex(math.cos(phi), math.sin(phi))
    if flavour == 'rand':
        W = rand_unitary(nrng, dim)
    elif flavour == 'phase':
        W = ph * U
    else:
        eps = 10 ** rng.uniform(-4, -0.5)
        W = ph * U @ expm_herm(rand_herm(nrng, dim), eps)
    if kind == 'U':
        return Target('U', radixes, T=W)
    if kind == 'S':
        return Target('S', radixes, psi=W[:, 0])
    k = rng.randint(1, dim)
    V = rand_unitary(nrng, dim)[:, :k]
    if rng.random() < 0.4:
        V = np.eye(dim, dtype=np.complex128)[:, rng.sample(range(dim), k)]
    return Target('Y', radixes, pairs=[(V[:, j], W @ V[:, j])
                                       for j in range(k)])


# ------------------------------------------------------- numpy reference
def ref_values(tg: Target, U, dU):
    """The definitions of Model/Cost.lean in numpy.  Returns a dict with
    t, cost, grad, resid, jac (jac has shape (len(resid), nparams))."""
    U = np.asarray(U)
    dU = np.asarray(dU).reshape((-1,) + U.shape)
    n = U.shape[0]
    out = {}
    if tg.kind in 'UY':
        T, K = tg.T, tg.K
        t = np.vdot(T, U)
        dts = np.array([np.vdot(T, d) for d in dU])
        out['t'] = t
        out['K'] = K
        out['cost'] = 1 - abs(t) / K
        with np.errstate(all='ignore'):
            out['grad'] = -np.real(np.conj(t) * dts) / (K * abs(t))
        M = U @ T.conj().T - np.eye(n)
        out['resid'] = np.concatenate([M.real.ravel(), M.imag.ravel()])
        cols = []
        for d in dU:
            Md = d @ T.conj().T
            cols.append(np.concatenate([Md.real.ravel(), Md.imag.ravel()]))
        out['jac'] = (np.array(cols).T if cols
                      else np.zeros((2 * n * n, 0)))
    else:
        psi = tg.psi
        u0 = U[:, 0]
        t = np.vdot(psi, u0)
        dts = np.array([np.vdot(psi, d[:, 0]) for d in dU])
        out['t'] = t
        out['K'] = 1
        out['cost'] = 1 - abs(t) ** 2
        out['grad'] = -2 * np.real(np.conj(t) * dts)
        diff = u0 - psi
        out['resid'] = np.abs(diff) ** 2
        cols = [2 * np.real(np.conj(diff) * d[:, 0]) for d in dU]
        out['jac'] = np.array(cols).T if cols else np.zeros((n, 0))
    return out


# ------------------------------------------------------------ lean protocol
def q_of(x) -> str:
    if isinstance(x, Fraction):
        return str(x.numerator) if x.denominator == 1 else \
            f'{x.numerator}/{x.denominator}'
    a, b = float(x).as_integer_ratio()
    return str(a) if b == 1 else f'{a}/{b}'


def mat_tokens(M) -> str:
    """row-major `re im` tokens; M is a numpy complex array or a list of rows
    of (Fraction, Fraction)."""
    if isinstance(M, np.ndarray):
        flat = M.ravel()
        return ' '.join(f'{q_of(z.real)} {q_of(z.imag)}' for z in flat)
    return ' '.join(f'{q_of(re)} {q_of(im)}' for row in M for re, im in row)


def parse_q(s: str) -> Fraction:
    return Fraction(s)


def parse_qs(s: str) -> list[Fraction]:
    return [Fraction(x) for x in s.split()]


def lean_lines(tg: Target, U, dUs, exact=None):
    """Protocol lines for one case.  `exact` = dict with exact (Fraction)
    versions of T/psi/U/dU when available, else the float arrays are sent as
    exact dyadic rationals."""
    n = U.shape[0] if isinstance(U, np.ndarray) else len(U)
    if tg.kind in 'UY':
        T = exact['T'] if exact else tg.T
        head = f'ucost {n} {tg.K} | {mat_tokens(T)} | {mat_tokens(U)}'
        rhead = f'resid {n} | {mat_tokens(T)} | {mat_tokens(U)}'
        tail = ''.join(' | ' + mat_tokens(d) for d in dUs)
        return [head + tail, rhead + tail]
    psi = exact['psi'] if exact else tg.psi.reshape(-1, 1)
    if isinstance(U, np.ndarray):
        u0 = U[:, :1]
        du = [d[:, :1] for d in dUs]
    else:
        u0 = [[row[0]] for row in U]
        du = [[[row[0]] for row in d] for d in dUs]
    return [f'state {n} | {mat_tokens(psi)} | {mat_tokens(u0)}'
            + ''.join(' | ' + mat_tokens(d) for d in du)]


# -------------------------------------------------- exact (Fraction) circuits
def rationalise(M, tol=1e-13):
    """numpy complex matrix -> rows of (Fraction, Fraction), or None when an
    entry is not (within tol) a rational with denominator <= DENOM_BOUND.
    (Necessary, not sufficient: the caller checks exact unitarity.)"""
    out = []
    for row in np.asarray(M):
        r = []
        for z in row:
            pr = []
            for x in (z.real, z.imag):
                f = Fraction(float(x)).limit_denominator(DENOM_BOUND)
                if abs(float(f) - float(x)) > tol:
                    return None
                pr.append(f)
            r.append(tuple(pr))
        out.append(r)
    return out


def c_mul(a, b):
    return (a[0] * b[0] - a[1] * b[1], a[0] * b[1] + a[1] * b[0])


def x_matmul(A, B):
    n, k, m = len(A), len(B), len(B[0])
    out = []
    for i in range(n):
        row = []
        Ai = A[i]
        for j in range(m):
            re = Fraction(0)
            im = Fraction(0)
            for l in range(k):
                a = Ai[l]
                if a[0] == 0 and a[1] == 0:
                    continue
                b = B[l][j]
                re += a[0] * b[0] - a[1] * b[1]
                im += a[0] * b[1] + a[1] * b[0]
            row.append((re, im))
        out.append(row)
    return out


def x_is_unitary(G) -> bool:
    n = len(G)
    Gd = [[(G[j][i][0], -G[j][i][1]) for j in range(n)] for i in range(n)]
    P = x_matmul(Gd, G)
    one, zero = (Fraction(1), Fraction(0)), (Fraction(0), Fraction(0))
    return all(P[i][j] == (one if i == j else zero)
               for i in range(n) for j in range(n))


def exact_gates(circuit, x):
    """Per operation (location, exact gate matrix, [exact derivatives]) as
    Gaussian rationals, or None when some gate is not exactly rational at
    this point.  Only the GATE level is rationalised here; the circuit product
    is computed by the Lean model (`xcirc`, Model/CostCirc.lean)."""
    out = []
    k = 0
    for op in circuit:
        p = list(x[k:k + op.num_params])
        k += op.num_params
        G = rationalise(op.gate.get_unitary(p).numpy)
        if G is None or not x_is_unitary(G):
            # limit_denominator finds a fraction within 1e-13 of ANY real
            # number; only an exactly unitary result is a rational gate
            return None
        gs = []
        if op.num_params:
            # d/dtheta of an entry is a polynomial in the same (cos, sin)
            # values with one extra factor 1/2: its denominator divides
            # 2 * (common denominator of G)^2
            den = 1
            for row in G:
                for a, b in row:
                    den = math.lcm(den, a.denominator, b.denominator)
            for dG in op.gate.get_grad(p):
                r = rationalise(dG, 2e-15)
                if r is None or any((2 * den * den) % z.denominator
                                    for row in r for e in row for z in e):
                    return None
                gs.append(r)
        out.append((list(op.location), G, gs))
    return out


def parse_cmat(txt: str, n: int, m: int):
    """`re im re im ...` (exact) -> numpy complex (n, m)."""
    v = [float(Fraction(x)) for x in txt.split()]
    a = np.array(v[0::2]) + 1j * np.array(v[1::2])
    return a.reshape(n, m)


# ---------------------------------------------------------------- the check
class Run:
    def __init__(self, ck: Check):
        self.ck = ck
        self.rng = ck.rng
        self.nrng = np.random.default_rng(ck.rng.getrandbits(63))
        self.lean_req: list[tuple] = []
        self.x_req: list[tuple] = []
        self.maxdiff: dict[str, float] = {}

    # ....................................................... bookkeeping
    def note(self, key, d):
        d = float(d)
        if not (d <= self.maxdiff.get(key, 0.0)):
            self.maxdiff[key] = d

    def bad(self, sig, what, replay, found=True):
        self.ck.violation(sig, what, replay, found_input=found)

    def close(self, a, b, tol=TOL):
        a = np.asarray(a, dtype=np.float64)
        b = np.asarray(b, dtype=np.float64)
        if a.shape != b.shape:
            return False, float('inf')
        if a.size == 0:
            return True, 0.0
        if not (np.all(np.isfinite(a)) and np.all(np.isfinite(b))):
            return bool(np.array_equal(a, b, equal_nan=True)), float('nan')
        d = float(np.max(np.abs(a - b) / np.maximum(1.0, np.abs(b))))
        return d <= tol, d

    # ........................................................ cost cases
    def cost_case(self, radixes, ops, x, kind, flavour, tag, exact_pt=False):
        ck = self.ck
        from bqskit.ir.opt.cost.functions import (
            HilbertSchmidtCostGenerator, HilbertSchmidtResidualsGenerator)
        circuit = build_circuit(radixes, ops)
        assert len(x) == circuit.num_params
        has_vu = any('vu' in pool()[k][1] for k, _ in ops)
        U1 = np.array(circuit.get_unitary(x))
        if has_vu:      # VariableUnitaryGate has no gradient definition
            U, dU = U1, np.zeros((0,) + U1.shape)
        else:
            U, dU = circuit.get_unitary_and_grad(x)
            U = np.array(U)
            dU = np.array(dU).reshape((-1,) + U.shape)
        tg = gen_target(self.rng, self.nrng, kind, flavour, radixes, U)
        replay = {'section': 'cost', 'radixes': list(radixes),
                  'ops': [[k, list(l)] for k, l in ops],
                  'params': [float(v) for v in x], 'target_kind': kind,
                  'flavour': flavour,
                  'target': _target_dump(tg)}
        okU, dd = self.close(U1.real, U.real)
        if not okU:
            self.bad('reference-get_unitary-vs-get_unitary_and_grad',
                     'circuit.get_unitary and get_unitary_and_grad disagree '
                     '(the reference of this check is inconsistent: C06 '
                     'territory)', replay, found=False)
            return
        ref = ref_values(tg, U, dU)
        cg = HilbertSchmidtCostGenerator().gen_cost(circuit, tg.obj)
        rg = HilbertSchmidtResidualsGenerator().gen_cost(circuit, tg.obj)
        name = {'U': 'unitary', 'S': 'state', 'Y': 'system'}[kind]
        key = (tuple(radixes), tuple(ops), tuple(np.round(x, 9)), kind,
               flavour)
        ck.count(key)
        ck.bump('cases_by_target', f'{name}/{flavour}')
        ck.bump('cases_by_engine_path', tag)
        ck.bump('cases_by_dim', str(U.shape[0]))
        for k, _ in ops:
            ck.bump('gate_uses', k)
        xs = [float(v) for v in x]

        gfail: list = []    # gradient-type mismatches, diagnosed together

        def chk(sig, got, want, what, tol=TOL, grad=False):
            ok, d = self.close(got, want, tol)
            if ok:
                self.note(sig, d if d == d else 0.0)
            if not ok and grad:
                gfail.append((f'{sig}-{name}', f'{what}: max rel. difference '
                              f'{d:.3g}'))
            elif not ok:
                self.bad(f'{sig}-{name}', f'{what} ({name} target, engine '
                         f'path {tag}): engine value differs from the value '
                         'defined by the circuit\'s own unitary '
                         f'(max rel. difference {d:.3g})',
                         dict(replay, got=_dump(got), want=_dump(want)))
            return ok

        # ---- values
        c = cg.get_cost(xs)
        good = chk('cost-value', c, ref['cost'], 'get_cost')
        chk('cost-call', cg(xs), ref['cost'], 'CostFunction.__call__')
        chk('resid-get_cost', rg.get_cost(xs), ref['cost'],
            'HilbertSchmidtResiduals.get_cost')
        r = np.array(rg.get_residuals(xs))
        chk('resid-value', r, ref['resid'], 'get_residuals')
        chk('resid-call', np.array(rg(xs)), ref['resid'],
            'ResidualsFunction.__call__')
        circuit.set_params(xs)
        chk('calc_cost', HilbertSchmidtCostGenerator().calc_cost(
            circuit, tg.obj), ref['cost'],
            'CostFunctionGenerator.calc_cost at circuit.params')
        # zero exactly when equal up to global phase
        if flavour == 'phase':
            ck.bump('phase_equal_cases')
            if not (abs(c) <= 1e-9):
                self.bad(f'cost-nonzero-at-phase-equal-{name}',
                         f'cost {c!r} is not 0 although the circuit equals '
                         f'the {name} target up to a global phase',
                         replay)
        if flavour == 'pert':
            ck.bump('perturbed_cases')
            if ref['cost'] > 1e-7 and not (c > 1e-9):
                self.bad(f'cost-zero-at-perturbed-{name}',
                         f'cost {c!r} although the circuit differs from the '
                         f'{name} target (definition {ref["cost"]!r})',
                         replay)
        # ---- gradients
        smooth = abs(ref['t']) / (ref['K'] if kind != 'S' else 1) > 1e-2 \
            or kind == 'S'
        if not has_vu and circuit.num_params > 0:
            if smooth:
                g = np.array(cg.get_grad(xs))
                chk('grad-value', g, ref['grad'], 'get_grad', grad=True)
                c2, g2 = cg.get_cost_and_grad(xs)
                chk('cost_and_grad-cost', c2, ref['cost'],
                    'get_cost_and_grad[0]')
                chk('cost_and_grad-grad', np.array(g2), ref['grad'],
                    'get_cost_and_grad[1]', grad=True)
                # finite differences of the engine's own get_cost
                fd = np.zeros(len(xs))
                for i in range(len(xs)):
                    xp = list(xs)
                    xm = list(xs)
                    xp[i] += FD_H
                    xm[i] -= FD_H
                    fd[i] = (cg.get_cost(xp) - cg.get_cost(xm)) / (2 * FD_H)
                okfd = np.all(np.abs(g - fd) <= 1e-7 + 1e-5 * np.abs(fd))
                if okfd:
                    self.note('grad-fd', float(np.max(np.abs(g - fd))))
                ck.bump('finite_difference_checks')
                if not okfd:
                    gfail.append((
                        f'grad-finite-difference-{name}',
                        'get_grad differs from central finite differences of '
                        f'the engine\'s own get_cost: grad {_dump(g)} fd '
                        f'{_dump(fd)}'))
            J = np.array(rg.get_grad(xs)).reshape(len(ref['resid']), -1)
            chk('resid-jac', J, ref['jac'], 'residuals get_grad (Jacobian)',
                grad=True)
            r2, J2 = rg.get_residuals_and_grad(xs)
            chk('resid_and_grad-resid', np.array(r2), ref['resid'],
                'get_residuals_and_grad[0]')
            chk('resid_and_grad-jac', np.array(J2).reshape(J.shape),
                ref['jac'], 'get_residuals_and_grad[1]', grad=True)
            r3, J3 = rg.get_cost_and_grad(xs)
            chk('resid-cost_and_grad', np.array(J3).reshape(J.shape),
                ref['jac'], 'DifferentiableResidualsFunction.'
                'get_cost_and_grad[1]', grad=True)
            chk('resid-cost_and_grad-r', np.array(r3), ref['resid'],
                'DifferentiableResidualsFunction.get_cost_and_grad[0]')
            # finite differences of residuals (one random parameter)
            i = self.rng.randrange(len(xs))
            xp = list(xs)
            xm = list(xs)
            xp[i] += FD_H
            xm[i] -= FD_H
            fdr = (np.array(rg.get_residuals(xp))
                   - np.array(rg.get_residuals(xm))) / (2 * FD_H)
            if not np.all(np.abs(J[:, i] - fdr) <= 1e-7 + 1e-5 * np.abs(fdr)):
                gfail.append((f'jac-finite-difference-{name}',
                              'residual Jacobian differs from central finite '
                              'differences of the engine\'s own '
                              f'get_residuals (parameter {i})'))
        # ---- proxy differential: every gate through the Python callback
        if tag != 'python' and self.rng.random() < 0.5:
            pc = build_circuit(radixes, ops, proxy=True)
            pcg = HilbertSchmidtCostGenerator().gen_cost(pc, tg.obj)
            ok, d = self.close(pcg.get_cost(xs), c)
            self.note('proxy-cost', d if d == d else 0.0)
            ck.bump('proxy_differentials')
            if not ok:
                self.bad(f'native-vs-python-path-cost-{name}',
                         'the engine returns different costs for the same '
                         'circuit when its gates are evaluated natively and '
                         'through the Python gate objects', replay)
            if not has_vu and circuit.num_params and smooth:
                ok, d = self.close(np.array(pcg.get_grad(xs)),
                                   np.array(cg.get_grad(xs)))
                if not ok:
                    gfail.append((
                        f'native-vs-python-path-grad-{name}',
                        'the engine returns different gradients for the same '
                        'circuit when its gates are evaluated natively and '
                        'through the Python gate objects'))
        if gfail:
            self.diagnose_grad(radixes, ops, xs, tg, ref, smooth, gfail,
                               replay, name, tag)
        # ---- Lean model on the same matrices (exact dyadic rationals)
        n = U.shape[0]
        if n <= 9 and good:
            sel = list(range(len(dU)))
            self.rng.shuffle(sel)
            sel = sorted(sel[:3]) if not has_vu else []
            if n > 6:
                sel = sel[:1]
            lines = lean_lines(tg, U, [dU[i] for i in sel])
            nat = {'cost': c, 'resid': r}
            if sel and not has_vu and smooth and not gfail:
                nat['grad'] = np.array(cg.get_grad(xs))[sel]
                nat['jac'] = np.array(rg.get_grad(xs)).reshape(
                    len(ref['resid']), -1)[:, sel]
            self.lean_req.append((lines, tg, nat, replay, name, tag, None))
        # ---- exactly rational circuit at a rational-circle point
        if exact_pt and n <= 12:
            self.exact_case(circuit, radixes, ops, xs, kind, tag,
                            grads=not gfail)

    # ........................................... which gate is responsible?
    def diagnose_grad(self, radixes, ops, xs, tg, ref, smooth, gfail, replay,
                      name, tag):
        """A gradient of the engine is wrong for this case (the numpy oracle
        and/or finite differences of the engine's own values say so).  Find
        the natively implemented gates whose replacement by the Python
        definition (PyProxy) repairs it, to give the report a specific
        signature."""
        from bqskit.ir.opt.cost.functions import (
            HilbertSchmidtCostGenerator, HilbertSchmidtResidualsGenerator)
        P = pool()
        native = sorted({k for k, _ in ops if 'native' in P[k][1]
                         and P[k][0].num_params > 0})

        def grads_ok(keys):
            c2 = build_circuit(radixes, ops, proxy_keys=set(keys))
            cg2 = HilbertSchmidtCostGenerator().gen_cost(c2, tg.obj)
            rg2 = HilbertSchmidtResidualsGenerator().gen_cost(c2, tg.obj)
            ok = True
            if smooth:
                ok = self.close(np.array(cg2.get_grad(xs)), ref['grad'])[0]
            J = np.array(rg2.get_grad(xs)).reshape(len(ref['resid']), -1)
            return ok and self.close(J, ref['jac'])[0]
        culprit = None
        for k in native:
            if grads_ok([k]):
                culprit = [k]
                break
        if culprit is None and len(native) > 1 and grads_ok(native):
            culprit = list(native)
            for k in native:
                rest = [x for x in culprit if x != k]
                if rest and grads_ok(rest):
                    culprit = rest
        detail = '; '.join(f'{s}: {w}' for s, w in gfail[:4])
        if culprit:
            self.ck.bump('gradient_mismatch_attributed', '+'.join(culprit))
            self.bad('engine-gradient-wrong-native-' + '+'.join(culprit),
                     'the gradient / Jacobian the engine returns is wrong '
                     'when it evaluates ' + '+'.join(
                         type(P[k][0]).__name__ for k in culprit)
                     + ' with its native implementation and right when the '
                     'same gate is evaluated through its Python definition '
                     f'({name} target): {detail}',
                     dict(replay, failures=gfail, culprit=culprit))
        else:
            self.bad(gfail[0][0],
                     f'gradient mismatch ({name} target, engine path {tag}), '
                     f'not attributable to one native gate: {detail}',
                     dict(replay, failures=gfail))

    # ..................................................... exact-point case
    def exact_case(self, circuit, radixes, ops, xs, kind, tag, grads=True):
        """Queue two `xcirc` requests (exactly phase-equal / exactly perturbed
        target).  The model multiplies the circuit out, derives the target
        from ITS exact unitary and returns both; the engine is evaluated on
        that target in settle_lean."""
        ck = self.ck
        gates = exact_gates(circuit, xs)
        if gates is None:
            ck.bump('exact_points', 'not-rational')
            return
        n = circuit.dim
        has_vu = any('vu' in pool()[k][1] for k, _ in ops)
        nparams = sum(len(gs) for _, _, gs in gates)
        nd = 0 if has_vu else min(3, nparams)
        # derivative matrices are only needed for the first nd parameters
        left = nd
        optxt = []
        for loc, G, gs in gates:
            use = gs[:left]
            left -= len(use)
            optxt.append(' | ' + ','.join(map(str, loc)) + f' {len(use)} '
                         + mat_tokens(G)
                         + ''.join(' ' + mat_tokens(d) for d in use))
        name = {'U': 'unitary', 'S': 'state', 'Y': 'system'}[kind]
        for flavour in ('phase', 'pert'):
            c_, s_ = self.rng.choice(CIRCLE)
            cols = None
            if kind == 'Y':
                cols = sorted(self.rng.sample(range(n), self.rng.randint(1, n)))
            pert = '-'
            if flavour == 'pert':
                # W <- W.G with G an exact Givens rotation of columns ca, cb:
                # |<W, U>| drops below K for every target kind
                a_, b_ = self.rng.choice(CIRCLE[2:10])
                ca = 0 if kind == 'S' else (
                    self.rng.choice(cols) if cols else self.rng.randrange(n))
                cb = self.rng.choice([j for j in range(n) if j != ca])
                pert = f'{q_of(a_)} {q_of(b_)} {ca} {cb}'
            line = (f'xcirc {kind} {nd} | ' + ' '.join(map(str, radixes))
                    + f' | {q_of(c_)} {q_of(s_)} | {pert} | '
                    + (' '.join(map(str, cols)) if cols else '-')
                    + ''.join(optxt))
            replay = {'section': 'exact', 'radixes': list(radixes),
                      'ops': [[k, list(l)] for k, l in ops], 'params': xs,
                      'target_kind': kind, 'flavour': flavour,
                      'lambda': [str(c_), str(s_)], 'pert': pert,
                      'cols': cols}
            ck.bump('exact_points', f'{name}/{flavour}')
            ck.count(('exact', tuple(radixes), tuple(ops), tuple(xs), kind,
                      flavour))
            self.x_req.append((line, circuit, xs, kind, flavour, cols, nd,
                               grads, replay, name, tag))

    # ......................................................... lean settle
    def judge(self, kind, K, nat, reps, exact_fl):
        """Engine values `nat` against the model's exact replies."""
        problems = []
        if kind in 'UY':
            g = [x.strip() for x in reps[0].split('|')]
            abs2, gap = Fraction(g[1]), Fraction(g[2])
            gn = parse_qs(g[3]) if len(g) > 3 else []
            c = nat['cost']
            d = abs(c * (2 - c) - float(gap))
            self.note('lean-cost-gap', d)
            if d > 4 * TOL:
                problems.append(f'cost*(2-cost)={c * (2 - c)!r} vs exact '
                                f'1-|t|^2/K^2={float(gap)!r}')
            if exact_fl == 'phase' and gap != 0:
                problems.append(f'model: 1-|t|^2/K^2 = {gap} is not 0 at '
                                'an exactly phase-equal target')
            if exact_fl == 'pert' and not gap > 0:
                problems.append('model: 1-|t|^2/K^2 is not > 0 at an '
                                'exactly perturbed target')
            if 'grad' in nat and abs2 > 0:
                want = np.array([float(x) for x in gn]) / (
                    K * math.sqrt(float(abs2)))
                ok, d = self.close(nat['grad'], want, 4 * TOL)
                self.note('lean-grad', d if d == d else 0)
                if not ok:
                    problems.append(f'grad {nat["grad"]} vs exact {want}')
            g2 = [x.strip() for x in reps[1].split('|')]
            rr = np.array([float(Fraction(x)) for x in g2[0].split()])
            ok, d = self.close(nat['resid'], rr, 4 * TOL)
            self.note('lean-resid', d if d == d else 0)
            if not ok:
                problems.append('residuals differ from the exact ones')
            if 'jac' in nat:
                for col, txt in enumerate(g2[2:]):
                    jc = np.array([float(Fraction(x)) for x in txt.split()])
                    ok, d = self.close(nat['jac'][:, col], jc, 4 * TOL)
                    if not ok:
                        problems.append(f'Jacobian column {col} differs')
        else:
            g = [x.strip() for x in reps[0].split('|')]
            cost = Fraction(g[1])
            gs = parse_qs(g[2]) if g[2] else []
            rr = np.array([float(x) for x in parse_qs(g[3])])
            d = abs(nat['cost'] - float(cost))
            self.note('lean-state-cost', d)
            if d > 4 * TOL:
                problems.append(f'state cost {nat["cost"]!r} vs exact '
                                f'{float(cost)!r}')
            if exact_fl == 'phase' and cost != 0:
                problems.append(f'model: state cost {cost} is not 0 at an '
                                'exactly phase-equal target')
            if exact_fl == 'pert' and not cost > 0:
                problems.append('model: state cost is not > 0 at an exactly '
                                'perturbed target')
            if 'grad' in nat:
                ok, d = self.close(nat['grad'],
                                   [float(x) for x in gs], 4 * TOL)
                if not ok:
                    problems.append('state gradient differs')
            ok, d = self.close(nat['resid'], rr, 4 * TOL)
            if not ok:
                problems.append('state residuals differ')
            if 'jac' in nat:
                for col, txt in enumerate(g[5:]):
                    jc = np.array([float(Fraction(x)) for x in txt.split()])
                    ok, d = self.close(nat['jac'][:, col], jc, 4 * TOL)
                    if not ok:
                        problems.append(f'Jacobian column {col} differs')
        return problems

    def settle_lean(self):
        ck = self.ck
        lines = [l for req in self.lean_req for l in req[0]]
        out = ck.driver('cost', lines) if lines else []
        if len(out) != len(lines):
            raise RuntimeError('bqdriver cost: reply count mismatch')
        pos = 0
        for req_lines, tg, nat, replay, name, tag, exact_fl in self.lean_req:
            reps = out[pos:pos + len(req_lines)]
            pos += len(req_lines)
            ck.bump('traces_validated_against_impl')
            if any(rp == 'bad-op' for rp in reps):
                raise RuntimeError('bqdriver cost rejected a request: '
                                   + req_lines[0][:200])
            problems = self.judge(tg.kind, getattr(tg, 'K', 1), nat, reps,
                                  exact_fl)
            if problems:
                # the numpy oracle has already judged this case; a surviving
                # disagreement is between the engine and the Lean formulas
                self.bad(f'cost-model-correspondence-{name}',
                         f'engine values and the Lean cost model disagree '
                         f'({name}, path {tag}): ' + '; '.join(problems[:3])
                         + ' (correspondence bqdriver cost <-> bqskitrs no '
                         'longer checks)',
                         dict(replay, request=[l[:300] for l in req_lines],
                              reply=[r[:300] for r in reps]),
                         found=False)
        self.lean_req = []
        self.settle_exact()

    def settle_exact(self):
        """xcirc replies: the model's exact circuit unitary against
        circuit.get_unitary, then the engine on the model's exact target."""
        from bqskit.ir.opt.cost.functions import (
            HilbertSchmidtCostGenerator, HilbertSchmidtResidualsGenerator)
        ck = self.ck
        if not self.x_req:
            return
        out = ck.driver('cost', [r[0] for r in self.x_req])
        if len(out) != len(self.x_req):
            raise RuntimeError('bqdriver cost: reply count mismatch')
        for rep, (line, circuit, xs, kind, flavour, cols, nd, grads, replay,
                  name, tag) in zip(out, self.x_req):
            if rep == 'bad-op':
                raise RuntimeError('bqdriver cost rejected: ' + line[:300])
            ck.bump('traces_validated_against_impl')
            parts = [x.strip() for x in rep.split('#')]
            n = circuit.dim
            radixes = list(circuit.radixes)
            Um = parse_cmat(parts[0], n, n)
            Wf = parse_cmat(parts[1], n, n)
            Uf = np.array(circuit.get_unitary(xs))
            dU = float(np.max(np.abs(Um - Uf)))
            self.note('model-circuit-unitary', dU)
            if dU > 1e-10:
                self.bad('model-circuit-product-vs-get_unitary',
                         'the model\'s ordered product of the embedded gate '
                         'matrices (Model/CostCirc.lean) differs from '
                         'circuit.get_unitary (C06 territory; the exact '
                         'reference of this check is unusable)',
                         dict(replay, request=line[:400]), found=False)
                continue
            if kind == 'U':
                tg = Target('U', radixes, T=Wf)
            elif kind == 'S':
                tg = Target('S', radixes, psi=Wf[:, 0])
            else:
                E = np.eye(n, dtype=np.complex128)
                tg = Target('Y', radixes,
                            pairs=[(E[:, j], Wf[:, j]) for j in cols])
            cg = HilbertSchmidtCostGenerator().gen_cost(circuit, tg.obj)
            rg = HilbertSchmidtResidualsGenerator().gen_cost(circuit, tg.obj)
            nat = {'cost': cg.get_cost(xs),
                   'resid': np.array(rg.get_residuals(xs))}
            if nd and flavour == 'pert' and grads:
                nat['grad'] = np.array(cg.get_grad(xs))[:nd]
                nat['jac'] = np.array(rg.get_grad(xs)).reshape(
                    len(nat['resid']), -1)[:, :nd]
            if flavour == 'phase' and not abs(nat['cost']) <= TOL:
                self.bad(f'cost-nonzero-at-exact-phase-equal-{name}',
                         f'cost {nat["cost"]!r} is not 0 although the target '
                         'is exactly a phase multiple of the circuit\'s '
                         f'exact unitary ({name})', replay)
            problems = self.judge(kind, getattr(tg, 'K', 1), nat, parts[2:4],
                                  flavour)
            if problems:
                self.bad(f'cost-model-correspondence-{name}',
                         f'engine values and the Lean cost model disagree at '
                         f'an exact point ({name}, path {tag}): '
                         + '; '.join(problems[:3]) + ' (correspondence '
                         'bqdriver cost <-> bqskitrs no longer checks)',
                         dict(replay, request=line[:400], reply=rep[:400]),
                         found=False)
        self.x_req = []


def _dump(a):
    a = np.asarray(a)
    if a.size > 24:
        return {'shape': list(a.shape), 'head': a.ravel()[:24].tolist()}
    return a.tolist()


def _cplx(a):
    a = np.asarray(a)
    return [[float(z.real), float(z.imag)] for z in a.ravel()]


def _target_dump(tg: Target):
    if tg.kind == 'U':
        return {'T': _cplx(tg.T)} if tg.T.size <= 81 else {'dim': tg.K}
    if tg.kind == 'S':
        return {'psi': _cplx(tg.psi)}
    return {'pairs': [[_cplx(v), _cplx(w)] for v, w in tg.pairs[:6]]}


# ------------------------------------------------------------------ sections
def section_costs(R: Run, ncases: int, nexact: int):
    rng = R.rng
    P = pool()
    keys_all = list(P)
    groups = {
        'native': [k for k in keys_all if 'native' in P[k][1]
                   and 'vu' not in P[k][1]],
        'native+vu': [k for k in keys_all if 'native' in P[k][1]],
        'oq': [k for k in keys_all if 'oq' in P[k][1] or 'native' in P[k][1]
               and 'vu' not in P[k][1]],
        'composed': [k for k in keys_all if 'composed' in P[k][1]
                     or k in ('U3', 'CNOT', 'RZ', 'CSUM3')],
        'python': [k for k in keys_all if 'python' in P[k][1]],
        'mixed': [k for k in keys_all if 'vu' not in P[k][1]],
    }
    exact_keys = [k for k in keys_all if 'exact' in P[k][1]]
    shapes = [[2], [3], [2, 2], [2, 3], [3, 2], [3, 3], [2, 2, 2], [2, 3, 2],
              [3, 2, 2], [2, 2, 3], [3, 3, 2], [2, 2, 2, 2], [2, 3, 2, 2],
              [3, 3, 3], [2, 2, 3, 3], [3, 3, 3, 3]]
    kinds = ['U', 'S', 'Y']
    flavours = ['rand', 'phase', 'pert']
    done = 0
    attempt = 0
    while done < ncases and attempt < 20 * ncases:
        attempt += 1
        tag = rng.choice(list(groups))
        radixes = rng.choice(shapes if done % 7 else shapes[:9])
        dim = math.prod(radixes)
        nops = rng.randint(1, 7 if dim <= 16 else 4)
        ops = gen_spec(rng, radixes, nops, groups[tag])
        if not ops:
            continue
        nparams = sum(P[k][0].num_params for k, _ in ops)
        if nparams > 40:
            continue
        mode = rng.choice(['rand', 'rand', 'wide', 'circle'])
        x = gen_params(rng, nparams, mode)
        kind = kinds[done % 3]
        flavour = flavours[(done // 3) % 3]
        R.cost_case(radixes, ops, x, kind, flavour, tag)
        done += 1
    # exactly rational circuits at rational-circle points
    done = 0
    attempt = 0
    while done < nexact and attempt < 20 * nexact:
        attempt += 1
        radixes = rng.choice(shapes[:8])
        nops = rng.randint(1, 4)
        ops = gen_spec(rng, radixes, nops, exact_keys)
        nparams = sum(P[k][0].num_params for k, _ in ops)
        if not ops or nparams > 8:
            continue
        x = gen_params(rng, nparams, 'circle')
        tags = set().union(*(P[k][1] for k, _ in ops))
        tag = ('python' if 'python' in tags else 'composed'
               if 'composed' in tags else 'native')
        R.cost_case(radixes, ops, x, kinds[done % 3], 'rand', tag,
                    exact_pt=True)
        done += 1
    R.settle_lean()


def section_corpus(R: Run):
    """Deterministic part, run first on every seed: every parameterised gate
    the engine implements natively, alone in a circuit, in both qudit orders,
    against a unitary and a state target (one gate = one culprit), plus one
    pure-Python gate.  This is where a per-gate disagreement between the
    engine and the Python definition shows up whatever the seed."""
    P = pool()
    for k in sorted(P):
        g, tags = P[k]
        if g.num_params == 0 or 'vu' in tags or not (
                'native' in tags or 'variant' in tags
                or k in ('PyG23', 'CP', 'C(RZ)')):
            continue
        nq = g.num_qudits
        locs = [tuple(range(nq))]
        if nq == 2 and g.radixes[0] == g.radixes[1]:
            locs.append((1, 0))
        for loc in locs:
            radixes = [0] * nq
            for q, r in zip(loc, g.radixes):
                radixes[q] = r
            for kind in ('U', 'S'):
                x = gen_params(R.rng, g.num_params, 'rand')
                R.cost_case(radixes, [(k, loc)], x, kind, 'rand',
                            'python' if 'python' in tags else
                            'native' if 'native' in tags else 'oq')
    R.settle_lean()


# .............................................................. instantiate
@contextlib.contextmanager
def spy_instantiate(classes, log):
    """Wrap `<class>.instantiate` to record (x0, result) of every start."""
    saved = {}
    for cls in classes:
        orig = cls.__dict__.get('instantiate')
        if orig is None:
            continue
        saved[cls] = orig

        def make(orig):
            def wrapped(self, circuit, target, x0):
                before = np.array(circuit.params, dtype=np.float64)
                res = orig(self, circuit, target, x0)
                after = np.array(circuit.params, dtype=np.float64)
                log.append((np.array(x0, dtype=np.float64).copy(),
                            np.array(res, dtype=np.float64).copy(),
                            bool(np.array_equal(before, after))))
                return res
            return wrapped
        cls.instantiate = make(orig)
    try:
        yield
    finally:
        for cls, orig in saved.items():
            cls.instantiate = orig


class _FakeRuntime:
    async def map(self, fn, *args, **kwargs):
        return [fn(*a) for a in zip(*args)]


@contextlib.contextmanager
def fake_runtime():
    import bqskit.runtime as rt
    saved = rt.get_runtime
    rt.get_runtime = lambda: _FakeRuntime()
    try:
        yield
    finally:
        rt.get_runtime = saved


def make_mixed_instantiater(inner, passthrough):
    """An Instantiater that returns the untouched start for the start indices
    in `passthrough` and delegates to `inner` otherwise."""
    from bqskit.ir.opt.instantiater import Instantiater

    class Mixed(Instantiater):
        def __init__(self):
            self.calls = 0

        def instantiate(self, circuit, target, x0):
            i = self.calls
            self.calls += 1
            if i in passthrough:
                return np.array(x0, dtype=np.float64)
            return inner.instantiate(circuit, target, x0)

        @staticmethod
        def is_capable(circuit):
            return True

        @staticmethod
        def get_violation_report(circuit):
            return ''

        @staticmethod
        def get_method_name():
            return 'mixed'
    return Mixed


def ref_cost(circuit, tg: Target, x):
    U = np.array(circuit.get_unitary(x))
    return float(ref_values(tg, U, np.zeros((0,) + U.shape))['cost'])


def section_instantiate(R: Run, nruns: int):
    from bqskit.ir.opt.cost.functions import (
        HilbertSchmidtCostGenerator, HilbertSchmidtResidualsGenerator)
    from bqskit.ir.opt.instantiater import Instantiater
    from bqskit.ir.opt.instantiaters import Minimization, QFactor
    from bqskit.ir.opt.minimizers import (CeresMinimizer, LBFGSMinimizer,
                                          ScipyMinimizer)
    from harness.circ_sim import Alphabet, Sim
    ck, rng = R.ck, R.rng
    P = pool()
    sim = Sim(Alphabet(), rng)
    min_keys = [k for k in P if 'vu' not in P[k][1] and k not in
                ('U8', 'PAULI1', 'PAULIZ2', 'DIAG2', 'CCP')]
    # QFactor's working domain (see section_qfactor_contract for the rest)
    qf_keys = ['VU1', 'VU1_3', 'VU2', 'VU23', 'RX', 'RY', 'U1', 'RXX',
               'H', 'CSUM3', 'H3']
    methods = ['ceres', 'lbfgs', 'scipy', 'qfactor', 'default', 'mixed',
               'copy', 'async', 'by-name']
    shapes = [[2], [3], [2, 2], [2, 3], [3, 2], [2, 2, 2], [3, 3]]
    argmin_lines = []
    argmin_meta = []
    for run in range(nruns):
        method = methods[run % len(methods)]
        radixes = rng.choice(shapes)
        use_qf = method == 'qfactor' or (
            method in ('by-name', 'async', 'copy') and rng.random() < 0.4)
        keys = qf_keys if use_qf else min_keys
        ops = gen_spec(rng, radixes, rng.randint(1, 5), keys)
        nparams = sum(P[k][0].num_params for k, _ in ops)
        if not ops or nparams == 0 or nparams > (90 if use_qf else 14) \
                or (method == 'scipy' and nparams > 6):
            continue
        circuit = build_circuit(radixes, ops)
        x_init = gen_params(rng, nparams, 'rand')
        circuit.set_params(x_init)
        kind = 'U' if use_qf else rng.choice(['U', 'U', 'S', 'Y'])
        flavour = rng.choice(['rand', 'phase', 'pert'])
        # the target is generated from the circuit at some OTHER point so that
        # phase/pert targets are reachable
        xt = gen_params(rng, nparams, 'rand')
        tg = gen_target(rng, R.nrng, kind, flavour, radixes,
                        np.array(circuit.get_unitary(xt)))
        starts = rng.randint(1, 8)
        seed = rng.randrange(1 << 30)
        kwargs = {}
        passthrough = set()
        if method == 'ceres':
            inst = Minimization(HilbertSchmidtResidualsGenerator(),
                                CeresMinimizer())
        elif method == 'lbfgs':
            inst = Minimization(HilbertSchmidtCostGenerator(),
                                LBFGSMinimizer())
        elif method == 'scipy':
            inst = Minimization(HilbertSchmidtCostGenerator(),
                                ScipyMinimizer())
        elif method == 'qfactor':
            inst = QFactor()
        elif method == 'mixed':
            inner = Minimization(HilbertSchmidtCostGenerator(),
                                 LBFGSMinimizer())
            passthrough = {i for i in range(starts) if rng.random() < 0.5}
            if not passthrough:
                passthrough = {rng.randrange(starts)}
            inst = make_mixed_instantiater(inner, passthrough)()
        elif method == 'default':
            inst = None
        elif method == 'by-name':
            inst = rng.choice(['QFactor', 'qfactor', 'QFACTOR'] if use_qf
                              else ['minimization', 'Minimization',
                                    'MINIMIZATION'])
        else:
            inst = QFactor() if use_qf else Minimization()
        before = sim.circ_text(circuit, zero_params=True)
        replay = {'section': 'instantiate', 'radixes': list(radixes),
                  'ops': [[k, list(l)] for k, l in ops],
                  'x_init': x_init.tolist(), 'method': method,
                  'inst': str(inst), 'starts': starts, 'seed': seed,
                  'target_kind': kind, 'flavour': flavour,
                  'target': _target_dump(tg),
                  'passthrough': sorted(passthrough)}
        log: list = []
        classes = [Minimization, QFactor]
        if method == 'mixed':
            classes = [type(inst)]
        orig_circuit = circuit
        try:
            with warnings.catch_warnings(), quiet_stderr():
                warnings.simplefilter('ignore')
                with spy_instantiate(classes, log):
                    if method == 'copy':
                        from bqskit.utils.random import seed_random_sources
                        seed_random_sources(seed)
                        pre_params = circuit.params.copy()
                        ret = inst.multi_start_instantiate(circuit, tg.obj,
                                                           starts)
                        if ret is circuit:
                            R.bad('multi_start_instantiate-returns-input',
                                  'multi_start_instantiate must return a '
                                  'copy', replay)
                        if not np.array_equal(circuit.params, pre_params) or \
                                sim.circ_text(circuit, True) != before:
                            R.bad('multi_start_instantiate-modifies-input',
                                  'multi_start_instantiate changed the '
                                  'circuit it was given', replay)
                        result = ret
                    elif method == 'async':
                        from bqskit.utils.random import seed_random_sources
                        seed_random_sources(seed)
                        with fake_runtime():
                            ret = asyncio.run(
                                inst.multi_start_instantiate_async(
                                    circuit, tg.obj, starts))
                        result = circuit
                        if ret is not circuit:
                            R.bad('instantiate-async-returns-other-object',
                                  'multi_start_instantiate_async did not '
                                  'return the circuit it was given', replay)
                    else:
                        ret = circuit.instantiate(
                            tg.obj, method=inst, multistarts=starts,
                            seed=seed, **kwargs)
                        result = circuit
                        if ret is not circuit:
                            R.bad('instantiate-returns-other-object',
                                  'Circuit.instantiate did not return self',
                                  replay)
        except BaseException as e:   # PanicException derives BaseException
            if isinstance(e, (KeyboardInterrupt, SystemExit)):
                raise
            R.bad(f'instantiate-raises-{type(e).__name__}-'
                  f'{"qfactor" if use_qf else method}-{kind}',
                  f'instantiate raised {type(e).__name__}: {str(e)[:200]} on '
                  'a valid circuit/target/method', replay)
            continue
        ck.count(('inst', tuple(radixes), tuple(ops), method, starts, seed,
                  kind, flavour))
        ck.bump('instantiate_runs', f'{method}/{"qf" if use_qf else "min"}')
        ck.bump('instantiate_starts', str(starts))
        ck.bump('instantiate_targets', f'{kind}/{flavour}')
        # structure
        after = sim.circ_text(result, zero_params=True)
        if after != before or sim.circ_text(orig_circuit, True) != before:
            R.bad('instantiate-structure-changed',
                  'instantiate changed the structure of the circuit '
                  '(gates/locations/radixes/cycles), not only parameters',
                  dict(replay, before=before, after=after))
        fin = np.array(result.params, dtype=np.float64)
        if len(fin) != nparams or not np.all(np.isfinite(fin)):
            R.bad('instantiate-nonfinite-params',
                  'instantiate left non-finite parameters or a wrong count',
                  dict(replay, params=_dump(fin)))
            continue
        # candidates
        if len(log) != starts:
            R.bad('instantiate-start-count',
                  f'{len(log)} per-start instantiations were run for '
                  f'multistarts={starts}', replay)
            continue
        cands = [e[1] for e in log]
        if not all(e[2] for e in log):
            R.bad('instantiater-instantiate-side-effect',
                  'Instantiater.instantiate (documented side-effect free) '
                  'changed the parameters of the circuit it was given',
                  replay)
        for i in passthrough:
            if not np.array_equal(log[i][0], log[i][1]):
                raise RuntimeError('mixed instantiater bookkeeping')
        fin_cost = ref_cost(result, tg, fin)
        cand_costs = [ref_cost(result, tg, c) for c in cands]
        ck.bump('instantiate_candidates', n=len(cands))
        worst = min(cand_costs)
        R.note('instantiate-final-minus-best', fin_cost - worst)
        if not fin_cost <= worst + TOL:
            R.bad('instantiate-not-least-cost',
                  f'the circuit was left with cost {fin_cost!r} although a '
                  f'candidate of cost {worst!r} had been found '
                  f'({starts} starts, {method})',
                  dict(replay, candidate_costs=cand_costs, final=fin_cost))
        for i in passthrough:
            ck.bump('instantiate_passthrough_starts')
            if not fin_cost <= cand_costs[i] + TOL:
                R.bad('instantiate-worse-than-start',
                      'final cost exceeds the cost of a start that was among '
                      'the candidates', replay)
        if not any(np.array_equal(fin, c) for c in cands):
            R.bad('instantiate-params-not-a-candidate',
                  'the final parameters are none of the per-start results',
                  dict(replay, final=_dump(fin)))
        # descent statistics (not a property clause)
        desc = sum(1 for e, cc in zip(log, cand_costs)
                   if cc <= ref_cost(result, tg, e[0]) + 1e-9)
        ck.bump('optimiser_descended_starts', n=desc)
        ck.bump('optimiser_total_starts', n=len(log))
        # the model's selection for the engine's own key values
        keyfn = HilbertSchmidtCostGenerator().gen_cost(result, tg.obj)
        keys_ = [float(keyfn(c)) for c in cands]
        if all(math.isfinite(k) for k in keys_):
            argmin_lines.append('argmin ' + ' '.join(q_of(k) for k in keys_))
            argmin_meta.append((cands, fin, keys_, replay))
        else:
            ck.bump('instantiate_nonfinite_keys')
    if argmin_lines:
        out = ck.driver('cost', argmin_lines)
        for rep, (cands, fin, keys_, replay) in zip(out, argmin_meta):
            ck.bump('traces_validated_against_impl')
            want = min(range(len(keys_)), key=lambda i: (keys_[i], i))
            if rep != str(want):
                R.bad('argmin-model-vs-definition',
                      f'Lean multiStart chose {rep}, first minimum is {want}',
                      dict(replay, keys=keys_), found=False)
            elif not np.array_equal(cands[int(rep)], fin):
                R.bad('instantiate-selection-correspondence',
                      'the parameters left in the circuit are not the '
                      f'candidate #{rep} that sorted(key=cost)[0] selects for '
                      'the engine\'s own key values (correspondence '
                      'multiStart <-> multi_start_instantiate_inplace no '
                      'longer checks)', dict(replay, keys=keys_),
                      found=False)


def section_minimize(R: Run, nruns: int):
    """Circuit.minimize(cost, minimizer=...): sets the parameters to what the
    minimizer returns for (cost, circuit.params); nothing else changes."""
    from bqskit.ir.opt.cost.functions import (
        HilbertSchmidtCostGenerator, HilbertSchmidtResidualsGenerator)
    from bqskit.ir.opt.minimizers import (CeresMinimizer, LBFGSMinimizer,
                                          ScipyMinimizer)
    from harness.circ_sim import Alphabet, Sim
    ck, rng = R.ck, R.rng
    P = pool()
    sim = Sim(Alphabet(), rng)
    keys = [k for k in P if 'vu' not in P[k][1] and k not in
            ('U8', 'PAULI1', 'PAULIZ2', 'DIAG2', 'CCP')]
    for run in range(nruns):
        radixes = rng.choice([[2], [3], [2, 2], [2, 3], [2, 2, 2]])
        ops = gen_spec(rng, radixes, rng.randint(1, 4), keys)
        nparams = sum(P[k][0].num_params for k, _ in ops)
        which = ['ceres', 'lbfgs', 'scipy', 'default'][run % 4]
        if not ops or nparams == 0 or nparams > (5 if which == 'scipy'
                                                   else 12):
            continue
        circuit = build_circuit(radixes, ops)
        x0 = gen_params(rng, nparams, 'rand')
        circuit.set_params(x0)
        kind = rng.choice(['U', 'S', 'Y'])
        tg = gen_target(rng, R.nrng, kind, rng.choice(['rand', 'pert']),
                        radixes, np.array(circuit.get_unitary(
                            gen_params(rng, nparams, 'rand'))))
        resid = which in ('ceres', 'default')
        gen = (HilbertSchmidtResidualsGenerator() if resid
               else HilbertSchmidtCostGenerator())
        cost = gen.gen_cost(circuit, tg.obj)
        kwargs = {}
        if which != 'default':
            kwargs['minimizer'] = {'ceres': CeresMinimizer, 'lbfgs':
                                   LBFGSMinimizer, 'scipy': ScipyMinimizer
                                   }[which]()
        mini = kwargs.get('minimizer') or CeresMinimizer()
        replay = {'section': 'minimize', 'radixes': list(radixes),
                  'ops': [[k, list(l)] for k, l in ops], 'x0': x0.tolist(),
                  'minimizer': which, 'target_kind': kind,
                  'target': _target_dump(tg)}
        before = sim.circ_text(circuit, zero_params=True)
        c0 = ref_cost(circuit, tg, x0)
        try:
            with quiet_stderr():
                want = np.array(mini.minimize(cost, x0), dtype=np.float64)
                ret = circuit.minimize(cost, **kwargs)
        except BaseException as e:
            if isinstance(e, (KeyboardInterrupt, SystemExit)):
                raise
            R.bad(f'minimize-raises-{type(e).__name__}-{which}',
                  f'Circuit.minimize raised {type(e).__name__}: '
                  f'{str(e)[:200]}', replay)
            continue
        ck.count(('minimize', tuple(radixes), tuple(ops), which, kind,
                  tuple(np.round(x0, 9))))
        ck.bump('minimize_runs', which)
        fin = np.array(circuit.params, dtype=np.float64)
        if ret is not None or sim.circ_text(circuit, True) != before:
            R.bad('minimize-structure-changed',
                  'Circuit.minimize changed the structure of the circuit or '
                  'returned something', replay)
        if len(fin) != nparams or not np.all(np.isfinite(fin)):
            R.bad('minimize-nonfinite-params',
                  'Circuit.minimize left non-finite parameters', replay)
            continue
        if not np.array_equal(fin, want):
            R.bad('minimize-params-not-minimizer-result',
                  'after Circuit.minimize(cost) the parameters are not what '
                  'minimizer.minimize(cost, circuit.params) returns', replay)
        c1 = ref_cost(circuit, tg, fin)
        ck.bump('minimize_descended', str(bool(c1 <= c0 + 1e-9)))


def section_qfactor_contract(R: Run):
    """QFactor outside its working domain: is_capable says yes, the
    documented signature accepts the target - what happens?"""
    import bqskit.ir.gates as G
    from bqskit.ir.opt.instantiaters import QFactor
    ck = R.ck
    probes = [
        ('state-target', [2], [('VU1', (0,))], 'S'),
        ('statesystem-target', [2], [('VU1', (0,))], 'Y'),
        ('U3Gate', [2], [('U3', (0,))], 'U'),
        ('VariableUnitaryGate', [2], [('VU1', (0,))], 'U'),
    ]
    for label, radixes, ops, kind in probes:
        circuit = build_circuit(radixes, ops)
        U = np.array(circuit.get_unitary(
            gen_params(R.rng, circuit.num_params, 'rand')))
        tg = gen_target(R.rng, R.nrng, kind, 'phase', radixes, U)
        capable = QFactor.is_capable(circuit)
        p0 = circuit.params.copy()
        try:
            with quiet_stderr():
                ret = circuit.instantiate(tg.obj, method='qfactor',
                                          multistarts=2, seed=7)
            out = 'ok' if ret is circuit else 'returned-other'
        except BaseException as e:
            if isinstance(e, (KeyboardInterrupt, SystemExit)):
                raise
            out = type(e).__name__
        ck.bump('qfactor_contract', f'{label}:capable={capable}:{out}')
        ck.count(('qfactor-contract', label))
        if capable and out != 'ok':
            R.bad(f'qfactor-{label}-{out}',
                  f'QFactor.is_capable(circuit) is True and the documented '
                  f'signature accepts the target, but Circuit.instantiate('
                  f'method="qfactor") raises {out} ({label}); parameters '
                  f'unchanged: {np.array_equal(p0, circuit.params)}',
                  {'section': 'qfactor-contract', 'probe': label,
                   'radixes': radixes, 'ops': [[k, list(l)] for k, l in ops],
                   'target_kind': kind})


# ................................................................ selection
def section_select(R: Run, ncases: int):
    from bqskit.ir.opt.instantiater import Instantiater
    from bqskit.ir.opt.instantiaters import (Minimization, QFactor,
                                             instantiater_order)
    from bqskit.ir.gates import VariableUnitaryGate
    from bqskit.qis.unitary import LocallyOptimizableUnitary
    ck, rng = R.ck, R.rng
    P = pool()
    chosen: list = []

    def rec(self, circuit, target, num_starts):
        chosen.append(type(self))
    saved = {}
    for cls in {Instantiater, *instantiater_order}:
        if 'multi_start_instantiate_inplace' in cls.__dict__:
            saved[cls] = cls.__dict__['multi_start_instantiate_inplace']
            cls.multi_start_instantiate_inplace = rec
    lines, meta = [], []
    names = ['qfactor', 'QFactor', 'QFACTOR', 'minimization', 'Minimization',
             'MiNiMiZaTiOn', 'minimisation', 'ceres', 'qfactor2', 'q',
             'minimizatión', 'Kfactor', 'QFACTORİ']

    class Given(Instantiater):
        cap = True

        def instantiate(self, circuit, target, x0):
            return x0

        @staticmethod
        def is_capable(circuit):
            return Given.cap

        @staticmethod
        def get_violation_report(circuit):
            return 'given: not capable'

        @staticmethod
        def get_method_name():
            return 'given'
    saved[Given] = Given.__dict__.get('multi_start_instantiate_inplace')
    Given.multi_start_instantiate_inplace = rec
    try:
        for _ in range(ncases):
            radixes = rng.choice([[2], [2, 2], [2, 3], [3], [2, 2, 2]])
            style = rng.choice(['lo', 'vu', 'any', 'nonlo', 'empty'])
            if style == 'lo':
                keys = ['U3', 'RX', 'RY', 'U1', 'H', 'CSUM3', 'RXX']
            elif style == 'vu':
                keys = ['VU1', 'VU2', 'VU23', 'VU1_3', 'U3', 'H']
            elif style == 'nonlo':
                keys = ['VU1', 'VU2', 'CNOT', 'RZ', 'X', 'VU1_3', 'SHIFT3']
            else:
                keys = list(P)
            ops = [] if style == 'empty' else gen_spec(
                rng, radixes, rng.randint(1, 4), keys)
            circuit = build_circuit(radixes, ops)
            gs = sorted(circuit.gate_set, key=lambda g: g.name)
            caps = ' '.join(
                f'{int(isinstance(g, VariableUnitaryGate))},'
                f'{int(isinstance(g, LocallyOptimizableUnitary))}'
                for g in gs)
            mk = rng.choice(['auto', 'name', 'name', 'given', 'other'])
            if mk == 'auto':
                method, mtxt = None, 'auto'
            elif mk == 'name':
                s = rng.choice(names)
                method, mtxt = s, f'name {s}'
            elif mk == 'given':
                Given.cap = rng.random() < 0.6
                method, mtxt = Given(), f'given {int(Given.cap)}'
            else:
                method = rng.choice([3, 2.5, ('qfactor',), ['minimization'],
                                     b'qfactor', Minimization, QFactor])
                mtxt = 'other'
            chosen.clear()
            # one case in four: a target of the wrong dimension (safe here:
            # no optimiser runs, multi_start_instantiate_inplace is a recorder)
            trad = list(radixes)
            if rng.random() < 0.25:
                trad = rng.choice([trad + [2], trad[:-1] or [3],
                                   [3] * len(trad) if 2 in trad
                                   else [2] * len(trad)])
            tdim = math.prod(trad)
            tk = rng.choice('USY')
            if tk == 'U':
                tgt = UnitaryMatrix(np.eye(tdim), trad, False)
            else:
                from bqskit.qis.state.state import StateVector
                from bqskit.qis.state.system import StateSystem
                e0 = StateVector(np.eye(tdim)[:, 0], trad, False)
                tgt = e0 if tk == 'S' else StateSystem({e0: e0})
            p0 = circuit.params.copy()
            try:
                with warnings.catch_warnings():
                    warnings.simplefilter('ignore')
                    ret = circuit.instantiate(tgt, method=method)
                if len(chosen) != 1:
                    impl = f'?? {chosen}'
                elif chosen[0] is Given:
                    impl = 'given'
                else:
                    impl = f'entry {list(instantiater_order).index(chosen[0])}'
                if ret is not circuit:
                    impl += ' not-self'
            except ValueError:
                impl = 'err value'
            except TypeError:
                impl = 'err type'
            except Exception as e:
                impl = f'err {type(e).__name__}'
            if impl.startswith('err') and (
                    chosen or not np.array_equal(p0, circuit.params)):
                impl += ' after-side-effect'
            # direct oracle: the documented rule, from the live classes
            caps_ok = [c.is_capable(circuit) for c in instantiater_order]
            if mk == 'auto':
                want = next((f'entry {i}' for i, ok in enumerate(caps_ok)
                             if ok), 'err value')
            elif mk == 'name':
                idx = next((i for i, c in enumerate(instantiater_order)
                            if c.get_method_name().lower() == method.lower()),
                           None)
                want = ('err value' if idx is None or not caps_ok[idx]
                        else f'entry {idx}')
            elif mk == 'given':
                want = 'given' if Given.cap else 'err value'
            else:
                want = 'err type'
            if not want.startswith('err') and tdim != circuit.dim:
                want = 'err value'      # documented ValueError (e23425b)
                ck.bump('selection_wrong_dimension_targets', tk)
            lines.append(f'select {caps} | {mtxt} | {tdim} {circuit.dim}')
            meta.append((impl, want, {
                'section': 'select', 'radixes': list(radixes),
                'ops': [[k, list(l)] for k, l in ops], 'method': repr(method),
                'gate_caps': caps, 'target_kind': tk,
                'target_radixes': trad}))
            ck.count(('select', tuple(radixes), tuple(ops), mtxt, tk, tdim))
            ck.bump('selection_cases', mk)
            ck.bump('selection_outcomes', impl)
    finally:
        for cls, fn in saved.items():
            if fn is None:
                del cls.multi_start_instantiate_inplace
            else:
                cls.multi_start_instantiate_inplace = fn
    out = ck.driver('cost', lines)
    for line, rep, (impl, want, replay) in zip(lines, out, meta):
        ck.bump('traces_validated_against_impl')
        if impl != want:
            R.bad('instantiate-method-selection',
                  f'Circuit.instantiate selected "{impl}" where the '
                  f'documented rule gives "{want}"',
                  dict(replay, request=line, model=rep))
        elif rep != impl:
            R.bad('select-correspondence',
                  f'Lean selectInst gives "{rep}", Circuit.instantiate '
                  f'"{impl}" (correspondence selectInst <-> '
                  'Circuit.instantiate no longer checks)',
                  dict(replay, request=line), found=False)


# ............................................................... set_params
def section_setparams(R: Run, ncases: int):
    from harness.circ_sim import SCALE, Alphabet, Sim
    ck, rng = R.ck, R.rng
    P = pool()
    sim = Sim(Alphabet(), rng)
    keys = [k for k in P if P[k][0].num_params <= 8]
    lines, meta = [], []
    for _ in range(ncases):
        radixes = rng.choice([[2], [2, 2], [2, 3], [3, 2, 2], [2, 2, 2, 2],
                              [3, 3], [2, 3, 2]])
        ops = gen_spec(rng, radixes, rng.randint(0, 8), keys)
        circuit = build_circuit(radixes, ops)
        n = circuit.num_params
        old = [rng.randrange(-4096, 4096) for _ in range(n)]
        circuit.set_params([v / SCALE for v in old])
        text0 = sim.circ_text(circuit)
        zero0 = sim.circ_text(circuit, zero_params=True)
        mal = rng.random() < 0.2
        m = n if not mal else max(0, n + rng.choice([-2, -1, 1, 2, 5]))
        if mal and m == n:
            m = n + 1
        new = [rng.randrange(-4096, 4096) for _ in range(m)]
        vec = [v / SCALE for v in new]
        arg = rng.choice([vec, tuple(vec), np.array(vec, dtype=np.float64)])
        replay = {'section': 'setparams', 'radixes': list(radixes),
                  'ops': [[k, list(l)] for k, l in ops], 'old': old,
                  'new': new}
        Ubefore = None
        if not mal and circuit.dim <= 36 and n:
            Ubefore = np.array(circuit.copy().get_unitary(vec))
        try:
            circuit.set_params(arg)
            impl = sim.circ_text(circuit)
        except ValueError:
            impl = 'err value'
        except TypeError:
            impl = 'err type'
        lines.append(f'setparams {text0} | ' + ' '.join(map(str, new)))
        # direct oracles (no model involved)
        want_ok = not mal
        if want_ok:
            got = [int(round(float(p) * SCALE)) for p in circuit.params]
            k = 0
            per_op = True
            for op in circuit:
                if [int(round(float(p) * SCALE)) for p in op.params] != \
                        new[k:k + op.num_params]:
                    per_op = False
                k += op.num_params
            if impl.startswith('err') or got != new or not per_op:
                R.bad('set_params-values',
                      'after set_params(p), circuit.params / the operations '
                      'in iteration order do not carry p', replay)
            if sim.circ_text(circuit, zero_params=True) != zero0:
                R.bad('set_params-structure-changed',
                      'set_params changed gates/locations/cycles', replay)
            if Ubefore is not None and np.max(np.abs(
                    np.array(circuit.get_unitary()) - Ubefore)) > 1e-9:
                R.bad('set_params-unitary',
                      'get_unitary() after set_params(p) differs from '
                      'get_unitary(p)', replay)
        else:
            if impl != 'err value' or sim.circ_text(circuit) != text0:
                R.bad('set_params-wrong-length-accepted',
                      f'set_params with {m} values on a circuit with {n} '
                      'parameters must raise ValueError and change nothing',
                      replay)
        meta.append((impl, replay))
        lines.append(f'params {text0}')
        meta.append((f'{n} | ' + ' '.join(map(str, old)), replay))
        ck.count(('setparams', tuple(radixes), tuple(ops), tuple(new)))
        ck.bump('setparams_cases', 'malformed' if mal else 'valid')
    out = ck.driver('cost', lines)
    for line, rep, (impl, replay) in zip(lines, out, meta):
        ck.bump('traces_validated_against_impl')
        if rep.strip() != impl.strip():
            R.bad('set_params-correspondence',
                  'Lean setParams/params and Circuit.set_params/params '
                  'disagree (correspondence no longer checks)',
                  dict(replay, request=line[:400], impl=impl[:400],
                       model=rep[:400]), found=False)


# ................................................................ malformed
@contextlib.contextmanager
def quiet_stderr():
    """Silence fd 2 (Rust panic messages of the engine) for a moment."""
    sys.stderr.flush()
    saved = os.dup(2)
    null = os.open(os.devnull, os.O_WRONLY)
    os.dup2(null, 2)
    try:
        yield
    finally:
        os.dup2(saved, 2)
        os.close(null)
        os.close(saved)


DIM_PROBES = [
    # (target kind, qudits of the target, method) for a 2-qubit circuit
    ('U', 1, 'default'), ('U', 3, 'default'), ('S', 1, 'default'),
    ('S', 3, 'default'), ('Y', 1, 'default'), ('Y', 3, 'default'),
    ('U', 1, 'lbfgs'), ('S', 1, 'scipy'), ('U', 1, 'qfactor'),
    ('U', 3, 'by-name'),
]


def _dim_probe_target(kind, nq, seed):
    from bqskit.qis.state.state import StateVector
    from bqskit.qis.state.system import StateSystem
    nrng = np.random.default_rng(seed)
    dim = 2 ** nq
    W = rand_unitary(nrng, dim)
    if kind == 'U':
        return UnitaryMatrix(W, [2] * nq, False)
    if kind == 'S':
        return StateVector(W[:, 0], [2] * nq, False)
    E = np.eye(dim, dtype=np.complex128)
    return StateSystem({StateVector(E[:, j], [2] * nq, False):
                        StateVector(W[:, j], [2] * nq, False)
                        for j in range(min(2, dim))})


def _dim_mismatch_child(conn, kind, nq, method, seed):
    """Runs in a forked child: before /repo e23425b the engine panicked
    inside the optimiser callback and killed the interpreter (SIGABRT)."""
    from bqskit.ir.gates import U3Gate, CNOTGate, VariableUnitaryGate
    from bqskit.ir.opt.cost.functions import HilbertSchmidtCostGenerator
    from bqskit.ir.opt.instantiaters import Minimization
    from bqskit.ir.opt.minimizers import LBFGSMinimizer, ScipyMinimizer
    os.dup2(os.open(os.devnull, os.O_WRONLY), 2)
    try:
        import resource
        resource.setrlimit(resource.RLIMIT_CORE, (0, 0))
    except Exception:
        pass
    c = Circuit(2)
    if method == 'qfactor':
        c.append_gate(VariableUnitaryGate(1), 0)
        c.append_gate(VariableUnitaryGate(2), (0, 1))
    else:
        c.append_gate(U3Gate(), 0)
        c.append_gate(CNOTGate(), (0, 1))
        c.append_gate(U3Gate(), 1)
    m = {'default': None, 'qfactor': 'qfactor', 'by-name': 'Minimization',
         'lbfgs': Minimization(HilbertSchmidtCostGenerator(),
                               LBFGSMinimizer()),
         'scipy': Minimization(HilbertSchmidtCostGenerator(),
                               ScipyMinimizer())}[method]
    p0 = np.array(c.params)
    try:
        c.instantiate(_dim_probe_target(kind, nq, seed), method=m,
                      multistarts=2)
        out = 'RETURNED'
    except ValueError:
        out = 'VALUEERROR'
    except BaseException as e:
        out = 'OTHER ' + type(e).__name__
    if not np.array_equal(p0, np.array(c.params)):
        out += ' params-changed'
    conn.send(out)


def dim_probe(kind, nq, method, seed):
    import multiprocessing as mp
    ctx = mp.get_context('fork')
    rx, tx = ctx.Pipe(duplex=False)
    pr = ctx.Process(target=_dim_mismatch_child,
                     args=(tx, kind, nq, method, seed))
    pr.start()
    tx.close()
    pr.join(180)
    if pr.is_alive():
        pr.kill()
        return 'timeout'
    if pr.exitcode == 0 and rx.poll():
        return rx.recv()
    return f'exit {pr.exitcode}'


def section_malformed(R: Run):
    """Inputs outside the domain of the property: what the engine does is
    recorded; documented error contracts are checked."""
    from bqskit.ir.opt.cost.functions import HilbertSchmidtCostGenerator
    from bqskit.ir.gates import U3Gate, CNOTGate
    ck, rng = R.ck, R.rng
    c = Circuit(2)
    c.append_gate(U3Gate(), 0)
    c.append_gate(CNOTGate(), (0, 1))
    T = UnitaryMatrix(rand_unitary(R.nrng, 4), [2, 2], False)
    cg = HilbertSchmidtCostGenerator().gen_cost(c, T)
    for n in (0, 1, 2, 4, 7):
        x = [rng.uniform(0, 6) for _ in range(n)]
        try:
            with quiet_stderr():
                v = cg.get_cost(x)
            out = 'accepted' if math.isfinite(v) else 'nonfinite'
        except BaseException as e:
            if isinstance(e, (KeyboardInterrupt, SystemExit)):
                raise
            out = type(e).__name__
        ck.bump('malformed_param_length', f'{n}-of-3:{out}')
    for bad in (None, [1, 'a', 2], 3.0):
        try:
            cg(bad)
            out = 'accepted'
        except TypeError:
            out = 'TypeError'
        except BaseException as e:
            out = type(e).__name__
        ck.bump('malformed_call_args', out)
        if out != 'TypeError':
            R.bad('cost-call-accepts-non-sequence',
                  f'CostFunction.__call__({bad!r}) must raise TypeError, got '
                  f'{out}', {'arg': repr(bad)})
    for kw, want in [({'multistarts': 0}, ValueError),
                     ({'multistarts': -3}, ValueError),
                     ({'seed': 'x'}, ValueError),
                     ({'method': 'nope'}, ValueError),
                     ({'method': 7}, TypeError)]:
        p0 = c.params.copy()
        try:
            c.instantiate(T, **kw)
            out = 'returned'
        except want:
            out = 'ok'
        except BaseException as e:
            out = type(e).__name__
        ck.bump('malformed_instantiate_args', f'{kw}:{out}')
        if out != 'ok' or not np.array_equal(p0, c.params):
            R.bad('instantiate-argument-contract',
                  f'Circuit.instantiate(**{kw}) must raise {want.__name__} '
                  f'and leave the circuit alone, got {out}', {'kwargs': str(kw)})
    # documented (and since /repo e23425b implemented): ValueError if the
    # target dimension does not match.  Every probe runs in a forked child
    # because without that check the engine aborts the interpreter.
    names = {'U': 'unitary', 'S': 'state', 'Y': 'system'}
    for kind, nq, method in DIM_PROBES:
        status = dim_probe(kind, nq, method, rng.randrange(1 << 30))
        ck.bump('dimension_mismatch_instantiate',
                f'{names[kind]}/{nq}q/{method}:{status}')
        ck.count(('dim-probe', kind, nq, method))
        if status != 'VALUEERROR':
            how = ('aborts-process' if status.startswith('exit') else
                   status.lower().replace(' ', '-'))
            R.bad(f'instantiate-target-dimension-mismatch-{names[kind]}-'
                  f'{how}',
                  'Circuit.instantiate documents "ValueError: If target '
                  'dimension doesn\'t match with circuit": a 2-qubit circuit '
                  f'instantiated (method {method}) against a {nq}-qubit '
                  f'{names[kind]} target ends with "{status}" (forked child)',
                  {'section': 'dimension-mismatch', 'target_kind': kind,
                   'target_qubits': nq, 'method': method, 'status': status})


# ---------------------------------------------------------------------- run
def run(ck: Check):
    from translate import instorder
    thorough = ck.tier == 'thorough'
    import time
    phases = {}
    t0 = time.time()
    table = instorder.generate()
    ck.coverage['instantiater_order'] = [list(e) for e in table['entries']]
    ck.coverage['selection_expressions'] = [list(e) for e in
                                            table['selections']]
    proved = ck.lean_obligations()
    phases['translate+lean'] = round(time.time() - t0, 1)
    os.environ.setdefault('RUST_BACKTRACE', '0')
    set_pool_seed(ck.seed)
    R = Run(ck)
    only_sig = None
    if ck.replay_path:
        # a replay re-runs the recorded workload (same seed and tier: every
        # case derives from the seed) and reports the recorded signature only
        import json
        import random
        body = json.loads(open(ck.replay_path).read())
        rp = body.get('replay', body)
        only_sig = body.get('signature')
        ck.seed = int(body.get('seed', ck.seed))
        ck.tier = body.get('tier', ck.tier)
        thorough = ck.tier == 'thorough'
        ck.rng = random.Random(ck.seed * 1000003 + int(ck.pid[1:]))
        set_pool_seed(ck.seed)
        R = Run(ck)
        if rp.get('section') in ('cost', 'exact') and 'ops' in rp:
            print(f'replay: {rp["section"]} case {rp["ops"]} params '
                  f'{rp["params"]} target {rp["target_kind"]}')
    scale = 16 if thorough else 1
    for name, fn in [
            ('corpus', lambda: section_corpus(R)),
            ('costs', lambda: section_costs(R, 150 * scale, 36 * scale)),
            ('instantiate', lambda: section_instantiate(R, 72 * scale)),
            ('minimize', lambda: section_minimize(R, 24 * scale)),
            ('qfactor-contract', lambda: section_qfactor_contract(R)),
            ('select', lambda: section_select(R, 160 * scale)),
            ('set_params', lambda: section_setparams(R, 120 * scale)),
            ('malformed', lambda: section_malformed(R))]:
        t0 = time.time()
        fn()
        phases[name] = round(time.time() - t0, 1)
    ck.coverage['phases_s'] = phases
    if only_sig is not None:
        ck.violations = [v for v in ck.violations
                         if v['signature'] == only_sig]
        ck.known_hits = {k: v for k, v in ck.known_hits.items()
                         if __import__('re').fullmatch(k, only_sig)}
        print(f'replay of {only_sig}: '
              + ('reproduced' if ck.violations or ck.known_hits
                 else 'not reproduced'))
    ck.coverage['max_differences'] = {k: float(f'{v:.3g}')
                                      for k, v in sorted(R.maxdiff.items())}
    if not proved:
        # (B) obligation broke: look for an input on which the real selection
        # departs from the documented rule (section_select already did) and
        # report the obligation
        log = ck.proof_failure or ''
        errs = [l.strip() for l in log.splitlines()
                if l.startswith('error:') and 'build failed' not in l
                and 'Lean exited' not in l]
        ck.violation(
            'proof-obligation', 'Lean obligations of Props/C19 do not check: '
            + (' | '.join(errs)[:500] if errs else log[-500:])
            + ' (regenerated table: ' + str(table)[:300] + ')',
            {'broken': 'BqVerif.Props.C19', 'log': ck.proof_failure,
             'instantiater_order': table},
            found_input=False)
    ck.coverage['rule'] = (
        'cost case = one (circuit, parameter vector, target) on which every '
        'public evaluation method of both generators is compared with the '
        'numpy definition, finite differences, the PyProxy re-evaluation and '
        '(dim <= 9) the Lean formulas in exact arithmetic; exact case = the '
        'same at a rational-circle point with exactly rational unitaries and '
        'exactly phase-equal / perturbed targets; instantiate run = one '
        'call with captured per-start candidates; selection / set_params '
        'case = one call compared with the documented rule and the Lean '
        'model. distinct = distinct canonical inputs')
    ck.assumptions += [
        'the binary engine bqskitrs is compared, never modelled: the Lean '
        'model states the FORMULAS its observable values must equal; the '
        'tie is sampling (this harness), not proof',
        'optimiser trajectories and convergence are not modelled: '
        'Instantiater.instantiate is "returns some parameter vector"',
        'floating point: engine values are compared with exact values with '
        'tolerance 1e-9 (cost through cost*(2-cost) = 1-|t|^2/K^2)',
        'the arg-min theorem needs a total order on the keys: float costs '
        'without NaN (NaN keys are counted, never observed)',
        'residual definitions (Re/Im of U.T^dagger - 1; |u_i - psi_i|^2 for '
        'states) are established by measurement of the engine and stated in '
        'Model/Cost.lean; the /repo docstrings only say "based on the '
        'Hilbert-Schmidt inner product"',
        'gate matrices are the Python gate objects\' (C18 decides their '
        'correctness); circuit.get_unitary is the reference (C06)',
        'multi_start_instantiate_async is exercised on a stub runtime whose '
        'map() runs sequentially',
    ]
