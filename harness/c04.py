"""C04 - Circuit editing calls have their documented effect on program order."""
from harness import circ_check


def run(ck):
    circ_check.run(ck, 'C04')
    ck.assumptions += [
        'gate-level inverse (Gate.get_inverse) is an input of the model '
        '(decided by C18); the model checks the structural claim only',
        'surround()\'s choice of region is heuristic: used as a generator of '
        'regions only',
    ]
