"""In-process network simulation of the REAL BQSKit runtime nodes (C07, C12, C15).

Nothing of the runtime's logic is re-implemented here.  Real `AttachedServer`,
`DetachedServer`, `Manager` and `Worker` objects are created with
`object.__new__` (their `__init__` would open sockets, start threads and
processes), their connections are `FakeConn`s feeding per-link FIFO channels,
and every transition of the simulated system runs unmodified repo code:

  deliver src->dst   worker : one iteration of the real `Worker.recv_incoming`
                     server / manager : the real `ServerBase.run` loop on a
                       selector that yields exactly this one event (so the
                       `try/except/finally` of `run`, `handle_system_error` and
                       the shutdown paths are live), then the real
                       `send_outgoing` forwarder drains `self.outgoing`
  step worker        one iteration of the real `Worker._loop`
                       (`_try_step_next_ready_task` = `_get_next_ready_task`
                       + one coroutine step + await/completion/error handling)
  client call        the real `Compiler.submit/result/status/cancel/close`
                       (split in a send phase and a reply phase; the client
                       is blocked in between, exactly like the synchronous
                       `_send_recv` of the real client)

Task bodies are programs of a small DSL (see `run_prog`) executed as real
coroutines through the real `get_runtime().submit/map/cancel/next`.

A seeded scheduler picks the next enabled transition; the schedule (list of
transition labels) together with the scenario replays a run exactly.
"""
from __future__ import annotations

import ast
import sys
import collections
import inspect
import logging
import queue
import random
import textwrap
import types
from threading import Lock
from typing import Any

from bqskit.ir.circuit import Circuit  # noqa: F401  (import order)
from bqskit.compiler.basepass import BasePass
from bqskit.compiler.compiler import Compiler
from bqskit.compiler.passdata import PassData
from bqskit.compiler.status import CompilationStatus
import bqskit.runtime.worker as wmod
import bqskit.runtime.base as bmod
import bqskit.runtime.detached as dmod
import bqskit.runtime.manager as mmod
import bqskit.runtime.attached as amod
from bqskit.runtime.address import RuntimeAddress
from bqskit.runtime.base import RuntimeEmployee
from bqskit.runtime.direction import MessageDirection as D
from bqskit.runtime.message import RuntimeMessage as M
from bqskit.runtime.result import RuntimeResult
from bqskit.runtime.task import RuntimeTask
from bqskit.runtime.worker import Worker

logging.getLogger('bqskit').addHandler(logging.NullHandler())
logging.getLogger('bqskit').propagate = False


class Block(BaseException):
    """The calling thread would block (worker queue / client recv)."""


class Yield(BaseException):
    """The server loop asks its selector for the next event."""


class StopRun(BaseException):
    """The prescribed schedule ends while a worker step is preempted."""


class DSLRaise(Exception):
    """Raised by the DSL instruction `raise`."""


EOF = ('<EOF>', None)
_NOSLEEP = types.SimpleNamespace(sleep=lambda s: None)

# ------------------------------------------------------------------ the DSL
# program table: tuple of programs, a program = tuple of instructions
#   ('s', pid[, shape])        f_k := submit(child running program pid)
#                              shape: 'kw' (the table is passed as a keyword
#                              argument), 'named' (task_name=str, log_context=dict)
#   ('m', pids[, shape])       f_k := map(children running these programs)
#                              shape: ('z', l0, l2)  three argument lists of lengths
#                                       l0, len(pids), l2 - map zips them, so
#                                       min(l0, len(pids), l2) tasks are created;
#                                     ('zn', l0, l2) the same with task_name /
#                                       log_context lists of len(args[0]) = l0;
#                                     ('one',)  ONE argument list of packed triples;
#                                     ('kw',)   the table as a keyword argument;
#                                     ('named',) task_name / log_context lists
#   ('a', k)              v := await f_k            (appended to `seen`)
#   ('n', k)              v := await next(f_k)      (appended to `seen`)
#   ('c', k)              cancel(f_k)
#   ('x',)                raise DSLRaise
#   ('r',)                return early
#   ('y',)                the main thread of the worker is preempted here, in the
#                         middle of a step: the scheduler may run other
#                         transitions (deliveries to THIS worker = its incoming
#                         thread, anything on other nodes) before the body goes on
# A task returns ('N', tag, pid, seen).  tag = path from the root
# (root tag = (comp index,), child = parent tag + (future index, slot)).
CUR: 'Sim | None' = None


def eff_pids(ins) -> tuple:
    """The child programs a map instruction really creates tasks for."""
    pids = tuple(ins[1])
    if len(ins) > 2 and ins[2][0] in ('z', 'zn'):
        return pids[:min(ins[2][1], len(pids), ins[2][2])]
    return pids


def children(ins) -> tuple:
    if ins[0] == 's':
        return (ins[1],)
    if ins[0] == 'm':
        return eff_pids(ins)
    return ()


async def run_prog_kw(pid, tag, table=None):
    return await run_prog(table, pid, tag)


async def run_packed(x):
    return await run_prog(*x)


def do_submit(rt, table, ins, tag, k):
    shape = ins[2] if len(ins) > 2 else None
    if shape == 'kw':
        return rt.submit(run_prog_kw, ins[1], tag + (k, 0), table=table)
    if shape == 'named':
        return rt.submit(run_prog, table, ins[1], tag + (k, 0),
                         task_name='child', log_context={'k': str(k)})
    return rt.submit(run_prog, table, ins[1], tag + (k, 0))


def do_map(rt, table, ins, tag, k):
    pids = list(ins[1])
    n = len(pids)
    shape = ins[2] if len(ins) > 2 else ('eq',)
    tags = lambda m: [tag + (k, i) for i in range(m)]
    if shape[0] in ('z', 'zn'):
        l0, l2 = shape[1], shape[2]
        kw = {}
        if shape[0] == 'zn':
            kw = dict(task_name=[f't{i}' for i in range(l0)],
                      log_context=[{'i': str(i)} for i in range(l0)])
        # a tuple, a list and a list: every sized sequence is accepted
        return rt.map(run_prog, (table,) * l0, pids, tags(l2), **kw)
    if shape[0] == 'one':
        return rt.map(run_packed, [(table, p, tag + (k, i))
                                   for i, p in enumerate(pids)])
    if shape[0] == 'kw':
        return rt.map(run_prog_kw, pids, tags(n), table=table)
    if shape[0] == 'named':
        return rt.map(run_prog, [table] * n, pids, tags(n),
                      task_name=[f't{i}' for i in range(n)],
                      log_context=[{'i': str(i)} for i in range(n)])
    return rt.map(run_prog, [table] * n, pids, tags(n))


async def run_prog(table, pid, tag):
    from bqskit.runtime import get_runtime
    rt = get_runtime()
    sim = CUR
    sim.ev('start', tag, pid, rt._id)
    futs = []
    seen = []
    for ip, ins in enumerate(table[pid]):
        op = ins[0]
        if op == 's':
            k = len(futs)
            f = do_submit(rt, table, ins, tag, k)
            futs.append(f)
            sim.ev('spawn', tag, k, rt._id, f.mailbox_id, (ins[1],))
        elif op == 'm':
            k = len(futs)
            f = do_map(rt, table, ins, tag, k)
            futs.append(f)
            sim.ev('spawn', tag, k, rt._id, f.mailbox_id, eff_pids(ins))
        elif op == 'a':
            sim.ev('await', tag, ins[1])
            v = await futs[ins[1]]
            v = enc(v)
            seen.append(v)
            sim.ev('saw', tag, ins[1], 'a', v, rt._id)
        elif op == 'n':
            sim.ev('await', tag, ins[1])
            v = await rt.next(futs[ins[1]])
            v = ('B', tuple((s, enc(x)) for s, x in v))
            seen.append(v)
            sim.ev('saw', tag, ins[1], 'n', v, rt._id)
        elif op == 'c':
            # which slots of the future have no result yet (read before the
            # call): the oracle `cancel-skips-unfinished-slot` needs them
            mb = getattr(futs[ins[1]], 'mailbox_id', None)
            box = getattr(rt, '_mailboxes', {}).get(mb)
            unfinished = None
            try:
                if box is not None and box.expecting_single_result:
                    unfinished = (0,) if box.num_results == 0 else ()
                elif box is not None:
                    unfinished = tuple(
                        s for s in range(box.expected_num_results)
                        if box.result[s] is None)
            except Exception:
                unfinished = None
            sim.ev('cancel', tag, ins[1], rt._id, mb, unfinished)
            rt.cancel(futs[ins[1]])
        elif op == 'x':
            sim.ev('raise', tag)
            raise DSLRaise('dsl-raise ' + '.'.join(map(str, tag)))
        elif op == 'r':
            break
        elif op == 'y':
            sim.midstep(f'W{rt._id}', tag, ip)
    term = ('N', tag, pid, tuple(seen))
    sim.ev('ret', tag, term, rt._id)
    return term


class DSLPass(BasePass):
    """Root of a compilation: a real pass of a real CompilationTask."""

    def __init__(self, table, pid, tag):
        self.table, self.pid, self.tag = table, pid, tag

    async def run(self, circuit, data):
        data['term'] = await run_prog(self.table, self.pid, self.tag)


def enc(v):
    """Canonical value: terms stay, map results become ('L', ...)."""
    if isinstance(v, tuple) and len(v) == 2 and isinstance(v[1], PassData):
        return v[1]['term']
    if isinstance(v, list):
        return ('L', tuple(enc(x) for x in v))
    return v


def tok(v) -> list[int]:
    """Flat token encoding shared with the Lean model (Val := List Nat)."""
    if v is None:
        return [9]
    if v[0] == 'N':
        out = [0, len(v[1]), *v[1], v[2], len(v[3])]
        for x in v[3]:
            out += tok(x)
        return out
    if v[0] == 'L':
        out = [1, len(v[1])]
        for x in v[1]:
            out += tok(x)
        return out
    if v[0] == 'B':
        out = [2, len(v[1])]
        for s, x in v[1]:
            out += [s] + tok(x)
        return out
    raise ValueError(v)


def reference_term(table, pid, tag):
    """Pure reference interpreter of the DSL for programs in the fragment
    without next / cancel / raise / early return / misuse (None otherwise)."""
    futs = []
    seen = []
    used = set()
    for ins in table[pid]:
        op = ins[0]
        if op == 's':
            futs.append(('s', ins[1]))
        elif op == 'm':
            if not eff_pids(ins):
                return None
            futs.append(('m', eff_pids(ins)))
        elif op == 'y':
            pass
        elif op == 'a':
            k = ins[1]
            if k in used or k >= len(futs):
                return None
            used.add(k)
            kind, ps = futs[k]
            if kind == 's':
                v = reference_term(table, ps, tag + (k, 0))
                if v is None:
                    return None
            else:
                vs = [reference_term(table, p, tag + (k, i))
                      for i, p in enumerate(ps)]
                if any(x is None for x in vs):
                    return None
                v = ('L', tuple(vs))
            seen.append(v)
        else:
            return None
    return ('N', tag, pid, tuple(seen))


# ------------------------------------------------------- fake OS resources
class NBQueue(queue.Queue):
    """`queue.Queue` whose *blocking* get hands control back."""

    def get(self, block=True, timeout=None):
        if not block:
            return super().get(False)      # get_nowait: raises queue.Empty
        try:
            return super().get(False)
        except queue.Empty:
            raise Block()


class FakeThread:
    def is_alive(self):
        return False

    def join(self):
        pass


class FakeSock:
    def send(self, b):
        pass


class FakeConn:
    """One endpoint of a duplex link between two simulated nodes."""

    def __init__(self, sim, owner, peer):
        self.sim, self.owner, self.peer = sim, owner, peer
        self.closed = False
        self.current = None
        self.on_recv = None

    def send(self, m):
        if self.closed:
            raise OSError('handle is closed')
        self.sim.post(self.owner, self.peer, m)

    def recv(self):
        m, self.current = self.current, None
        if self.on_recv:
            self.on_recv()
        if m is None:
            raise Block()
        if m is EOF:
            raise EOFError()
        return m

    def poll(self, timeout=0.0):
        return self.current is not None

    def close(self):
        if not self.closed:
            self.closed = True
            self.sim.post(self.owner, self.peer, EOF)

    def __repr__(self):
        return f'<conn {self.owner}->{self.peer}>'


class ClientConn:
    """The client's end; supports the two-phase synchronous calls."""

    def __init__(self, sim, owner):
        self.sim, self.owner, self.peer = sim, owner, 'S'
        self.inbox = collections.deque()
        self.mode = 'live'
        self.sent_seen = False
        self.closed = False

    def poll(self, timeout=0.0):
        if self.mode == 'replay' and not self.sent_seen:
            return False
        return len(self.inbox) > 0

    def send(self, m):
        if self.closed:
            raise OSError('handle is closed')
        if self.mode == 'replay':
            self.sent_seen = True
            return
        self.sim.post(self.owner, self.peer, m)

    def recv(self):
        if self.inbox:
            m = self.inbox.popleft()
            if m is EOF:
                raise EOFError()
            return m
        if self.mode == 'closing':
            raise EOFError()
        raise Block()

    def close(self):
        self.closed = True


class FakeSelector:
    def __init__(self, node, conn, direction):
        self.node, self.conn, self.direction = node, conn, direction
        self.calls = 0

    def select(self, timeout=None):
        self.calls += 1
        if self.calls == 1:
            key = types.SimpleNamespace(fileobj=self.conn, data=self.direction)
            return [(key, 1)]
        # leave the real run() loop without its `finally: handle_shutdown()`
        # taking effect: shadow it for the unwinding only
        self.node.obj.__dict__['handle_shutdown'] = lambda: None
        raise Yield()

    def register(self, *a):
        pass

    def unregister(self, conn):
        pass

    def close(self):
        pass


_INIT_ATTRS: dict = {}


def init_attrs(cls, methods=('__init__',)) -> set[str]:
    key = (cls, tuple(methods))
    if key not in _INIT_ATTRS:
        _INIT_ATTRS[key] = _init_attrs(cls, methods)
    return _INIT_ATTRS[key]


def _init_attrs(cls, methods=('__init__',)) -> set[str]:
    """Names assigned as `self.X = ...` in the given methods (from the AST of
    the live source) - the harness asserts it fills every one of them."""
    out = set()
    for mname in methods:
        fn = cls.__dict__.get(mname)
        if fn is None:
            continue
        tree = ast.parse(textwrap.dedent(inspect.getsource(fn)))
        for n in ast.walk(tree):
            tgts = []
            if isinstance(n, ast.Assign):
                tgts = n.targets
            elif isinstance(n, (ast.AnnAssign, ast.AugAssign)):
                tgts = [n.target]
            for t in tgts:
                for tt in (t.elts if isinstance(t, ast.Tuple) else [t]):
                    if (isinstance(tt, ast.Attribute)
                            and isinstance(tt.value, ast.Name)
                            and tt.value.id == 'self'):
                        out.add(tt.attr)
    return out


AUTO_FILLED: dict = {}      # 'Class.attr' -> source of the initialiser used


def _simple_initialiser(cls, methods, name):
    """The value `self.<name> = <expr>` gives the attribute in the live
    source, when <expr> mentions nothing but module-level names and literals
    (False, 0, None, [], {}, set(), Lock(), ...): an attribute the code under
    test ADDED to a constructor can then be initialised the way the
    constructor does it instead of stopping the check (round 4: seeded C15-4
    added `self._idle_reported = False` and the check exited 2)."""
    for mname in methods:
        fn = cls.__dict__.get(mname)
        if fn is None:
            continue
        tree = ast.parse(textwrap.dedent(inspect.getsource(fn)))
        params = {a.arg for f in ast.walk(tree)
                  if isinstance(f, ast.FunctionDef)
                  for a in f.args.args + f.args.kwonlyargs}
        for n in ast.walk(tree):
            if not (isinstance(n, (ast.Assign, ast.AnnAssign))
                    and n.value is not None):
                continue
            tgts = n.targets if isinstance(n, ast.Assign) else [n.target]
            hit = any(isinstance(t, ast.Attribute)
                      and isinstance(t.value, ast.Name)
                      and t.value.id == 'self' and t.attr == name
                      for t in tgts)
            if not hit:
                continue
            names = {x.id for x in ast.walk(n.value)
                     if isinstance(x, ast.Name)}
            if names & (params | {'self'}):
                return None
            if any(isinstance(x, (ast.Lambda, ast.Await, ast.Yield,
                                  ast.NamedExpr)) for x in ast.walk(n.value)):
                return None
            src = ast.unparse(n.value)
            try:
                val = eval(compile(ast.Expression(n.value), '<init>', 'eval'),
                           dict(vars(sys.modules[cls.__module__])))
            except Exception:
                return None
            return src, val
    return None


def autofill(obj, cls_methods):
    """For objects a harness fills by hand: give every attribute the live
    constructor assigns and the object lacks the constructor's own value, when
    that initialiser is a self-contained expression (see
    `_simple_initialiser`).  Silent otherwise: the hand-written list is then
    what the harness stands by."""
    for cls, methods in cls_methods:
        for name in sorted(init_attrs(cls, methods)):
            if name in obj.__dict__:
                continue
            got = _simple_initialiser(cls, methods, name)
            if got:
                setattr(obj, name, got[1])
                AUTO_FILLED[f'{type(obj).__name__}.{name}'] = got[0]


def _fill(obj, attrs: dict, cls_methods):
    need = set()
    for cls, methods in cls_methods:
        need |= init_attrs(cls, methods)
    missing = need - set(attrs)
    still = []
    for name in sorted(missing):
        got = None
        for cls, methods in cls_methods:
            got = _simple_initialiser(cls, methods, name)
            if got:
                break
        if got:
            setattr(obj, name, got[1])
            AUTO_FILLED[f'{type(obj).__name__}.{name}'] = got[0]
        else:
            still.append(name)
    if still:
        raise RuntimeError(
            f'harness does not initialise {sorted(still)} of '
            f'{type(obj).__name__} (new attribute in __init__ whose '
            f'initialiser is not a self-contained expression)')
    for k, v in attrs.items():
        setattr(obj, k, v)


class Node:
    def __init__(self, name, kind, obj=None):
        self.name, self.kind, self.obj = name, kind, obj
        self.alive = True
        self.conns: dict[str, Any] = {}     # peer name -> my endpoint
        self.dirs: dict[str, D] = {}        # peer name -> direction
        # worker
        self.blocked = False
        self.in_dead = False                # incoming thread died
        self.wid = None
        # client
        self.script: list = []
        self.pc = 0
        self.pending = None                 # (op, arg) of the blocked call
        self.tids: list = []
        self.results: dict = {}
        self.said_bye = False


class Sim:
    """One simulated system.  scenario = dict(topo, table, clients)."""

    def __init__(self, scenario, seed=0):
        global CUR
        self.sc = scenario
        self.rng = random.Random(seed)
        self.nodes: dict[str, Node] = {}
        self.chan: dict[tuple[str, str], collections.deque] = {}
        self.events: list = []           # body-level ground truth
        self.translog: list = []         # one entry per transition
        self.emitted: list = []          # messages posted in this transition
        self.t = 0
        self.anomalies: list = []        # (t, kind, detail)
        self.killed: list = []
        self.syserr: list = []
        self.comp: list = []             # comp index -> dict(client, idx, uuid, pid)
        self.uuid2comp: dict = {}
        # preemption of worker steps (DSL instruction 'y')
        self.paused: list = []           # stack of (worker, tag, instruction)
        self.open_recs: list = []        # records of the transitions in progress
        self.sched_log: list = []        # transitions in START order, with the
        #                                  pseudo transitions ('r', W) = resume
        self.nested_fired = 0
        self.ev_step: list = []          # per event: start time of its transition
        self.cur_node = None
        self._choose = None
        self._before = self._after = None
        self.on_stop = None
        self.stop_info = None
        self._patch_modules()
        self._build()
        CUR = self

    # ---------------------------------------------------------- construction
    def _patch_modules(self):
        sim = self

        class _OS:
            def getpid(self):
                return 0

            def kill(self, pid, sig):
                sim.killed.append(sim.cur_node)
                sim.nodes[sim.cur_node].alive = False

            def __getattr__(self, k):
                import os
                return getattr(os, k)
        wmod.os = _OS()
        dmod.time = _NOSLEEP
        mmod.time = _NOSLEEP

    def link(self, a: Node, b: Node, dir_a: D, dir_b: D):
        """a is the boss/server side, b the employee/client side."""
        ca = FakeConn(self, a.name, b.name)
        cb = (ClientConn(self, b.name) if b.kind == 'C'
              else FakeConn(self, b.name, a.name))
        a.conns[b.name], b.conns[a.name] = ca, cb
        a.dirs[b.name], b.dirs[a.name] = dir_a, dir_b
        self.chan[(a.name, b.name)] = collections.deque()
        self.chan[(b.name, a.name)] = collections.deque()
        return ca, cb

    def _mk_worker(self, wid, boss: Node) -> Node:
        n = Node(f'W{wid}', 'W')
        n.wid = wid
        self.nodes[n.name] = n
        ca, cb = self.link(boss, n, D.BELOW, D.ABOVE)
        w = object.__new__(Worker)
        _fill(w, dict(
            _id=wid, _conn=cb, _tasks={}, _delayed_tasks=[],
            _ready_task_ids=NBQueue(), _cancelled_task_ids=set(),
            _active_task=None, _running=True, _mailboxes={},
            _mailbox_counter=0, _cache={}, most_recent_read_submit=None,
            read_receipt_mutex=Lock(), incoming_thread=FakeThread(),
            # created by Worker.__init__ since the maintainer's mailbox-mutex
            # fix (C07 finding 1); harmless extra attribute on a tree
            # without the fix (`_fill` only complains about MISSING names)
            _mailbox_mutex=Lock(),
        ), [(Worker, ('__init__',))])
        n.obj = w

        def stop_after_one():
            w._running = False
        cb.on_recv = stop_after_one
        return n

    def _server_base_attrs(self, lb, ub):
        return dict(
            lower_id_bound=lb, upper_id_bound=ub, running=True, sel=None,
            terminate_hotline=FakeSock(), employees=[],
            conn_to_employee_dict={}, outgoing=NBQueue(),
            outgoing_thread=FakeThread(),
        )

    def _build(self):
        topo = self.sc['topo']
        kind = topo['kind']
        S = Node('S', 'S')
        self.nodes['S'] = S
        cls = amod.AttachedServer if kind == 'attached' else dmod.DetachedServer
        srv = object.__new__(cls)
        attrs = self._server_base_attrs(0, int(2 ** 30))
        attrs.update(clients={}, tasks={}, mailbox_to_task_dict={},
                     mailboxes={}, mailbox_counter=0, port=0,
                     listen_thread=FakeThread(), step_size=1,
                     total_workers=0, num_idle_workers=0)
        _fill(srv, attrs, [
            (bmod.ServerBase, ('__init__', 'connect_to_managers',
                               'spawn_workers', 'connect_to_workers')),
            (dmod.DetachedServer, ('__init__',)),
            (amod.AttachedServer, ('__init__',))])
        S.obj = srv
        mgrs = topo.get('managers')
        if mgrs:
            d = len(mgrs)
            srv.step_size = (srv.upper_id_bound - srv.lower_id_bound) // d
            for i, nw in enumerate(mgrs):
                lb = srv.lower_id_bound + i * srv.step_size
                ub = min(srv.lower_id_bound + (i + 1) * srv.step_size,
                         srv.upper_id_bound)
                mn = Node(f'M{i}', 'M')
                self.nodes[mn.name] = mn
                ca, cb = self.link(S, mn, D.BELOW, D.ABOVE)
                mg = object.__new__(mmod.Manager)
                a = self._server_base_attrs(lb, ub)
                a.update(upstream=cb, step_size=1, total_workers=nw,
                         num_idle_workers=nw, last_num_idle_sent_up=nw,
                         most_recent_read_submit=None)
                _fill(mg, a, [
                    (bmod.ServerBase, ('__init__', 'connect_to_managers',
                                       'spawn_workers', 'connect_to_workers')),
                    (mmod.Manager, ('__init__',))])
                mn.obj = mg
                for k in range(nw):
                    wn = self._mk_worker(lb + k, mn)
                    e = RuntimeEmployee(lb + k, mn.conns[wn.name], 1)
                    mg.employees.append(e)
                    mg.conn_to_employee_dict[e.conn] = e
                e = RuntimeEmployee(i, ca, nw, is_manager=True)
                srv.employees.append(e)
                srv.conn_to_employee_dict[ca] = e
                srv.total_workers += nw
        else:
            for k in range(topo['workers']):
                wn = self._mk_worker(k, S)
                e = RuntimeEmployee(k, S.conns[wn.name], 1)
                srv.employees.append(e)
                srv.conn_to_employee_dict[e.conn] = e
            srv.total_workers = topo['workers']
        srv.num_idle_workers = srv.total_workers
        for j, script in enumerate(self.sc['clients']):
            cn = Node(f'C{j}', 'C')
            self.nodes[cn.name] = cn
            ca, cb = self.link(S, cn, D.CLIENT, D.ABOVE)
            srv.clients[ca] = set()
            comp = object.__new__(Compiler)
            comp.conn = cb
            comp.p = None
            cn.obj = comp
            cn.script = list(script)

    # -------------------------------------------------------------- plumbing
    def ev(self, *e):
        self.events.append((self.t,) + e)
        self.ev_step.append(self.open_recs[-1]['t'] if self.open_recs
                            else self.t)

    def post(self, src, dst, m):
        # a real connection pickles: the receiver gets its own list object
        if m[0] == M.SUBMIT_BATCH:
            self.emitted.append((src, dst, (m[0], list(m[1]))))
            m = (m[0], list(m[1]))
        else:
            self.emitted.append((src, dst, m))
        if not self.nodes[dst].alive:
            return
        self.chan[(src, dst)].append(m)

    def anomaly(self, kind, detail):
        self.anomalies.append((self.t, kind, detail))

    def workers(self):
        return [n for n in self.nodes.values() if n.kind == 'W']

    def bosses(self):
        return [n for n in self.nodes.values() if n.kind in 'SM']

    # ----------------------------------------------------------- transitions
    def enabled(self) -> list[tuple]:
        out = []
        for (s, d), q in self.chan.items():
            if q:
                out.append(('d', s, d))
        mid = {p[0] for p in self.paused}
        for n in self.nodes.values():
            if n.kind == 'W' and n.alive and not n.in_dead:
                if n.name in mid:
                    continue            # its main thread is inside a step
                if not n.blocked or n.obj._ready_task_ids.qsize() > 0:
                    out.append(('w', n.name))
            elif n.kind == 'C' and n.alive:
                if n.pending is None and n.pc < len(n.script):
                    out.append(('c', n.name))
        if self.paused:
            out.append(('r', self.paused[-1][0]))   # the innermost resumes
        return out

    def fire(self, tr: tuple):
        """Re-entrant: a preempted worker step (`midstep`) fires transitions
        while its own record is still open."""
        if self._before:
            self._before(self)
        self.t += 1
        self.sched_log.append(tuple(tr))
        saved = (self.emitted, self.cur_node)
        self.emitted = []
        rec = {'t': self.t, 'tr': tuple(tr), 'emitted': self.emitted,
               'depth': len(self.paused), 'segments': [self.t], 'nested': 0}
        self.open_recs.append(rec)
        try:
            if tr[0] == 'd':
                info = self._deliver(tr[1], tr[2])
            elif tr[0] == 'w':
                info = self._step(tr[1])
            elif tr[0] == 'c':
                info = self._client(tr[1])
            else:
                raise ValueError(tr)
        finally:
            self.open_recs.pop()
            self.emitted, self.cur_node = saved
        rec['emitted'] = list(rec['emitted'])
        rec.update(info)
        self.translog.append(rec)
        if self._after:
            self._after(self, rec)
        return rec

    def midstep(self, wname, tag, ip):
        """DSL instruction 'y' inside a worker step: other transitions may run
        now (chosen by the schedule / policy) until ('r', wname) is chosen."""
        if self._choose is None or not self.open_recs:
            return
        self.paused.append((wname, tag, ip))
        saved_worker = wmod._worker
        try:
            while True:
                tr = self._choose()
                if tr is None or tuple(tr) == ('r', wname):
                    self.t += 1
                    self.sched_log.append(('r', wname))
                    self.open_recs[-1]['segments'].append(self.t)
                    return
                self.nested_fired += 1
                self.open_recs[-1]['nested'] += 1
                self.fire(tr)
                wmod._worker = saved_worker
        finally:
            wmod._worker = saved_worker
            self.paused.pop()

    def _deliver(self, src, dst):
        m = self.chan[(src, dst)].popleft()
        node = self.nodes[dst]
        self.cur_node = dst
        info = {'msg': m}
        if m[0] == M.SUBMIT_BATCH:      # the worker pops from the payload
            info['batch'] = [tuple(t.return_address) for t in m[1]]
        elif m[0] == M.SUBMIT and hasattr(m[1], 'return_address'):
            info['batch'] = [tuple(m[1].return_address)]
        if not node.alive:
            info['dropped'] = True
            return info
        if node.kind == 'W':
            if node.in_dead:
                info['dropped'] = True
                return info
            w = node.obj
            w._conn.current = m
            try:
                w.recv_incoming()
            except SystemExit:
                node.alive = False
            except Exception as e:       # the incoming *thread* dies
                node.in_dead = True
                info['exc'] = repr(e)
                self.anomaly('worker-incoming-thread-crash',
                             (dst, type(e).__name__, str(e)[:200]))
            finally:
                if node.alive:
                    w._running = True
        elif node.kind in 'SM':
            o = node.obj
            if not o.running:
                info['dropped'] = True
                return info
            conn = node.conns[src]
            if conn.closed:
                # the real node unregistered this connection from its
                # selector when it closed it: nothing is read from it again
                info['dropped'] = True
                return info
            conn.current = m
            info['emps_before'] = list(o.employees)
            o.sel = FakeSelector(node, conn, node.dirs[src])
            was = o.handle_system_error
            sim = self

            def spy(error_str, _was=was):
                sim.syserr.append((sim.t, dst, error_str))
                return _was(error_str)
            o.__dict__['handle_system_error'] = spy
            try:
                o.run()
            except Yield:
                pass
            except Exception as e:
                # run() re-raises nothing by itself; handle_error raises
                # RuntimeError after a shutdown (inside try -> caught by run)
                info['exc'] = repr(e)
                self.anomaly('server-loop-exception',
                             (dst, type(e).__name__, str(e)[:200]))
            finally:
                o.__dict__.pop('handle_shutdown', None)
                o.__dict__.pop('handle_system_error', None)
            try:
                o.send_outgoing()
            except Block:
                pass
            if not o.running:
                node.alive = False
                # whatever is still queued is never sent
                while o.outgoing.qsize():
                    o.outgoing.get_nowait()
        else:  # client
            self._client_recv(node, m)
        return info

    def _step(self, name):
        node = self.nodes[name]
        self.cur_node = name
        w = node.obj
        outer_worker = wmod._worker
        wmod._worker = w
        node.blocked = False
        crashed = []

        def one():
            try:
                Worker._try_step_next_ready_task(w)
            except Exception as e:
                crashed.append(e)
                raise
            finally:
                w._running = False
        w.__dict__['_try_step_next_ready_task'] = one
        info = {}
        try:
            w._loop()
        except Block:
            node.blocked = True
        finally:
            w.__dict__.pop('_try_step_next_ready_task', None)
            wmod._worker = outer_worker
        if crashed:
            # Worker._loop caught an exception outside task code: the worker
            # stops running and reports a system error upstream
            node.alive = False
            info['exc'] = repr(crashed[0])
            self.anomaly('worker-loop-crash',
                         (name, type(crashed[0]).__name__,
                          str(crashed[0])[:200]))
        else:
            w._running = True
        return info

    # --------------------------------------------------------------- clients
    def _client(self, name):
        node = self.nodes[name]
        self.cur_node = name
        op = node.script[node.pc]
        node.pc += 1
        comp: Compiler = node.obj
        conn: ClientConn = node.conns['S']
        info = {'op': op}
        try:
            if op[0] == 'submit':
                ci = len(self.comp)
                tag = (ci,)
                circ = Circuit(1)
                tid = comp.submit(circ, [DSLPass(self.sc['table'], op[1], tag)],
                                  request_data=True)
                self.comp.append({'client': name, 'idx': len(node.tids),
                                  'uuid': tid, 'pid': op[1], 'tag': tag})
                self.uuid2comp[tid] = ci
                node.tids.append(tid)
                info['comp'] = ci
            elif op[0] in ('result', 'status', 'cancel'):
                if op[1] >= len(node.tids):
                    info['skipped'] = True
                    return info
                tid = node.tids[op[1]]
                node.pending = (op[0], op[1], tid)
                conn.mode = 'live'
                r = getattr(comp, op[0])(tid)   # normally raises Block
                node.pending = None
                self._client_done(node, op[0], op[1], r)
            elif op[0] == 'disconnect':
                conn.mode = 'closing'
                comp.close()
                node.alive = False
                node.said_bye = True
            else:
                raise ValueError(op)
        except Block:
            pass
        except RuntimeError as e:
            self._client_failed(node, op, e)
        return info

    def _client_done(self, node, kind, idx, r):
        if kind == 'result':
            r = enc(r)
        node.results.setdefault((kind, idx), []).append((self.t, r))
        self.ev('client', node.name, kind, idx, r)

    def _client_failed(self, node, op, e):
        node.pending = None
        self.ev('client-raise', node.name, op, str(e)[:300],
                str(e.__cause__)[:300] if e.__cause__ else '')
        node.alive = False
        if not node.said_bye:
            # the real client drops its connection object: the server sees EOF
            self.post(node.name, 'S', EOF)

    def _client_recv(self, node, m):
        conn: ClientConn = node.conns['S']
        conn.inbox.append(m)
        if node.pending is None:
            return
        kind, idx, tid = node.pending
        conn.mode = 'replay'
        conn.sent_seen = False
        try:
            r = getattr(node.obj, kind)(tid)
            node.pending = None
            self._client_done(node, kind, idx, r)
        except Block:
            pass
        except RuntimeError as e:
            self._client_failed(node, (kind, idx), e)
        finally:
            conn.mode = 'live'

    # ------------------------------------------------------------------ runs
    def run(self, policy=None, max_steps=3000, schedule=None,
            after=None, before=None, cont=False) -> bool:
        """Run to quiescence.  Returns True when quiescent.  A schedule is the
        list of transitions in start order, pseudo transitions ('r', W)
        included (see `midstep`)."""
        policy = policy or Policy.uniform()
        st = {'i': 0, 'schedule': schedule}
        self._before, self._after = before, after

        def choose():
            en = self.enabled()
            if not en:
                return None
            if self.t >= max_steps:
                return ('r', self.paused[-1][0]) if self.paused else None
            sch = st['schedule']
            if sch is not None and st['i'] >= len(sch):
                if cont:
                    sch = st['schedule'] = None  # prefix replayed: policy
                else:
                    self.stop_info = {'enabled': en,
                                      'paused': list(self.paused)}
                    if self.on_stop:
                        self.on_stop(self)
                    raise StopRun()
            if sch is not None:
                tr = tuple(sch[st['i']])
                st['i'] += 1
                if tr not in en:
                    raise RuntimeError(f'schedule step {tr} not enabled')
                return tr
            return policy.pick(self.rng, en, self)
        self._choose = choose
        try:
            while self.t < max_steps:
                tr = choose()
                if tr is None:
                    return not self.enabled()
                self.fire(tr)
            return False
        except StopRun:
            return False
        finally:
            self._choose = None
            self._before = self._after = None

    def schedule(self):
        return [list(tr) for tr in self.sched_log]

    def dispose(self):
        """Close coroutines the run left behind (quiet interpreter exit)."""
        for n in self.workers():
            w = n.obj
            for t in list(w._tasks.values()) + list(w._delayed_tasks):
                try:
                    if t.coro is not None:
                        t.coro.close()
                except Exception:
                    pass


class Policy:
    """Weighted random choice among enabled transitions, biased per run."""

    def __init__(self, wd=None, ww=None, wc=1.0, base_d=1.0, base_w=1.0):
        self.wd = wd or {}
        self.ww = ww or {}
        self.wc = wc
        self.base_d, self.base_w = base_d, base_w
        self.wr = 1.0      # weight of resuming a preempted step, relative to
        #                    the sum of everything else that is enabled

    @staticmethod
    def uniform():
        return Policy()

    @staticmethod
    def biased(rng: random.Random, sim: Sim):
        """Random bias: some links slow (their messages are overtaken by
        everything else), some fast, workers eager or lazy, client eager or
        lazy.  Produces WAITING crossing SUBMIT_BATCH, results before
        awaits, CANCEL overtaking SUBMIT etc."""
        style = rng.choice(['uniform', 'links', 'links', 'eager-workers',
                            'lazy-workers', 'slow-up', 'slow-down', 'mixed'])
        wd, ww = {}, {}
        links = list(sim.chan)
        wk = [n.name for n in sim.workers()]
        if style in ('links', 'mixed'):
            for l in links:
                wd[l] = rng.choice([0.03, 0.2, 1, 1, 5])
        if style == 'slow-up':
            for (s, d) in links:
                if s.startswith('W') or (s.startswith('M') and d == 'S'):
                    wd[(s, d)] = rng.choice([0.03, 0.1])
        if style == 'slow-down':
            for (s, d) in links:
                if d.startswith('W') or (d.startswith('M') and s == 'S'):
                    wd[(s, d)] = rng.choice([0.03, 0.1])
        if style in ('eager-workers', 'mixed'):
            for w in wk:
                ww[w] = rng.choice([3, 10])
        if style == 'lazy-workers':
            for w in wk:
                ww[w] = rng.choice([0.05, 0.2, 1])
        p = Policy(wd, ww, wc=rng.choice([0.05, 0.3, 1, 4]))
        p.wr = rng.choice([0.3, 1.0, 1.0, 3.0])
        p.style = style
        return p

    def pick(self, rng, en, sim):
        ws = []
        mid = {p[0] for p in sim.paused}
        for tr in en:
            if tr[0] == 'd':
                x = self.wd.get((tr[1], tr[2]), self.base_d)
                if tr[2] in mid:
                    x = max(x, 1.0) * 3    # the incoming thread of a worker
                ws.append(x)               # whose main thread is mid-step
            elif tr[0] == 'w':
                ws.append(self.ww.get(tr[1], self.base_w))
            elif tr[0] == 'r':
                ws.append(None)
            else:
                ws.append(self.wc)
        if None in ws:
            tot = sum(x for x in ws if x is not None)
            ws = [self.wr * max(tot, 1.0) if x is None else x for x in ws]
        return rng.choices(en, ws)[0]
