"""C09, permutation-aware mapping (PAM) part of the tie.

PAMLayoutPass / PAMRoutingPass need pre-synthesised permutation data for every
block.  Two sources:
  * 'fab'  : the data is FABRICATED exactly, in-process: for every block with unitary U and
             every (pre, post) pair of local permutations the variant circuit is the single
             gate `Po.T @ U @ Pi` (the target EmbedAllPermutationsPass hands to synthesis),
             registered under every coupling graph on the block's qudits.  The mapping passes
             themselves are the real ones.  Many cases.
  * 'real' : a real `Compiler` runs [SetModelPass, QuickPartitioner, ForEachBlockPass(
             EmbedAllPermutationsPass(QSearch))]; the PAM passes then run in-process on the
             returned data (so that they can be recorded).  Few cases.
The recorded run is replayed through the Lean machine (moves `p`, `b`, `s`, `u`), exactly as for
SABRE.  Independent oracles: (1)(2) as for SABRE; a Python PAM un-routing that uses only the
output circuit, the recorded `_pam_routing_block_out_data` (pre_perm, post_perm, original_utry)
and the mappings; the end-to-end numeric oracle; and the measured per-block hypothesis of
`C09_pam_variant_partial`: variant = virtual swaps . original block . virtual swaps.
"""
from __future__ import annotations

import asyncio
import itertools as it
import random
import warnings

import numpy as np

from harness import c09 as H


def gen_pam_circuit(spec):
    """blocks (CircuitGates from QuickPartitioner) with barriers inserted between"""
    from bqskit.compiler.passdata import PassData
    from bqskit.ir.circuit import Circuit
    from bqskit.ir.gates import BarrierPlaceholder
    from bqskit.passes import QuickPartitioner
    s2 = dict(spec)
    s2['partition'] = None
    flat = H.gen_circuit(s2)
    rng = random.Random(spec['seed'] + 1)
    n = spec['n']
    asyncio.run(QuickPartitioner(spec['block']).run(flat, PassData(flat)))
    r = spec['radix']
    c = Circuit(n, [r] * n)
    for op in flat:
        if rng.random() < spec.get('barrier_p', 0.25) and n >= 2:
            m = rng.randint(2, min(n, 3))
            c.append_gate(BarrierPlaceholder(m, [r] * m), rng.sample(range(n), m))
        c.append(op)
    if rng.random() < 0.3 and n >= 2:
        c.append_gate(BarrierPlaceholder(2, [r, r]), rng.sample(range(n), 2))
    return c


def all_graphs_on(k):
    from bqskit.qis.graph import CouplingGraph
    pairs = list(it.combinations(range(k), 2))
    out = []
    for mask in range(1 << len(pairs)):
        out.append(CouplingGraph([p for i, p in enumerate(pairs) if mask >> i & 1], k))
    return out


def fabricate(c, r=2):
    """exact permutation data for every block of c"""
    from bqskit.ir.circuit import Circuit
    from bqskit.ir.gates import BarrierPlaceholder, ConstantUnitaryGate
    from bqskit.ir.point import CircuitPoint
    from bqskit.qis.permutation import PermutationMatrix
    datas = []
    for cyc, op in c.operations_with_cycles():
        if isinstance(op.gate, BarrierPlaceholder):
            continue
        k = op.num_qudits
        U = op.get_unitary().numpy
        perms = list(it.permutations(range(k)))
        Ps = {p: PermutationMatrix.from_qudit_location(k, r, p).numpy for p in perms}
        entry = {}
        for pi_, po in it.product(perms, perms):
            v = Circuit(k, [r] * k)
            v.append_gate(ConstantUnitaryGate(Ps[po].T @ U @ Ps[pi_], [r] * k), list(range(k)))
            entry[(pi_, po)] = v
        pd = {g: dict(entry) for g in all_graphs_on(k)}
        datas.append({'point': CircuitPoint(cyc, op.location[0]), 'permutation_data': pd})
    return datas


class RuntimeStartError(Exception):
    pass


LOCK_WAITED = [0.0]


def real_perm_data_batch(jobs, lock_wait_s, job_s=240):
    """jobs: list of (circuit, model).  Runs the real caching part of the SeqPAM workflow
    ([SetModelPass, ForEachBlockPass(EmbedAllPermutationsPass(QSearch))]) for all jobs on ONE
    bqskit runtime.  The machine-wide runtime lock (/work/RUNTIME_LOCK.md) is held for the
    whole lifetime of the runtime and for nothing else.  Returns a list of
    (partitioned circuit, block datas) or raises RuntimeStartError."""
    import fcntl
    import signal
    import socket
    import subprocess
    import sys
    import time
    from bqskit.compiler import Compiler, Workflow
    from bqskit.passes import (
        EmbedAllPermutationsPass, ForEachBlockPass, QSearchSynthesisPass, SetModelPass,
    )
    qs = QSearchSynthesisPass(success_threshold=1e-14)
    wfs = [Workflow([
        SetModelPass(model),
        ForEachBlockPass(EmbedAllPermutationsPass(
            inner_synthesis=qs, input_perm=True, output_perm=True, vary_topology=False)),
    ]) for _, model in jobs]

    def on_alarm(signum, frame):
        raise TimeoutError('bqskit runtime did not answer in time')
    lockf = open('/tmp/bqskit_runtime.lock', 'w')
    t0 = time.time()
    while True:
        try:
            fcntl.flock(lockf, fcntl.LOCK_EX | fcntl.LOCK_NB)
            break
        except OSError:
            if time.time() - t0 > lock_wait_s:
                lockf.close()
                raise RuntimeStartError('machine-wide bqskit runtime lock busy for '
                                        f'{lock_wait_s} s')
            time.sleep(0.5)
    LOCK_WAITED[0] = round(time.time() - t0, 1)
    old = signal.signal(signal.SIGALRM, on_alarm)
    state = {'proc': None, 'comp': None}

    def stop():
        try:
            if state['comp'] is not None:
                state['comp'].close()
        except Exception:
            pass
        if state['proc'] is not None:
            try:
                state['proc'].send_signal(signal.SIGINT)
                state['proc'].wait(timeout=3)
            except Exception:
                state['proc'].kill()
        state['proc'] = state['comp'] = None

    def start():
        # the attached server is started on free ports (the client port of `Compiler()` itself
        # is not configurable), then used like a detached one
        ports = []
        for _k in range(2):
            sk = socket.socket()
            sk.bind(('localhost', 0))
            ports.append(sk.getsockname()[1])
            sk.close()
        launch = ('from bqskit.runtime.attached import start_attached_server; '
                  f'start_attached_server(3, port={ports[0]}, worker_port={ports[1]})')
        state['proc'] = subprocess.Popen([sys.executable, '-W', 'ignore', '-c', launch],
                                         stdout=subprocess.DEVNULL, stderr=subprocess.DEVNULL)
        state['comp'] = Compiler('localhost', ports[0])
    out = []
    restarts = 0
    try:
        for (c, _), wf in zip(jobs, wfs):
            res = None
            for attempt in range(2):
                try:
                    signal.alarm(job_s)
                    if state['comp'] is None:
                        start()
                    oc, data = state['comp'].compile(c, wf, request_data=True)
                    signal.alarm(0)
                    res = (oc, data[ForEachBlockPass.key][-1])
                    break
                except (RuntimeError, OSError, ConnectionError, TimeoutError, EOFError,
                        KeyError) as e:
                    # the runtime died or did not answer (on a shared machine other users may
                    # kill it): one fresh runtime per failed job, at most three in total
                    signal.alarm(0)
                    res = RuntimeStartError(f'{type(e).__name__}: {e}')
                    stop()
                    restarts += 1
                    if restarts > 3:
                        break
            out.append(res)
        return out
    finally:
        signal.alarm(0)
        signal.signal(signal.SIGALRM, old)
        stop()
        fcntl.flock(lockf, fcntl.LOCK_UN)
        lockf.close()


def run_real_cases(specs, lock_wait_s, job_s=240):
    """all 'real' PAM cases of a check: inputs built first, ONE runtime under the lock, oracles
    evaluated after the lock is released"""
    from bqskit.ir.circuit import Circuit  # noqa: F401
    from bqskit.compiler.machine import MachineModel
    from bqskit.qis.graph import CouplingGraph
    jobs = []
    for sp in specs:
        model = MachineModel(sp['N'], CouplingGraph([tuple(e) for e in sp['edges']], sp['N']))
        jobs.append((gen_pam_circuit(sp), model))
    try:
        prepared = real_perm_data_batch(jobs, lock_wait_s, job_s)
    except RuntimeStartError as e:
        prepared = [e] * len(specs)
    out = []
    for sp, pr in zip(specs, prepared):
        if isinstance(pr, Exception) or pr is None:
            out.append({'spec': sp, 'skipped': 'bqskit runtime unavailable: ' + str(pr)[:80],
                        'viol': [], 'lines': [], 'expect': [], 'stats': {}})
        else:
            out.append(run_pam_case(sp, prepared=pr))
    if out:
        out[0]['lock_wait_s'] = LOCK_WAITED[0]
    return out




def local_unitary(ops, k, r=2):
    """unitary of a list of (matrix, local location) on k qudits of radix r"""
    from bqskit.ir.circuit import Circuit
    from bqskit.ir.gates import ConstantUnitaryGate
    c = Circuit(k, [r] * k)
    for m, loc in ops:
        c.append_gate(ConstantUnitaryGate(m, [r] * len(loc)), list(loc))
    return c.get_unitary().numpy


def phase_dist(A, B):
    ov = np.vdot(B.reshape(-1), A.reshape(-1))
    if abs(ov) < 1e-12:
        return float(np.linalg.norm(A - B))
    return float(np.linalg.norm(A - B * (ov / abs(ov))))


def o_pam_unroute(in_ops, out_items, iota, fm_expect_fn):
    """Python PAM un-routing.  in_ops: list of dicts {kind:'blk'|'bar', loc, U}.
    out_items: list of dicts {kind:'swap'|'blk'|'bar', loc, pre, post, U} in output order.
    iota: wire -> physical at the start.  Returns (ok, signature, reason, phi)."""
    pi = list(iota)
    rem = list(in_ops)

    def nxt(lloc, kind):
        for j, o in enumerate(rem):
            if set(o['loc']) & set(lloc):
                if o['kind'] == kind and tuple(o['loc']) == tuple(lloc) and all(
                        not (set(o['loc']) & set(rem[i]['loc'])) for i in range(j)):
                    return j
                return None
        return None

    def aperm(gperm):
        pc = {q: pi[gperm[i]] for i, q in enumerate(sorted(gperm))}
        for q in gperm:
            pi[q] = pc[q]
    for it_ in out_items:
        ploc = it_['loc']
        if it_['kind'] == 'swap':
            a, b = ploc
            pi[:] = [b if x == a else a if x == b else x for x in pi]
            continue
        if not all(x in pi for x in ploc):
            return False, 'pam-op-on-unassigned-qudit', f'{it_["kind"]} at {ploc}', pi
        if it_['kind'] == 'bar':
            lloc = tuple(pi.index(x) for x in ploc)
            j = nxt(lloc, 'bar')
            if j is None:
                return (False, 'pam-barrier-misplaced',
                        f'barrier at physical {tuple(ploc)} covers logical qudits {lloc}, '
                        'which is not the next barrier of those qudits', pi)
            rem.pop(j)
            continue
        lset = sorted(pi.index(x) for x in ploc)
        g1 = tuple(lset[i] for i in it_['pre'])
        aperm(g1)
        lloc = tuple(pi.index(x) for x in ploc)
        j = nxt(lloc, 'blk')
        if j is None:
            return (False, 'pam-block-misplaced',
                    f'block at physical {tuple(ploc)} = logical {lloc} after pre_perm is not '
                    'the next block of those qudits', pi)
        if phase_dist(rem[j]['U'], it_['U']) > 1e-6:
            return (False, 'pam-block-original-utry-mismatch',
                    f'original_utry recorded for the block at {tuple(ploc)} is not the '
                    'unitary of the input block it replaces', pi)
        rem.pop(j)
        g2 = tuple(lset[i] for i in it_['post'])
        aperm(g2)
    if rem:
        return False, 'pam-ops-missing', f'{len(rem)} input operations missing', pi
    return True, '', '', pi


def run_pam_case(spec, prepared=None):
    warnings.simplefilter('ignore')
    import logging
    logging.getLogger('bqskit').setLevel(logging.ERROR)
    from bqskit.ir.circuit import Circuit  # noqa: F401
    from bqskit.compiler.machine import MachineModel
    from bqskit.compiler.passdata import PassData
    from bqskit.ir.gates import BarrierPlaceholder, CircuitGate, SwapGate
    from bqskit.passes import (
        ApplyPlacement, ForEachBlockPass, GreedyPlacementPass, PAMLayoutPass, PAMRoutingPass,
        SetModelPass,
    )
    from bqskit.qis.graph import CouplingGraph
    res = {'spec': spec, 'viol': [], 'lines': [], 'expect': [], 'stats': {}}
    n, N, r = spec['n'], spec['N'], spec.get('radix', 2)
    edges = [tuple(e) for e in spec['edges']]
    model = MachineModel(N, CouplingGraph(edges, N), radixes=[r] * N)
    c = gen_pam_circuit(spec)
    if spec['source'] == 'real':
        c, block_datas = prepared
    else:
        block_datas = fabricate(c, r)
    tab = H.GateTable(r)
    in_ops = [(tab.op_text(op), op.gate, tuple(op.params), tuple(op.location)) for op in c]
    in_texts = [t for t, _, _, _ in in_ops]
    in_desc = [{'kind': 'bar' if isinstance(op.gate, BarrierPlaceholder) else 'blk',
                'loc': tuple(op.location),
                'U': None if isinstance(op.gate, BarrierPlaceholder)
                else op.get_unitary().numpy} for op in c]
    U_in = c.get_unitary().numpy if N <= 7 else None
    data = PassData(c)
    data[ForEachBlockPass.key] = [block_datas]
    # incoming mappings (an earlier mapping stage may have left non-identity ones)
    im0, fm0 = list(spec.get('im0') or range(n)), list(spec.get('fm0') or range(n))
    data.initial_mapping, data.final_mapping = list(im0), list(fm0)
    kw = H.params_kw(spec['params'])
    kwl = H.params_kw(spec.get('lparams') or spec['params'])
    snap = {}

    def rep(extra=None):
        d = {'n': n, 'N': N, 'edges': edges, 'circuit': in_texts, 'spec': spec,
             'blocks': [(d['kind'], d['loc']) for d in in_desc]}
        if extra:
            d.update(extra)
        return d
    rec_l, rec_r = H.Rec(), H.Rec()
    try:
        asyncio.run(SetModelPass(model).run(c, data))
        if spec['placement'] == 'greedy':
            asyncio.run(GreedyPlacementPass().run(c, data))
        else:
            data.placement = list(spec['custom_placement'])
    except (RuntimeError, ValueError, TypeError, IndexError, KeyError, AssertionError) as e:
        res['raised'] = ('placement', type(e).__name__, str(e)[:200])
        res['viol'].append((f'unexpected-{type(e).__name__}-in-placement',
                            f'placement raised {type(e).__name__}: {str(e)[:150]} on a '
                            'connected machine', rep({'raised': str(e)[:200]}), True))
        return res
    snap['P'] = list(data.placement)
    layout = PAMLayoutPass(spec['layout'], spec['gcw'], **kwl) if spec['layout'] else None
    routing = PAMRoutingPass(spec['gcw'], **kw)
    if spec.get('adv'):
        H.adversarial_heuristic(routing, spec['seed'] + 11, spec['adv'])
        if layout is not None:
            H.adversarial_heuristic(layout, spec['seed'] + 12, spec['adv'])
    try:
        if layout is not None:
            H.instrument(layout, rec_l)
            H.run_recorded(layout, c, data, rec_l, False)
        snap['pl'] = list(data.placement)
        H.instrument(routing, rec_r)
        H.run_recorded(routing, c, data, rec_r, True)
    except H.ExtSetBlowup as e:
        res['raised'] = ('ext-set-blowup', 'pam', str(e))
        res['ext_max'] = max(rec_l.ext_max, rec_r.ext_max)
        res['viol'].append(H.blowup_violation(
            spec, 'layout' if 'pl' not in snap else 'routing', e, rep()))
        return res
    except (RuntimeError, ValueError, TypeError, IndexError, KeyError, AssertionError) as e:
        # the machine is connected, the placement valid, the permutation data complete:
        # the PAM passes have no reason to fail
        sig = f'pam-raises-{type(e).__name__}'
        if r != 2 and 'radix mismatch' in str(e):
            sig = 'pam-swap-radix-mismatch-on-qudits'
        res['raised'] = ('pam', type(e).__name__, str(e)[:200])
        res['viol'].append((sig, f'PAM layout/routing raised {type(e).__name__}: {str(e)[:150]} '
                            f'on a valid radix-{r} input (connected machine, valid placement, '
                            'complete permutation data)', rep({'raised': str(e)[:200]}), True))
        return res
    res['ext_max'] = max(rec_l.ext_max, rec_r.ext_max)
    snap['fm4'] = list(data.final_mapping)
    snap['pi'] = list(rec_r.pi)
    out_data = data[PAMRoutingPass.out_data_key]
    routed = [(cyc, op) for cyc, op in c.operations_with_cycles()]
    routed_texts = [tab.op_text(op) for _, op in routed]
    out_items = []
    for cyc, op in routed:
        if isinstance(op.gate, SwapGate):
            out_items.append({'kind': 'swap', 'loc': tuple(op.location)})
        elif isinstance(op.gate, BarrierPlaceholder):
            out_items.append({'kind': 'bar', 'loc': tuple(op.location)})
        else:
            od = None
            for pt, d in out_data.items():
                if pt[0] == cyc and pt[1] == op.location[0]:
                    od = d
            if od is None:
                res['viol'].append(('pam-block-without-out-data',
                                    f'no _pam_routing_block_out_data for the block at cycle '
                                    f'{cyc} location {tuple(op.location)}', rep(), True))
                return res
            out_items.append({'kind': 'blk', 'loc': tuple(op.location),
                              'pre': tuple(od['pre_perm']), 'post': tuple(od['post_perm']),
                              'U': od['original_utry'].numpy,
                              'V': op.get_unitary().numpy})
    # the repo's own PAM verification (verify.py: Tag / CalculatePAMErrors / UnTag, run here
    # on the whole routed circuit instead of per partition) must agree with the measured
    # hypothesis below: exact fabricated data => error 0
    verr = None
    if N <= 7 and n <= 6 and r == 2:      # verify.py builds PermutationGates: qubits only
        from bqskit.passes.mapping.verify import (
            CalculatePAMErrorsPass, TagPAMBlockDataPass, UnTagPAMBlockDataPass,
        )
        keep_out = dict(out_data)
        try:
            vc = c.copy()
            vd = PassData(vc)
            vd[PAMRoutingPass.out_data_key] = dict(out_data)
            asyncio.run(TagPAMBlockDataPass().run(vc, vd))
            asyncio.run(CalculatePAMErrorsPass().run(vc, vd))
            asyncio.run(UnTagPAMBlockDataPass().run(vc, vd))
            verr = float(vd.error)
            if [tab.op_text(op) for op in vc] != routed_texts:
                verr = 9.0      # tagging and untagging must give the routed circuit back
        except Exception as e:      # noqa: BLE001
            verr = f'{type(e).__name__}: {str(e)[:120]}'
        out_data = keep_out
    res['verify_err'] = verr
    asyncio.run(ApplyPlacement().run(c, data))
    snap['pl5'] = list(data.placement)
    snap['im5'] = list(data.initial_mapping)
    snap['fm5'] = list(data.final_mapping)
    out_texts = [tab.op_text(op) for op in c]

    # ---- trace -> moves
    lay = '-' if layout is None else ' '.join(['L'] + H.layout_moves(rec_l.events))
    moves, stats = H.events_to_moves(rec_r.events, in_ops, tab, pam=True)
    res['stats'] = stats
    gm = f'{N} ' + ' '.join(f'{a} {b}' for a, b in edges)
    head = ['wf', gm, str(n), ' '.join(map(str, sorted(tab.free))),
            f'{tab.swap_gid} {r}', ' '.join(in_texts),
            ' '.join(map(str, im0)), ' '.join(map(str, fm0))]
    res['lines'].append(' | '.join(head + [' '.join(map(str, snap['P'])), lay, ' '.join(moves)]))
    blk_gids = {g for k_, g in tab.tab.items() if k_[0] == 'blk'}
    res['expect'].append(('pam', snap, routed_texts, out_texts, sorted(blk_gids)))

    # ---- oracles
    pl = snap['pl']
    if len(set(pl)) != len(pl) or len(pl) != n or any(not (0 <= x < N) for x in pl) \
            or not H.connected(N, edges, pl):
        res['viol'].append(('placement-not-injective-connected',
                            f'placement {pl} is not an injective connected set of G',
                            rep({'placement': pl}), True))
    for nm in ('im5', 'fm5'):
        m = snap[nm]
        if len(set(m)) != len(m) or len(m) != n or any(not (0 <= x < N) for x in m):
            res['viol'].append((f'{nm}-not-injective', f'{nm} = {m} is not injective into '
                                f'[0,{N})', rep({nm: m}), True))
    eset = {tuple(sorted(e)) for e in edges}
    for op in c:
        if op.num_qudits < 2 or isinstance(op.gate, BarrierPlaceholder):
            continue
        loc = list(op.location)
        if isinstance(op.gate, CircuitGate) and all(
                g.num_qudits == 1 for g in op.gate._circuit.gate_set):
            continue
        bad = (tuple(sorted(loc)) not in eset) if len(loc) == 2 else \
            not H.connected(N, edges, loc)
        if not bad and isinstance(op.gate, CircuitGate) and spec['source'] == 'real':
            for iop in op.gate._circuit:
                if iop.num_qudits == 2 and tuple(sorted(
                        loc[q] for q in iop.location)) not in eset:
                    bad = True
        if bad:
            res['viol'].append(('op-on-unconnected-qudits',
                                f'operation at {tuple(loc)} is not connected in G',
                                rep({'op': tab.op_text(op)}), True))
            break
    # PAM un-routing on the routed circuit (placement-relative labels), from the identity
    # first without barriers (order and identity of the blocks alone), then with them: a
    # failure that appears only when barriers are taken into account is a barrier failure
    ok, sig, why, phi = o_pam_unroute([d for d in in_desc if d['kind'] != 'bar'],
                                      [d for d in out_items if d['kind'] != 'bar'],
                                      list(range(n)), None)
    if ok:
        ok, sig, why, phi = o_pam_unroute(in_desc, out_items, list(range(n)), None)
        if not ok:
            sig = 'pam-barrier-misplaced'
    if ok and [phi[x] for x in fm0] != snap['fm4']:
        ok, sig, why = False, 'pam-final-mapping-mismatch', (
            f'un-routing ends at {phi}, i.e. final mapping {[phi[x] for x in fm0]} for the '
            f'incoming {fm0}; recorded final mapping {snap["fm4"]}')
    if not ok:
        res['viol'].append((sig, 'PAM routing: ' + why,
                            rep({'routed': [(d['kind'], d['loc'], d.get('pre'), d.get('post'))
                                            for d in out_items], 'snap': snap}), True))
    if snap['im5'] != [pl[x] for x in im0] or snap['fm5'] != [pl[x] for x in snap['fm4']]:
        res['viol'].append(('apply-placement-mappings',
                            'ApplyPlacement did not compose the mappings with the placement',
                            rep({'snap': snap}), True))
    # measured hypothesis of C09_pam_variant_partial, block by block
    worst = 0.0
    SW = SwapGate(r).get_unitary().numpy
    bi = 0
    pam_blocks = [m for m in moves if m.startswith('p ')]
    blk_items = [d for d in out_items if d['kind'] == 'blk']
    used = set()
    for mv, mloc in zip(pam_blocks, stats.get('_plocs', [])):
        d = None
        for ii, cand in enumerate(blk_items):
            if ii not in used and tuple(cand['loc']) == tuple(mloc):
                d = cand
                used.add(ii)
                break
        if d is None:
            worst = max(worst, 9.0)      # emitted block not found in the output
            continue
        t = [int(x) for x in mv.split()[1:]]
        if len(t) < 2 or len(t) < 2 + 2 * t[1] + 2:
            worst = max(worst, 9.0)
            continue
        k = t[1]
        p1, p2 = t[2:2 + k], t[2 + k:2 + 2 * k]
        rest = t[2 + 2 * k:]
        m1 = rest[0]
        s1 = [(rest[1 + 2 * i], rest[2 + 2 * i]) for i in range(m1)]
        rest = rest[1 + 2 * m1:]
        m2 = rest[0]
        s2 = [(rest[1 + 2 * i], rest[2 + 2 * i]) for i in range(m2)]
        ploc = list(d['loc'])
        ops = [(SW, (ploc.index(a), ploc.index(b))) for a, b in s1]
        ops.append((d['U'], tuple(range(k))))
        ops += [(SW, (ploc.index(a), ploc.index(b))) for a, b in s2]
        ideal = local_unitary(ops, k, r) if k > 1 else d['U']
        worst = max(worst, phase_dist(d['V'], ideal))
        bi += 1
    res['variant_dev'] = worst
    tol = 1e-7 if spec['source'] == 'fab' else 5e-5
    if worst > tol:
        res['viol'].append(('pam-variant-not-permuted-block',
                            f'a PAM variant block differs from (virtual swaps . original block '
                            f'. virtual swaps) by {worst:.3g}', rep({'snap': snap}), True))
    if verr is not None and not res['viol']:
        vtol = 1e-6 if spec['source'] == 'fab' else 1e-3
        if isinstance(verr, str) or verr > vtol:
            res['viol'].append((
                'pam-verification-disagrees',
                f'PAM verification (verify.py: TagPAMBlockDataPass, CalculatePAMErrorsPass, '
                f'UnTagPAMBlockDataPass) reports {verr} for a routed circuit whose every variant '
                f'block equals its permuted original (max deviation {worst:.2g}) and which the '
                'independent oracles accept', rep({'snap': snap}), False))
    if U_in is not None:
        nrng = np.random.default_rng(spec['seed'] + 7)
        U_out = c.get_unitary().numpy
        dev = H.o_end_to_end(U_in, im0, fm0, U_out, snap['im5'], snap['fm5'], n, N, r, nrng)
        res['e2e'] = dev
        if dev > (H.TOL if spec['source'] == 'fab' else 1e-4):
            res['viol'].append((
                'end-to-end-unitary-mismatch',
                f'PAM: output circuit on states embedded at initial_mapping differs from the '
                f'input circuit read at final_mapping (deviation {dev:.3g})',
                rep({'out': out_texts, 'snap': snap}), True))
    return res
