"""Worker process of the shared runtime batch: `python -m harness.runtime_worker
batch|exh <seed> <tier> <k> <nproc> <with_model> <outfile>`.  Separate
interpreter processes (not forked pool workers) - each imports bqskit itself."""
import pickle
import sys
import warnings


def main(argv):
    warnings.simplefilter('ignore')
    kind, seed, tier, k, nproc, with_model, outfile = argv
    seed, k, nproc = int(seed), int(k), int(nproc)
    from harness import runtime_check as rc
    if kind == 'batch':
        N = rc.n_runs(tier)
        out = rc._run_chunk((seed, list(range(k, N, nproc)), with_model == '1'))
    else:
        jobs = rc.exhaustive_jobs(seed, tier)
        out = [rc._exh_job(j) for j in jobs[k::nproc]]
    with open(outfile, 'wb') as f:
        pickle.dump(out, f)


if __name__ == '__main__':
    main(sys.argv[1:])
