"""C02 -- thin entry point over the shared pipeline harness (harness/pipeline.py)."""
from harness.common import Check
from harness.pipeline import run_check


def run(ck: Check):
    run_check(ck, 'C02')
