"""C17 workload streams (see harness/c17.py for the overview)."""
from __future__ import annotations

import math
import random
import re
import warnings

import numpy as np

from harness import c17_gen as gen
from harness.c17 import (Run, bq_timeline, bq_unitary, canon, esc, fmt_ops, gate_id,
                         impl_ops, library_instances, ops_diff, parse_model, phase_dist,
                         unesc, bits_to_float)
from harness.c17_gen import Bad

HDR = 'OPENQASM 2.0;\ninclude "qelib1.inc";\n'


def sig_key(text):
    return re.sub(r'\s+', ' ', text)


# =============================================================== lib: encode -> decode
def roundtrip(r: Run, stream, c, label, spelling=None, full=True, want_print=True):
    """circuit -> to('qasm') -> decode; returns True when the circuit survives."""
    ck = r.ck
    ck.count((stream, label, repr(impl_ops(c))))
    try:
        text = c.to('qasm')
    except Exception as e:
        ck.violation(
            f'C17-roundtrip-encode-fails:{spelling or label}',
            f'a circuit whose gates all have a QASM spelling cannot be written: '
            f'{type(e).__name__}: {str(e)[:120]}',
            {'stream': stream, 'label': label, 'ops': fmt_ops(impl_ops(c))})
        return False
    c2, exc = r.impl_decode(text)
    r.correspond(stream, text, c2, exc)
    if label in ('CUGate', 'random-2'):
        ck.sample({'stream': stream, 'circuit': fmt_ops(impl_ops(c))[:400], 'qasm': text[:600],
                   'decoded': fmt_ops(impl_ops(c2))[:400] if c2 is not None else exc}, limit=12)
    if c2 is None:
        ck.violation(
            f'C17-roundtrip-unreadable:{spelling or label}',
            f'bqskit cannot read back its own QASM output ({exc}); gate spelling '
            f'{spelling or label!r}',
            {'stream': stream, 'label': label, 'text': text, 'exception': exc})
        return False
    ok = True
    a, b = canon(impl_ops(c)), canon(impl_ops(c2))
    d = None
    if c2.num_qudits != c.num_qudits:
        d = 'num_qudits'
    elif full:
        d = ops_diff(a, b, 1e-14)
    else:
        if [op.location for op in c] != [op.location for op in c2]:
            d = 'locations'
    if d is None and c.num_qudits <= 6:
        try:
            if phase_dist(bq_unitary(c), bq_unitary(c2)) > 1e-9:
                d = 'unitary'
        except BaseException as e:   # pragma: no cover (pyo3 panics are BaseException)
            if isinstance(e, (KeyboardInterrupt, SystemExit)):
                raise
            d = f'unitary: {type(e).__name__}'
    if d:
        ok = False
        ck.violation(
            f'C17-roundtrip-changes-program:{spelling or label}',
            f'decode(encode(circuit)) is a different program ({d})',
            {'stream': stream, 'label': label, 'text': text, 'before': fmt_ops(a),
             'after': fmt_ops(b)})
    if want_print and all(x[0] in ('G', 'R', 'Z', 'M') for x in impl_ops(c)) and \
            all(op.gate.get_qasm_gate_def() == '' or x[0] == 'M'
                for op, x in zip(c, impl_ops(c))):
        # the Lean printer model must produce the very same text
        from bqskit.ir.gates import MeasurementPlaceholder
        cregs = re.findall(r'^creg (\w+)\[(\d+)\];$', text, re.M)
        parts = [str(c.num_qudits), ' '.join(f'{a} {b}' for a, b in cregs)]
        for op in c:
            if isinstance(op.gate, MeasurementPlaceholder):
                for qd, (nm, idx) in op.gate.measurements.items():
                    parts.append(f'measure : {qd} {nm} {idx}')
                continue
            ps = op.params
            if hasattr(op.gate, 'get_full_params'):      # FrozenParameterGate
                ps = op.gate.get_full_params(op.params)
            parts.append(' '.join([op.gate.qasm_name] + [str(p) for p in ps] + [':']
                                  + [str(q) for q in op.location]))
        if all(' ' not in op.gate.qasm_name and '(' not in op.gate.qasm_name for op in c):
            def cb(out, text=text, label=label):
                ck.bump('traces_validated_against_impl')
                good = out.startswith('ok true ') and unesc(out[8:]) == text
                if not good:
                    ck.violation(
                        'C17-correspondence:printer',
                        'the encoder text differs from the Lean printer model '
                        '(BqVerif.Qasm.printProgramM), or the model text does not lex to '
                        'the token string the round-trip theorem is stated on',
                        {'stream': stream, 'label': label, 'text': text, 'model': out,
                         'broken': 'correspondence qasm printer'}, found_input=False)
            r.ask('printm ' + ' | '.join(parts), cb)
    return ok


def check_gate_defs(r: Run, circuit, stream):
    """`CircuitGate.get_qasm_gate_def` against the Lean printer model (`printGateDef`): the
    block's own definition is the last `gate … { … }` of the text the real method returns
    (definitions of nested blocks come first)."""
    from bqskit.ir.gates import CircuitGate
    ck = r.ck
    for g in circuit.gate_set:
        if not isinstance(g, CircuitGate):
            continue
        text = g.get_qasm_gate_def()
        own = 'gate ' + text.split('gate ')[-1]
        name = own.split()[1]
        body = []
        okb = True
        for op in g._circuit:
            if isinstance(op.gate, CircuitGate):
                h = hash(op.gate)
                sp = f'circuitgate_{-h if h < 0 else h}'
            else:
                sp = op.gate.qasm_name
            if ' ' in sp or '|' in sp:
                okb = False
            body.append(' '.join([sp, str(op.num_params)] + [str(q) for q in op.location]))
            check_gate_defs(r, op.gate._circuit, stream) if isinstance(op.gate, CircuitGate) \
                else None
        if not okb:
            continue
        ck.count((stream, 'gatedef', own))

        def cb(out, own=own):
            ck.bump('traces_validated_against_impl')
            if not (out.startswith('ok ') and unesc(out[3:]) == own):
                ck.violation(
                    'C17-correspondence:printer-gatedef',
                    'CircuitGate.get_qasm_gate_def differs from the Lean printer model '
                    '(BqVerif.Qasm.printGateDef)',
                    {'stream': stream, 'impl': own, 'model': out,
                     'broken': 'correspondence qasm printer'}, found_input=False)
        r.ask(f'printdef {name} {g.num_params} {g.num_qudits} | ' + ' | '.join(body), cb)


def stream_lib(r: Run, ncirc):
    from bqskit.ir.circuit import Circuit
    from bqskit.ir.gates import (BarrierPlaceholder, CircuitGate, MeasurementPlaceholder,
                                 Reset)
    ck, rng = r.ck, r.rng
    stable = []
    for label, g in library_instances():
        try:
            if not g.is_qubit_only():
                ck.bump('lib_gates', 'non-qubit')
                continue
            spelling = g.qasm_name
        except Exception:
            ck.bump('lib_gates', 'no-spelling')
            continue
        ck.bump('lib_gates', 'spelled')
        good = True
        for _ in range(2):
            n = g.num_qudits + rng.randint(0, 2)
            loc = rng.sample(range(n), g.num_qudits)
            ps = [rng.uniform(-math.pi, math.pi) if rng.random() < 0.8 else
                  rng.choice([0.0, 1e-05, -1e-07, 1e+20, 12345.678, -0.5, 3.0])
                  for _ in range(g.num_params)]
            c = Circuit(n)
            c.append_gate(g, loc, ps)
            c2, _ = r.impl_decode(c.to('qasm')) if _encodable(c) else (None, None)
            same_gate = c2 is not None and c2.num_operations == 1 and \
                gate_id(next(iter(c2)).gate) == gate_id(g)
            good = roundtrip(r, 'lib', c, label, spelling, full=same_gate) and good \
                and same_gate
        if good and not isinstance(g, (BarrierPlaceholder, Reset, MeasurementPlaceholder,
                                       CircuitGate)):
            stable.append(g)
    ck.coverage['lib_stable_gates'] = len(stable)

    def rand_circuit(n, nops, depth):
        c = Circuit(n)
        for _ in range(nops):
            x = rng.random()
            if depth > 0 and x < 0.15 and n >= 1:
                k = rng.randint(1, min(3, n))
                sub = rand_circuit(k, rng.randint(1, 4), depth - 1)
                if sub.num_operations == 0:
                    continue
                c.append_gate(CircuitGate(sub), rng.sample(range(n), k), sub.params)
            elif x < 0.22 and depth == 2:
                k = rng.randint(1, min(3, n))
                c.append_gate(BarrierPlaceholder(k), rng.sample(range(n), k))
            elif x < 0.26 and depth == 2:
                c.append_gate(Reset(), rng.randrange(n))
            elif x < 0.30 and depth == 2:
                q = rng.randrange(n)
                c.append_gate(MeasurementPlaceholder([('c', n), ('aux', 2)],
                                                     {q: ('c', rng.randrange(n))}), q)
            else:
                g = rng.choice([h for h in stable if h.num_qudits <= n])
                c.append_gate(g, rng.sample(range(n), g.num_qudits),
                              [rng.uniform(-7, 7) for _ in range(g.num_params)])
        return c
    for i in range(ncirc):
        n = rng.choice([1, 2, 3, 4, 5, 6, 6, 8, 11])
        c = rand_circuit(n, rng.randint(1, 14), 2)
        roundtrip(r, 'lib-circuit', c, f'random-{i}', 'random-circuit')
        if i % 3 == 0:
            check_gate_defs(r, c, 'lib-circuit')
        ck.bump('lib_circuit_qubits', str(n))
        if i < 3:       # the file front end: Circuit.save / Circuit.from_file
            import os
            import tempfile
            with tempfile.TemporaryDirectory(prefix='c17-') as td:
                fn = os.path.join(td, f'c{i}.qasm')
                try:
                    c.save(fn)
                    back = Circuit.from_file(fn)
                    same = open(fn).read() == c.to('qasm') and ops_diff(
                        canon(impl_ops(back)), canon(impl_ops(c)), 1e-14) is None
                except BaseException as e:
                    if isinstance(e, (KeyboardInterrupt, SystemExit)):
                        raise
                    same = False
                ck.count(('lib-file', i))
                if not same:
                    ck.violation('C17-roundtrip-file',
                                 'Circuit.save / Circuit.from_file do not round-trip a circuit '
                                 'that to(qasm)/decode round-trips',
                                 {'stream': 'lib-circuit', 'text': c.to('qasm')})


def _encodable(c):
    try:
        c.to('qasm')
        return True
    except Exception:
        return False


# =============================================================== prog: subset programs
def check_program(r: Run, stream, text, ref, use_qiskit, sig=None, what=None,
                  replay_extra=None, prog=None):
    """bqskit's reading of `text` against the reference reading `ref = (n, ops)` (from the
    generated structure), Qiskit's reading, and the Lean model's."""
    ck = r.ck
    n_ref, ops_ref = ref
    c, exc = r.impl_decode(text)
    found = []
    sig_prefix = 'C17-subset-program'

    def report(signature, message, rp):
        if sig:     # a confirmed known defect: one signature for everything it causes
            ck.violation(sig, (what + ' -- ' if what else '') + message, rp)
        else:
            ck.violation(signature, message, rp)
    info = {'stream': stream, 'text': text, **(replay_extra or {})}
    rops = canon(r.ref_expect(n_ref, ops_ref))
    qc = None
    if use_qiskit:
        try:
            qc = r.qk.load(text)
        except Exception as e:
            ck.bump('qiskit_rejects_generated_program')
            ck.sample({'qiskit_rejects': text, 'why': str(e)[:200]}, limit=10)
            qc = None
    if c is None:
        found.append('rejected')
        report(
            f'{sig_prefix}-rejected', f'a program of the supported subset is rejected ({exc})',
            {**info, 'exception': exc, 'reference': fmt_ops(rops),
             'qiskit_accepts': qc is not None})
    else:
        iops_seq = impl_ops(c)
        iops = canon(iops_seq)
        d = 'num_qudits' if c.num_qudits != n_ref else ops_diff(iops, rops)
        if d:
            found.append(d)
            kind = d.split()[0]
            report(
                f'{sig_prefix}-misread:{kind}',
                f'the decoded circuit differs from the meaning of the program ({d})',
                {**info, 'impl': fmt_ops(iops), 'reference': fmt_ops(rops)})
        if qc is not None:
            if qc.num_qubits != c.num_qudits:
                found.append('qiskit-width')
                report(f'{sig_prefix}-misread:width-vs-qiskit',
                       'Qiskit reads a different number of qubits',
                       {**info, 'qiskit': qc.num_qubits, 'bqskit': c.num_qudits})
            else:
                if c.num_qudits <= 6:
                    ck.bump('qiskit_unitaries_compared')
                    try:
                        dist = phase_dist(r.qk.unitary(qc), bq_unitary(c))
                    except (Exception, BaseException) as e:   # absurd values after a misread
                        if isinstance(e, (KeyboardInterrupt, SystemExit)):
                            raise
                        ck.bump('unitary_not_computable')
                        dist = 0.0 if found else 1.0
                    if dist > 1e-7:
                        found.append('qiskit-unitary')
                        report(
                            f'{sig_prefix}-unitary-differs-from-qiskit',
                            'the decoded circuit and Qiskit\'s reading of the same text '
                            f'have different unitaries (1-|tr|/N = {dist:.3g})',
                            {**info, 'impl': fmt_ops(iops), 'distance': dist})
                tq, tb = r.qk.timeline(qc), bq_timeline(c.num_qudits, iops_seq)
                if tq != tb:
                    found.append('qiskit-timeline')
                    report(
                        f'{sig_prefix}-misread:timeline-vs-qiskit',
                        'per-qubit order of gates / measure / reset / barrier differs '
                        'from Qiskit\'s reading',
                        {**info, 'qiskit': repr(tq), 'bqskit': repr(tb)})
    r.correspond(stream, text, c, exc, reported=lambda: bool(found))

    # the Lean reference elaboration (Model/QasmSpec) against the Python reference: the two
    # independently written statements of what the program means must coincide
    def cb_spec(out, rops=rops, n_ref=n_ref):
        ck.bump('spec_vs_reference')
        m = parse_model(out)
        why = None
        if m is None:
            why = 'Lean spec rejects the program'
        elif m[0] != n_ref:
            why = f'num_qubits {m[0]} vs {n_ref}'
        else:
            why = ops_diff(canon(m[2]), rops)
        if why:
            ck.violation('C17-spec-vs-reference',
                         'the Lean reference elaboration (BqVerif.Qasm.specDecode) and the '
                         f'Python reference elaboration disagree ({why}) -- a problem of the '
                         'check, not of bqskit',
                         {**info, 'why': why, 'lean_spec': out, 'reference': fmt_ops(rops),
                          'broken': 'spec correspondence'}, found_input=False)
    r.ask('spec ' + esc(text), cb_spec)
    return c, found


def stream_prog(r: Run, nprog):
    ck, rng = r.ck, r.rng
    made = 0
    tries = 0
    while made < nprog and tries < nprog * 5:
        tries += 1
        use_qiskit = made % 4 != 3
        p = gen.gen_program(rng, r.builtins, r.common, qiskit_ok=use_qiskit,
                            max_qubits=6 if made % 7 else 9)
        try:
            n, cregs, ops = gen.Ref(r.builtins).run(p)
        except Bad:
            continue
        if _bad_values(ops):
            continue
        text = gen.render(p, rng)
        made += 1
        ck.count(('prog', sig_key(text)))
        ck.bump('prog_qubits', str(n))
        ck.bump('prog_features', 'user-gates' if any(s[0] == 'gatedef' for s in p.stmts)
                else 'flat')
        for s in p.stmts:
            ck.bump('prog_statements', s[0])
        if made in (3, 40):
            ck.sample({'stream': 'prog', 'program': text}, limit=12)
        check_program(r, 'prog', text, (n, ops), use_qiskit, prog=p)


def stream_body(r: Run, full, nrandom):
    """Gate-body arguments, grammar-directed (deterministic, the same on every seed): every
    operator form applied directly to formal parameters through 1-3 levels of user-gate
    nesting (`nested_form_programs`), every operator shape of depth <= 2 over {formal,
    literal, pi} as an argument of rz / u3 / U / a nested gate (`body_shape_programs`),
    each under positive, mixed and negative actuals; plus seeded random bodies made of
    direct forms only."""
    ck, rng = r.ck, r.rng
    progs = [('nested', p) for p in gen.nested_form_programs(r.builtins)]
    progs += [('shape', p) for p in gen.body_shape_programs(r.builtins, full)]
    for _ in range(nrandom):
        p = gen.Prog()
        p.stmts += [('include',), ('qreg', 'q', 2)]
        names = []
        for d in range(rng.randint(1, 3)):
            fs = rng.sample(['a', 'b', 'theta'], rng.randint(1, 2))
            body = []
            for _ in range(rng.randint(1, 3)):
                if names and rng.random() < 0.6:
                    g, k = rng.choice(names)
                else:
                    g, k = rng.choice([('rz', 1), ('u2', 2), ('u3', 3), ('rx', 1)])
                acts = []
                while len(acts) < k:
                    e = gen.direct_form(rng, fs)
                    if gen.screen_expr(rng, e, fs):
                        acts.append(e)
                body.append(('call', g, acts, ['x']))
            p.stmts.append(('gatedef', f'g{d}', fs, ['x'], body))
            names.append((f'g{d}', len(fs)))
        calls = []
        for va, vb in gen.BINDINGS:
            for g, k in names:
                calls.append(('call', g, [gen._lit(va), gen._lit(vb)][:k], [('q', 0)]))
        gen._keep_calls(p, r.builtins, calls)
        progs.append(('random', p))
    for kind, p in progs:
        try:
            n, cregs, ops = gen.Ref(r.builtins).run(p)
        except Bad:
            ck.bump('body_skipped')
            continue
        if _bad_values(ops) or not any(s[0] == 'call' for s in p.stmts):
            ck.bump('body_skipped')
            continue
        text = gen.render(p, rng, extra=0.0)
        ck.count(('body', sig_key(text)))
        ck.bump('body_programs', kind)
        if ck.coverage.get('body_programs', {}).get(kind) == 4:
            ck.sample({'stream': 'body', 'kind': kind, 'program': text}, limit=16)
        check_program(r, 'body', text, (n, ops), True, prog=p)
    ck.coverage['body_expression_shapes'] = len(gen._shapes())
    ck.coverage['body_expressions'] = len(gen.body_shape_exprs(full))


def _bad_values(ops):
    for op in ops:
        if op[0] == 'G' and not all(gen.finite_ok(float(p)) for p in op[3]):
            return True
        if op[0] == 'B' and _bad_values(op[3]):
            return True
    return False


# =============================================================== expr
def lark_sexpr(t):
    """Lark's tree of an `exp`, in the Lean model's printing (flat children -> left-nested)."""
    import lark
    if isinstance(t, lark.Token):
        if t.type in ('REAL', 'NNINTEGER'):
            return f'(num {t})'
        return f'(id {t})'
    d, ch = t.data, t.children
    if d in ('exp', 'mulexp'):
        acc = lark_sexpr(ch[0])
        i = 1
        while i < len(ch):
            acc = f'(bin {ch[i]} {acc} {lark_sexpr(ch[i + 1])})'
            i += 2
        return acc
    if d == 'primaryexp':
        return lark_sexpr(ch[0])
    if d == 'parenexp':
        return f'(paren {lark_sexpr(ch[0])})'
    if d == 'usub':
        return f'(usub {lark_sexpr(ch[0])})'
    if d == 'pow':
        return f'(pow {lark_sexpr(ch[0])} {lark_sexpr(ch[1])})'
    if d == 'unaryexp':
        return f'(call {ch[0].children[0]} {lark_sexpr(ch[1])})'
    raise AssertionError(d)


def expr_case(r: Run, stream, etext, refval, expect_ok=True, sig=None, what=None):
    """One expression as the parameter of rz: value by bqskit, model, reference, Qiskit."""
    from bqskit.ir.lang.qasm2.parser import parse
    from bqskit.ir.lang.qasm2.visitor import eval_exp_recurse
    ck = r.ck
    text = HDR + f'qreg q[1];\nrz({etext}) q[0];\n'
    ck.count((stream, etext))
    c, exc = r.impl_decode(text)
    ival = float(c.params[0]) if c is not None else None
    found = []
    info = {'stream': stream, 'expression': etext, 'text': text, 'reference': refval}
    qval = None
    try:
        qval = float(r.qk.load(text).data[0].operation.params[0])
    except Exception:
        pass
    if refval is not None and qval is not None and not gen.close(refval, qval):
        ck.violation('C17-oracles-disagree:expression',
                     f'reference value {refval!r} and Qiskit {qval!r} disagree on {etext!r} '
                     '(a problem of the check, not of bqskit)', info, found_input=False)
    if refval is not None:
        if ival is None:
            found.append('rejected')
            ck.violation(sig or 'C17-expression-rejected',
                         what or f'a valid parameter expression is rejected ({exc}): {etext!r}',
                         {**info, 'exception': exc, 'qiskit': qval})
        elif not gen.close(ival, refval):
            found.append('value')
            ck.violation(sig or 'C17-expression-misread',
                         what or f'parameter expression {etext!r} is read as {ival!r}; its '
                         f'value is {refval!r} (Qiskit: {qval!r})',
                         {**info, 'impl': ival, 'qiskit': qval})
    # the Lark tree and the Python text, when the text parses
    ltree = ptxt = None
    try:
        tree = parse(text)
        ex = list(tree.find_data('explist'))[0].children[0]
        ltree = lark_sexpr(ex)
        ptxt = eval_exp_recurse(ex)
    except Exception:
        pass

    if etext in ('-2^2', '2*(1+2)', 'sqrt(2)/2'):    # representative samples for the evidence
        ck.sample({'stream': stream, 'expression': etext, 'bqskit': ival, 'reference': refval,
                   'qiskit': qval, 'lark_tree': ltree, 'python_text': ptxt}, limit=12)

    def cb(out):
        ck.bump('traces_validated_against_impl')
        why = None
        if out == 'err':
            if ltree is not None:
                why = 'model cannot parse the expression, Lark can'
        else:
            mt, mp, mv, ms = [x.strip() for x in out[3:].split('|')]
            if ltree is None:
                why = 'model parses the expression, Lark does not'
            elif mt != ltree:
                why = f'tree shape: Lark {ltree} model {mt}'
            elif mp.replace(' ', '') != ptxt.replace(' ', ''):
                why = f'python text: impl {ptxt!r} model {mp!r}'
            elif (mv == 'err') != (ival is None):
                why = f'value: impl {ival!r} model {mv}'
            elif ival is not None and math.isfinite(ival) and \
                    not gen.close(ival, bits_to_float(mv)):
                why = f'value: impl {ival!r} model {bits_to_float(mv)!r}'
            elif refval is not None and (ms == 'err' or
                                         not gen.close(refval, bits_to_float(ms))):
                why = f'reference reading: {refval!r} vs model spec {ms}'
        if why and not found:
            ck.violation('C17-correspondence:expr',
                         f'expression {etext!r}: implementation and Lean model disagree '
                         f'({why})', {**info, 'why': why, 'model': out,
                                      'broken': 'correspondence qasm expr'},
                         found_input=False)
    r.ask('exp ' + esc(etext), cb)
    return ival, found


def py_ref(etext):
    try:
        return gen.py_value(etext.replace('^', '**'), {})
    except (Bad, SyntaxError, NameError):
        return None


def stream_expr(r: Run, nrand):
    rng = r.rng
    for e in gen.EDGE_EXPRS + gen.EDGE_PAREN_OK:
        expr_case(r, 'expr-edge', e, py_ref(e))
    for _ in range(nrand):
        t = gen.expr_for(rng, [], rng.choice([1, 2, 3, 4, 5]))
        try:
            v = gen.e_eval(t, {})
        except Bad:
            continue
        expr_case(r, 'expr-random', gen.toks_text(gen.e_tokens(t, 1, rng, 0.15), rng), v)


# =============================================================== formerly defective constructs
def stream_regress(r: Run, nrand):
    """The constructs the reader used to get wrong (repaired by the fix: commits 086cad2 …
    6cd2451 in /repo): parenthesised sub-expressions, sqrt/exp, negative actual parameters
    under `^`, lists of whole registers, reset / measure of a later register, two measurement
    placeholders in one circuit.  Ordinary cases now: any disagreement is a violation."""
    ck, rng = r.ck, r.rng
    cases = list(gen.EDGE_PAREN) + list(gen.EDGE_FUN)
    for _ in range(nrand):
        for _ in range(50):
            t = gen.gen_expr(rng, rng.choice([2, 3, 4]), [])
            toks = gen.e_tokens(t, 1, rng, 0.0)
            try:
                v = gen.e_eval(t, {})
                s_ = gen.py_value(gen.toks_python(toks, True), {})
            except Bad:
                continue
            if gen.finite_ok(v) and gen.finite_ok(s_) and not gen.close(v, s_):
                cases.append(gen.toks_text(toks))      # needs its parentheses
                break
    for e in cases:
        expr_case(r, 'regress-expr', e, py_ref(e))
    expr_case(r, 'regress-expr', 'EXP(1)', None)       # not OpenQASM: rejected by everyone
    # negative actual parameter under '^'
    for k in range(max(4, nrand // 4)):
        a = rng.choice([-2.0, -1.5, -0.5, -3.0, -1e-05])
        ex = rng.choice(['a^2', '2*a^2', 'a^2+1', 'b+a^2', '-a^2', 'a^2^1', 'a^b*a', '1/a^3'])
        text = HDR + ('qreg q[2];\ngate g(a,b) x { rz(%s) x; }\ng(%r,0.25) q[1];\n'
                      % (ex, a))
        try:
            refv = gen.py_value(ex.replace('^', '**'), {'a': a, 'b': 0.25})
        except Bad:
            continue
        ref = (2, [('B', 1, (1,), [('G', 'rz', (0,), (refv,))])])
        check_program(r, 'regress-negpow', text, ref, True)
        ck.count(('regress-negpow', text))
    # lists of whole registers
    for text, ref in [
        (HDR + 'qreg q[2];\nqreg r[1];\nh q[0];\nbarrier q, r;\nh r[0];\n',
         (3, [('G', 'h', (0,), ()), ('R', (0, 1, 2)), ('G', 'h', (2,), ())])),
        (HDR + 'qreg q[1];\nqreg r[1];\ncx q, r;\n', (2, [('G', 'cx', (0, 1), ())])),
        (HDR + 'qreg q[1];\nqreg r[1];\nqreg w[2];\nbarrier q, r, w[1];\n',
         (4, [('R', (0, 1, 3))])),
        (HDR + 'qreg q[1];\nqreg r[2];\nqreg w[1];\nbarrier w, r, q;\n',
         (4, [('R', (3, 1, 2, 0))])),
    ]:
        check_program(r, 'regress-idlist', text, ref, True)
        ck.count(('regress-idlist', text))
    # reset of a whole register other than the first
    for sizes in [(2, 3), (1, 2), (3, 1), (2, 2, 2)]:
        names = ['q', 'r', 'w'][:len(sizes)]
        k = rng.randrange(1, len(sizes))
        text = HDR + ''.join(f'qreg {n}[{s_}];\n' for n, s_ in zip(names, sizes)) \
            + f'h {names[k]}[0];\nreset {names[k]};\n'
        off = sum(sizes[:k])
        ref = (sum(sizes), [('G', 'h', (off,), ())] + [('Z', off + i) for i in range(sizes[k])])
        check_program(r, 'regress-reset', text, ref, True)
        ck.count(('regress-reset', text))
    # measure r[i] -> c[j] on a later register
    for sizes, k, i, j in [((2, 3), 1, 1, 2), ((1, 2), 1, 0, 0), ((2, 2, 2), 2, 1, 0)]:
        names = ['q', 'r', 'w'][:len(sizes)]
        text = HDR + ''.join(f'qreg {n}[{s_}];\n' for n, s_ in zip(names, sizes)) \
            + f'creg c[3];\nx {names[k]}[{i}];\nmeasure {names[k]}[{i}] -> c[{j}];\n'
        off = sum(sizes[:k])
        ref = (sum(sizes), [('G', 'x', (off + i,), ()),
                            ('M', (off + i,), ((off + i, 'c', j),))])
        check_program(r, 'regress-measure', text, ref, True)
        ck.count(('regress-measure', text))
    # circuits with several measurement placeholders: encode -> decode
    from bqskit.ir.circuit import Circuit
    from bqskit.ir.gates import HGate, MeasurementPlaceholder
    for nq in (2, 3):
        c = Circuit(nq)
        c.append_gate(HGate(), 0)
        regs = [('c', nq), ('d', 1)]
        for q in range(nq):
            c.append_gate(MeasurementPlaceholder(regs, {q: ('c', nq - 1 - q)}), q)
        c.append_gate(HGate(), nq - 1)
        c.append_gate(MeasurementPlaceholder(regs, {nq - 1: ('d', 0)}), nq - 1)
        roundtrip(r, 'regress-creg', c, f'measure-{nq}', 'measure')


# =============================================================== malformed
def stream_malformed(r: Run, nrand):
    """Programs outside the subset.  class 'reject': must raise; 'ignore': documented as
    ignored (accepted, reading compared with the model only)."""
    ck, rng = r.ck, r.rng
    Q2 = HDR + 'qreg q[2];\nqreg r[2];\ncreg c[2];\n'
    fam = []

    def add(family, cls, body, header=Q2):
        fam.append((family, cls, header + body))
    add('index-out-of-range', 'reject', 'h q[2];\n')
    add('index-out-of-range', 'reject', 'h q[3];\n')
    add('index-out-of-range', 'reject', 'cx q[0],q[2];\n')
    add('index-out-of-range', 'reject', 'CX q[3],q[0];\n')
    add('index-out-of-range', 'reject', 'U(1,2,3) q[2];\n')
    add('index-out-of-range', 'reject', 'barrier q[2];\n')
    add('index-out-of-range', 'reject', 'reset q[2];\n')
    add('index-out-of-range', 'reject', 'measure q[2] -> c[0];\n')
    add('clbit-index-out-of-range', 'reject', 'measure q[0] -> c[2];\n')
    add('clbit-index-out-of-range', 'reject', 'measure q[0] -> c[5];\n')
    add('clbit-index-out-of-range', 'reject', 'measure r[1] -> c[2];\n')
    add('clbit-index-out-of-range', 'reject', 'creg d[4];\nmeasure q[1] -> c[3];\n')
    add('clbit-index-out-of-range', 'reject', 'creg d[1];\nmeasure q[1] -> d[1];\n')
    add('index-beyond-circuit', 'reject', 'h r[2];\n')
    add('index-beyond-circuit', 'reject', 'h r[7];\n')
    add('index-beyond-circuit', 'reject', 'CX q[0],r[5];\n')
    add('undefined-register', 'reject', 'h s[0];\n')
    add('undefined-register', 'reject', 'CX q[0],s[0];\n')
    add('undefined-register', 'reject', 'U(0,0,0) s[0];\n')
    add('undefined-register', 'reject', 'barrier s;\n')
    add('undefined-register', 'reject', 'measure s[0] -> c[0];\n')
    add('undefined-register', 'reject', 'measure q[0] -> d[0];\n')
    add('undefined-register', 'reject', 'h q[0];\n', header='OPENQASM 2.0;\n')
    add('use-before-declaration', 'reject', 'h s[0];\nqreg s[1];\n')
    add('undefined-gate', 'reject', 'foo q[0];\n')
    add('undefined-gate', 'reject', 'gate g x { foo x; }\n')
    add('undefined-gate', 'reject', 'gate g x { g x; }\n')
    add('undefined-gate', 'reject', 'g q[0];\ngate g x { h x; }\n')
    add('arity', 'reject', 'rz q[0];\n')
    add('arity', 'reject', 'rz(1,2) q[0];\n')
    add('arity', 'reject', 'h(1) q[0];\n')
    add('arity', 'reject', 'cx q[0];\n')
    add('arity', 'reject', 'h q[0],q[1];\n')
    add('arity', 'reject', 'U(1,2) q[0];\n')
    add('arity', 'reject', 'gate g(a) x { rz(a) x; }\ng q[0];\n')
    add('arity', 'reject', 'gate g(a) x { rz(a) x; }\ng(1) q[0],q[1];\n')
    add('arity', 'reject', 'gate g x { cx x; }\n')
    add('arity', 'reject', 'h q;\n')              # broadcast is not supported
    add('duplicate-qubit', 'reject', 'cx q[0],q[0];\n')
    add('duplicate-qubit', 'reject', 'CX q[1],q[1];\n')
    add('duplicate-qubit', 'reject', 'ccx q[0],r[0],q[0];\n')
    add('duplicate-qubit', 'reject', 'barrier q[0],q[0];\n')
    add('duplicate-qubit', 'reject', 'barrier q,q[1];\n')
    add('duplicate-qubit', 'reject', 'gate g x,y { cx x,x; }\ng q[0],q[1];\n')
    add('duplicate-qubit', 'reject', 'gate g x,y { CX x,x; }\n')
    add('redeclared-register', 'reject', 'qreg q[1];\n')
    add('redeclared-register', 'reject', 'creg c[1];\n')
    add('unknown-identifier', 'reject', 'rz(a) q[0];\n')
    add('unknown-identifier', 'reject', 'rz(2*foo) q[0];\n')
    add('unknown-identifier', 'reject', 'gate g(a) x { rz(b) x; }\n')
    add('unknown-identifier', 'reject', 'gate g(a) x { rz(a+b) x; }\ng(1) q[0];\n')
    add('unknown-identifier', 'reject', 'gate g x,y { cx x,z; }\n')
    add('syntax', 'reject', 'h q[0]\nh q[1];\n')
    add('syntax', 'reject', 'rz(1+) q[0];\n')
    add('syntax', 'reject', 'rz((1) q[0];\n')
    add('syntax', 'reject', 'rz(1)) q[0];\n')
    add('syntax', 'reject', 'rz(1 2) q[0];\n')
    add('syntax', 'reject', 'rz(2pi) q[0];\n')
    add('syntax', 'reject', 'rz(1,) q[0];\n')
    add('syntax', 'reject', 'rz(*2) q[0];\n')
    add('syntax', 'reject', 'rz(2**3) q[0];\n')
    add('syntax', 'reject', 'rz(1e) q[0];\n')
    add('syntax', 'reject', 'rz(1.2.3) q[0];\n')
    add('syntax', 'reject', 'h q[0];;\n')
    add('syntax', 'reject', 'h q[0] q[1];\n')
    add('syntax', 'reject', 'h @q[0];\n')
    add('syntax', 'reject', 'h q[-1];\n')
    add('syntax', 'reject', 'h q[0.0];\n')
    add('syntax', 'reject', 'h q[01];\n')
    add('syntax', 'reject', 'qreg t[];\n')
    add('syntax', 'reject', 'gate g x { h x;\n')
    add('syntax', 'reject', 'gate g x h x; }\n')
    add('syntax', 'reject', 'gate g { h x; }\n')
    add('syntax', 'reject', 'gate g x { h x[0]; }\n')
    add('syntax', 'reject', 'gate g x { barrier x; }\n')     # first body statement
    add('syntax', 'reject', 'measure q[0] c[0];\n')
    add('syntax', 'reject', 'measure q[0] -> ;\n')
    add('syntax', 'reject', 'h q[0];\n', header='include "qelib1.inc";\nqreg q[2];\n')
    add('syntax', 'reject', '', header='OPENQASM 2.0;\n')
    add('syntax', 'reject', 'rz(007) q[0];\n')
    add('syntax', 'reject', 'include "qelib1.inc"\n')
    add('syntax', 'reject', 'h q\u00e9[0];\n')
    add('syntax', 'reject', 'rz(\u22121) q[0];\n')
    add('syntax', 'reject', 'include "qelib1.inc;\nh q[0];\n')
    add('syntax', 'reject', 'rz(1_000) q[0];\n')
    add('syntax', 'reject', 'rz(0x10) q[0];\n')
    add('syntax', 'reject', 'rz(1e) q[0];\n')
    add('syntax', 'reject', 'rz(.) q[0];\n')
    add('syntax', 'reject', 'h q [0] ;\n'.replace('h q [0] ;', 'h q[ ];'))
    add('measure-shape', 'reject', 'measure q -> c[0];\n')
    add('measure-shape', 'reject', 'measure q[0] -> c;\n')
    add('measure-shape', 'reject', 'creg d[3];\nmeasure q -> d;\n')
    add('no-qubits', 'reject', 'creg c[1];\n', header='OPENQASM 2.0;\n')
    add('no-qubits', 'reject', 'qreg z[0];\n', header='OPENQASM 2.0;\n')
    add('opaque-call', 'reject', 'opaque foo x;\nfoo q[0];\n')
    add('if-statement', 'reject', 'if(c==1) h q[0];\n')
    add('if-statement', 'reject', 'x q[0];\nif (c == 3) x q[0];\n')
    add('if-statement', 'reject', 'if(c==0) measure q[0] -> c[0];\n')
    # documented / harmless: accepted, the reading is compared with the model only
    add('opaque-declaration', 'ignore', 'opaque foo x;\nopaque bar(a,b) x,y;\nh q[0];\n')
    add('opaque-declaration', 'ignore', 'opaque baz() x;\nh q[1];\n')
    add('include-other-file', 'ignore', 'include "no_such_file_c17.inc";\nh q[0];\n')
    add('barrier-in-gate-body', 'ignore', 'gate g x,y { h x; barrier x,y; h y; }\ng q[0],r[1];\n')
    add('barrier-in-gate-body', 'ignore', 'gate g x { barrierp x; h x; }\ng q[0];\n')
    add('syntax', 'reject', 'gate g x { h x; barrierp x; }\n')
    add('comments', 'ignore', '// only a comment\nh q[0]; // trailing\n/// more\n')
    add('empty-parens', 'ignore', 'gate g() x { h() x; }\ng() q[0];\ng q[1];\n')
    add('odd-but-accepted', 'ignore', 'gate g x,x { h x; }\ng q[0],q[1];\n')
    add('odd-but-accepted', 'ignore', 'gate g(a,a) x { rz(a) x; }\ng(1,2) q[1];\n')
    add('odd-but-accepted', 'ignore', 'gate h x { x x; }\nh q[1];\n')
    add('odd-but-accepted', 'ignore', 'gate g(a) x { rz(a) x; }\ngate g(a) x { rx(a) x; }\n'
        'g(1) q[1];\n')
    add('odd-but-accepted', 'ignore', 'gate g(a) x { rz(a+b) x; }\nh q[0];\n')
    add('odd-but-accepted', 'ignore', 'creg q[3];\nh q[1];\n')
    add('odd-but-accepted', 'ignore', 'gate g x,y { CX x[3],y; }\ng q[0],q[1];\n')
    add('odd-but-accepted', 'ignore', 'reset nosuch;\n')
    add('odd-but-accepted', 'ignore', 'h q[0];\n', header='OPENQASM 3.0;\nqreg q[1];\n')
    # seeded corruptions of valid programs: delete / duplicate / swap one token
    for _ in range(nrand):
        for _ in range(20):
            p = gen.gen_program(rng, r.builtins, r.common)
            try:
                gen.Ref(r.builtins).run(p)
            except Bad:
                continue
            break
        text = gen.render(p, random.Random(rng.random()))
        toks = re.findall(r'\s+|[A-Za-z_][A-Za-z_0-9]*|[0-9.]+(?:[eE][-+]?[0-9]+)?|->|==|.',
                          text, re.S)
        idx = [i for i, t in enumerate(toks) if not t.isspace()]
        if len(idx) < 8:
            continue
        i = rng.choice(idx[3:])
        how = rng.choice(['del', 'dup', 'swap', 'junk'])
        if how == 'del':
            toks.pop(i)
        elif how == 'dup':
            toks.insert(i, toks[i])
        elif how == 'swap':
            j = rng.choice(idx[3:])
            toks[i], toks[j] = toks[j], toks[i]
        else:
            toks.insert(i, rng.choice(['#', '$', '..', '[', ')', '"', "'", '=', '->', '}']))
        fam.append(('corrupted', 'any', ''.join(toks)))
    import lark
    from bqskit.ir.lang.qasm2.parser import parse as lark_parse
    kws = set(gen.KEYWORDS)
    for family, cls, text in fam:
        if family == 'corrupted':
            # Lark's contextual lexer reads a keyword as an identifier where only an ID can
            # come (`qreg qreg[2];`, `gate pi(a) x {}`): outside the model (design_notes)
            try:
                tree = lark_parse(text)
                if any(isinstance(t, lark.Token) and t.type == 'ID' and str(t) in kws
                       for t in tree.scan_values(lambda v: True)):
                    ck.bump('keyword_as_identifier_skipped')
                    continue
            except Exception:
                pass
        ck.count(('malformed', sig_key(text)))
        ck.bump('malformed_families', family)
        c, exc = r.impl_decode(text)
        found = []
        if cls == 'reject' and c is not None:
            q_rejects = None
            try:
                r.qk.load(text)
                q_rejects = False
            except Exception:
                q_rejects = True
            found.append(family)
            ck.violation(
                f'C17-malformed-accepted:{family}',
                f'a program outside the supported subset ({family}) is accepted and read '
                f'as {fmt_ops(impl_ops(c))[:200]} instead of being rejected',
                {'stream': 'malformed', 'family': family, 'text': text,
                 'impl': fmt_ops(impl_ops(c)), 'qiskit_rejects': q_rejects})
        ck.bump('malformed_outcome', 'rejected' if c is None else 'accepted')
        if text.endswith('h q[3];\n') or family == 'measure-shape' and 'd[3]' in text:
            ck.sample({'stream': 'malformed', 'family': family, 'text': text,
                       'bqskit': exc if c is None else fmt_ops(impl_ops(c))}, limit=12)
        r.correspond('malformed', text, c, exc, extra={'family': family},
                     reported=lambda found=found: bool(found))


# =============================================================== lexer
def stream_lex(r: Run, texts):
    """Token streams: Lark's lexer vs the model's (programs without keyword-identifiers)."""
    from bqskit.ir.lang.qasm2.parser import _OPENQASMPARSER as P
    ck = r.ck
    kws = set(gen.KEYWORDS)
    for text in texts:
        try:
            toks = []
            for t in P.lex(text):
                s = str(t)
                if t.type in ('REAL', 'NNINTEGER'):
                    toks.append('NUM:' + s)
                elif t.type == 'ID':
                    toks.append('ID:' + s)
                elif t.type == 'ESCAPED_STRING':
                    toks.append('STR:' + s[1:-1])
                elif s in kws:
                    toks.append('KW:' + s)
                else:
                    toks.append('SYM:' + s)
            want = 'ok ' + ' '.join(toks)
        except Exception:
            want = 'err'

        def cb(out, text=text, want=want):
            ck.bump('traces_validated_against_impl')
            if out.rstrip() != want.rstrip():
                ck.violation('C17-correspondence:lexer',
                             'Lark\'s token stream and the Lean lexer model differ',
                             {'stream': 'lex', 'text': text, 'impl': want, 'model': out,
                              'broken': 'correspondence qasm lexer'}, found_input=False)
        r.ask('lex ' + esc(text), cb)
        ck.count(('lex', sig_key(text)), nontrivial=False)


# =============================================================== ext translators
def stream_ext(r: Run, n):
    """bqskit.ext.qiskit: the translators are encode/decode plus Qiskit's own QASM code."""
    from bqskit.ext import bqskit_to_qiskit, qiskit_to_bqskit
    from bqskit.ir.circuit import Circuit
    from bqskit.ir.gates import (CNOTGate, CZGate, HGate, RXGate, RYGate, RZGate, SwapGate,
                                 TGate, U3Gate, CCXGate, SXGate, CPGate, RZZGate, U2Gate)
    ck, rng = r.ck, r.rng
    import qiskit
    from qiskit.circuit.library import standard_gates as sg
    gates = [HGate(), TGate(), SXGate(), RXGate(), RYGate(), RZGate(), U3Gate(), U2Gate(),
             CNOTGate(), CZGate(), SwapGate(), CPGate(), RZZGate(), CCXGate()]
    qgates = [(sg.HGate, 0, 1), (sg.TGate, 0, 1), (sg.SXGate, 0, 1), (sg.RXGate, 1, 1),
              (sg.RYGate, 1, 1), (sg.RZGate, 1, 1), (sg.U3Gate, 3, 1), (sg.PhaseGate, 1, 1),
              (sg.CXGate, 0, 2), (sg.CZGate, 0, 2), (sg.SwapGate, 0, 2),
              (sg.CPhaseGate, 1, 2), (sg.RZZGate, 1, 2), (sg.CCXGate, 0, 3),
              (sg.CRZGate, 1, 2), (sg.CU3Gate, 3, 2), (sg.RXXGate, 1, 2)]
    for i in range(n):
        nq = rng.randint(1, 4)
        c = Circuit(nq)
        for _ in range(rng.randint(1, 8)):
            g = rng.choice([h for h in gates if h.num_qudits <= nq])
            c.append_gate(g, rng.sample(range(nq), g.num_qudits),
                          [rng.uniform(-3, 3) for _ in range(g.num_params)])
        ck.count(('ext-b2q', repr(impl_ops(c))))
        try:
            qc = bqskit_to_qiskit(c)
            d = phase_dist(r.qk.unitary(qc), bq_unitary(c))
        except Exception as e:
            d = f'{type(e).__name__}: {str(e)[:100]}'
        if not isinstance(d, float) or d > 1e-7:
            ck.violation('C17-ext-qiskit:bqskit_to_qiskit',
                         f'bqskit_to_qiskit changes the unitary / fails ({d})',
                         {'stream': 'ext', 'ops': fmt_ops(impl_ops(c)), 'text': c.to('qasm')})
        qc = qiskit.QuantumCircuit(nq)
        for _ in range(rng.randint(1, 8)):
            cls, np_, k = rng.choice([t for t in qgates if t[2] <= nq])
            ps = [rng.choice([rng.uniform(-3, 3), math.pi / 2, -math.pi / 4, 3 * math.pi / 4])
                  for _ in range(np_)]
            qc.append(cls(*ps), rng.sample(range(nq), k))
        txt = qiskit.qasm2.dumps(qc)
        ck.count(('ext-q2b', txt))
        try:
            c2 = qiskit_to_bqskit(qc)
            d = phase_dist(r.qk.unitary(qc), bq_unitary(c2))
        except Exception as e:
            d = f'{type(e).__name__}: {str(e)[:100]}'
        if not isinstance(d, float) or d > 1e-7:
            ck.violation('C17-ext-qiskit:qiskit_to_bqskit',
                         f'qiskit_to_bqskit changes the unitary / fails ({d})',
                         {'stream': 'ext', 'text': txt})


def stream_ext_other(r: Run, n, with_cirq):
    """bqskit.ext pytket (and, thorough tier, cirq) translators: the same encode/decode code
    behind third-party QASM readers/writers; unitary must survive both directions."""
    from bqskit.ir.circuit import Circuit
    from bqskit.ir.gates import (CNOTGate, CZGate, HGate, RXGate, RYGate, RZGate, SwapGate,
                                 TGate, U3Gate, CCXGate, SXGate, XGate, SGate, U2Gate, U1Gate)
    ck, rng = r.ck, r.rng
    gates = [HGate(), TGate(), SXGate(), XGate(), SGate(), RXGate(), RYGate(), RZGate(),
             U3Gate(), U2Gate(), U1Gate(), CNOTGate(), CZGate(), SwapGate(), CCXGate()]
    legs = []
    try:
        from bqskit.ext import bqskit_to_pytket, pytket_to_bqskit
        legs.append(('pytket', bqskit_to_pytket, pytket_to_bqskit,
                     lambda t: np.asarray(t.get_unitary())))
    except Exception:
        ck.bump('ext_unavailable', 'pytket')
    if with_cirq:
        try:
            import cirq
            from bqskit.ext import bqskit_to_cirq, cirq_to_bqskit

            def cirq_u(cc, nq=[0]):
                qs = sorted(cc.all_qubits())
                return np.asarray(cirq.unitary(cc))
            legs.append(('cirq', bqskit_to_cirq, cirq_to_bqskit, cirq_u))
        except Exception:
            ck.bump('ext_unavailable', 'cirq')
    for i in range(n):
        nq = rng.randint(1, 4)
        c = Circuit(nq)
        # every qubit is touched so that the foreign circuit has the same width
        for q in range(nq):
            c.append_gate(HGate(), q)
        for _ in range(rng.randint(1, 8)):
            g = rng.choice([h for h in gates if h.num_qudits <= nq])
            c.append_gate(g, rng.sample(range(nq), g.num_qudits),
                          [rng.uniform(-3, 3) for _ in range(g.num_params)])
        U = bq_unitary(c)
        for name, fwd, back, uni in legs:
            ck.count((f'ext-{name}', repr(impl_ops(c))))
            try:
                foreign = fwd(c)
                d1 = phase_dist(uni(foreign), U)
                c2 = back(foreign)
                d2 = phase_dist(bq_unitary(c2), U) if c2.num_qudits == nq else 1.0
            except BaseException as e:
                if isinstance(e, (KeyboardInterrupt, SystemExit)):
                    raise
                d1 = d2 = f'{type(e).__name__}: {str(e)[:100]}'
            if not (isinstance(d1, float) and d1 < 1e-6 and isinstance(d2, float) and d2 < 1e-6):
                ck.violation(f'C17-ext-{name}',
                             f'bqskit.ext {name} translation changes the unitary / fails '
                             f'(to: {d1}, back: {d2})',
                             {'stream': 'ext', 'ops': fmt_ops(impl_ops(c)),
                              'text': c.to('qasm')})


# =============================================================== driver
def stream_blocks(r: Run, ncirc):
    """Round 4 (seeded C17-4 was missed): NEIGHBOUR blocks.  The writer names a
    CircuitGate definition after the block itself (`circuitgate_<hash>`), so two
    different blocks in one circuit must get two names.  Every circuit here
    holds 2-4 CircuitGate blocks of one width built from ONE base operation
    list and differing in exactly one controlled way - the gate / location /
    parameter-free gate at the first, a middle or the last position, one
    operation appended (a block and its proper prefix), two operations
    swapped, a difference inside a nested block - for base lengths on both
    sides of every size the implementation treats specially (1, 3, 12, 99,
    100, 101, 130, 205).  Oracles: those of `roundtrip` (operation-by-operation
    equality after decode, unitary, Qiskit) plus: the text defines as many
    gates as there are structurally different blocks."""
    from bqskit.ir.circuit import Circuit
    from bqskit.ir.gates import (CircuitGate, CNOTGate, CZGate, HGate, SGate, TGate,
                                 XGate, ZGate, SwapGate)
    ck, rng = r.ck, r.rng
    oneq = [HGate(), SGate(), TGate(), XGate(), ZGate()]
    twoq = [CNOTGate(), CZGate(), SwapGate()]
    lengths = [1, 3, 12, 99, 100, 101, 130, 205]

    def base_ops(k, m):
        ops = []
        for _ in range(m):
            if k >= 2 and rng.random() < 0.35:
                ops.append((rng.choice(twoq), tuple(rng.sample(range(k), 2))))
            else:
                ops.append((rng.choice(oneq), (rng.randrange(k),)))
        return ops

    def build(k, ops):
        sub = Circuit(k)
        for g, loc in ops:
            if isinstance(g, tuple):        # nested block
                inner = Circuit(len(loc))
                for gg, ll in g:
                    inner.append_gate(gg, ll)
                sub.append_gate(CircuitGate(inner), loc)
            else:
                sub.append_gate(g, loc)
        return sub

    def variant(k, ops, how, pos):
        ops = list(ops)
        g, loc = ops[pos]
        if how == 'gate':
            pool = oneq if len(loc) == 1 else twoq
            ops[pos] = (rng.choice([h for h in pool if h != g]), loc)
        elif how == 'loc':
            if len(loc) == 2:
                ops[pos] = (g, (loc[1], loc[0])) if g != CZGate() and \
                    g != SwapGate() else (CNOTGate(), (loc[1], loc[0]))
            elif k >= 2:
                ops[pos] = (g, ((loc[0] + 1) % k,))
            else:
                ops[pos] = (rng.choice([h for h in oneq if h != g]), loc)
        elif how == 'append':
            ops.append((rng.choice(oneq), (rng.randrange(k),)))
        elif how == 'drop':
            if len(ops) > 1:
                del ops[pos]
            else:
                ops.append((XGate(), (0,)))
        elif how == 'nested':
            inner = [(rng.choice(oneq), (0,)), (rng.choice(oneq), (0,))]
            ops[pos] = (tuple(inner), (loc[0],))
        return ops

    done = 0
    for i in range(ncirc):
        k = rng.choice([1, 2, 2, 3])
        m = lengths[i % len(lengths)]
        base = base_ops(k, m)
        hows = ['gate', 'loc', 'append', 'drop', 'nested']
        blocks = [base]
        for _ in range(rng.randint(1, 3)):
            how = hows[(i // len(lengths) + len(blocks)) % len(hows)]
            pos = rng.choice([0, m // 2, m - 1])
            blocks.append(variant(k, base, how, pos))
        n = k + rng.randint(0, 2)
        c = Circuit(n)
        subs = []
        for ops in blocks:
            sub = build(k, ops)
            subs.append(sub)
            c.append_gate(CircuitGate(sub), rng.sample(range(n), k))
        if rng.random() < 0.5:          # the first block once more
            c.append_gate(CircuitGate(subs[0]), rng.sample(range(n), k))
        label = f'blocks-{m}-{i}'
        ok = roundtrip(r, 'lib-blocks', c, label, 'neighbour-blocks', want_print=False)
        done += 1
        ck.bump('lib_blocks_base_length', str(m))
        # as many definitions as structurally different blocks (top level)
        try:
            text = c.to('qasm')
        except Exception:
            continue
        distinct = []
        for sub in subs:
            if not any(sub == t for t in distinct):
                distinct.append(sub)
        names = {ln.split()[1].split('(')[0] for ln in text.splitlines()
                 if ln.startswith('gate ')}
        nested = sum(1 for ops in blocks for g, _ in ops if isinstance(g, tuple))
        if len(names) < len(distinct):
            ck.violation(
                'C17-block-names-collide',
                f'a circuit with {len(distinct)} different CircuitGate blocks (base '
                f'length {m}, {k} qubits) is written with only {len(names)} gate '
                f'definition name(s): different blocks share one OpenQASM gate name, so '
                f'the text cannot mean the circuit',
                {'stream': 'lib-blocks', 'label': label, 'text': text[:3000],
                 'block_lengths': [len(o) for o in blocks], 'nested': nested})
    ck.coverage['lib_blocks_circuits'] = done


def run_all(r: Run, proved):
    ck = r.ck
    thorough = ck.tier == 'thorough'
    stream_lib(r, 1500 if thorough else 120)
    stream_blocks(r, 400 if thorough else 40)
    stream_expr(r, 12000 if thorough else 700)
    stream_regress(r, 200 if thorough else 16)
    stream_body(r, thorough, 2000 if thorough else 60)
    stream_prog(r, 30000 if thorough else 1000)
    stream_malformed(r, 6000 if thorough else 300)
    lex_texts = [unesc(l[7:]) for l in r.requests if l.startswith('decode ')]
    stream_lex(r, lex_texts[:20000 if thorough else 700])
    stream_ext(r, 600 if thorough else 40)
    stream_ext_other(r, 200 if thorough else 12, with_cirq=thorough)
    r.flush()
    ck.coverage['common_with_qiskit'] = sorted(r.common)
    ck.coverage['rule'] = (
        'one case = one program text / circuit / expression pushed through the real reader '
        '(and writer) and through the Lean model; distinct = distinct canonical text '
        '(whitespace collapsed) or distinct circuit; lexer comparisons are counted as '
        'trivial')
    ck.assumptions += [
        'Qiskit (qiskit.qasm2.loads) and the reference elaboration of the generated '
        'structure are the oracles for the meaning of a program; the Lean theorems are '
        'about the model of the reader, which the run ties to the code by comparison',
        'identifiers equal to a grammar keyword are outside the model (Lark\'s contextual '
        'lexer accepts some of them)',
        'no file named like an include exists in the working directory',
        'float arithmetic: values compared to 1e-9; integer-exact Python arithmetic beyond '
        '2^53 and exact division by zero are not modelled',
    ]
    if not proved:
        ck.violation(
            'C17-proof-obligation', 'Lean obligations of Props/C17 do not check (the '
            'regenerated gate table no longer satisfies C17_gate_table_*, or a proof broke): '
            + (ck.proof_failure or '')[-600:],
            {'broken': 'BqVerif.Props.C17', 'log': ck.proof_failure}, found_input=False)


def replay(r: Run, body):
    rp = body.get('replay', body)
    text = rp.get('text')
    if text is None:
        print('replay file has no program text')
        return
    c, exc = r.impl_decode(text)
    print('implementation:', 'raises ' + str(exc) if c is None else fmt_ops(impl_ops(c)))
    try:
        qc = r.qk.load(text)
        print('qiskit:', [(i.operation.name, [float(p) for p in i.operation.params])
                          for i in qc.data])
    except Exception as e:
        print('qiskit rejects:', str(e)[:200])
    r.correspond('replay', text, c, exc)
    r.ask('decode ' + esc(text), lambda out: print('model:', out))
    if body.get('signature'):
        # re-raise the recorded verdict when the implementation still behaves the same
        if rp.get('impl') is not None and c is not None and \
                fmt_ops(canon(impl_ops(c))) == rp.get('impl'):
            r.ck.violation(body['signature'], body.get('what', ''), rp,
                           found_input=body.get('failing_input_found', True))
        elif rp.get('exception') is not None and c is None:
            r.ck.violation(body['signature'], body.get('what', ''), rp,
                           found_input=body.get('failing_input_found', True))
