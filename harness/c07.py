"""C07 - thin entry point; the work is in runtime_sim.py / runtime_check.py."""
from harness.runtime_entry import run_property


def run(ck):
    run_property(ck, 'C07')
    if not ck.replay_path:
        # round 4: next() hand-out against result delivery, every schedule with
        # one preemption at source-line granularity, on a real Worker
        from harness import runtime_preempt
        runtime_preempt.run_preempt(ck)
