"""History differential for Circuit (C04, C05): the real bqskit Circuit against
the Lean list-of-cycles model (bqdriver circ).

A history is a seeded sequence of public editing calls.  After every call the
harness records, through the public read API only, the return value / error
class, the grid, iteration orders and every derived view, and the same line is
replayed through the model.  Independent oracles written here (timelines,
views recomputed from the implementation's own grid, unitaries for small
circuits) decide whether a disagreement is a violation of the property.
"""
from __future__ import annotations

import random
import traceback
import zlib
from typing import Any

import numpy as np

SCALE = 1024.0


# ------------------------------------------------------------------ alphabet
def build_alphabet():
    from bqskit.ir.circuit import Circuit  # noqa: F401
    from bqskit.ir.gates import (BarrierPlaceholder, CNOTGate, CSUMGate,
                                 CZGate, ConstantUnitaryGate, HGate, RZGate,
                                 RZZGate, ShiftGate, SwapGate, TGate,
                                 ToffoliGate, U3Gate, XGate, TdgGate)
    from bqskit.qis.unitary import UnitaryMatrix
    mixed = ConstantUnitaryGate(UnitaryMatrix(
        np.eye(6)[[1, 0, 2, 3, 5, 4]], [2, 3]))
    mixed2 = ConstantUnitaryGate(UnitaryMatrix(
        np.eye(6)[[0, 2, 1, 3, 4, 5]], [3, 2]))
    gates = [
        (1, XGate()), (2, HGate()), (3, TGate()), (4, RZGate()),
        (5, U3Gate()), (6, CNOTGate()), (7, CZGate()), (8, RZZGate()),
        (9, SwapGate()), (10, ToffoliGate()), (11, ShiftGate(3)),
        (12, CSUMGate(3)), (13, mixed), (14, mixed2),
        (15, BarrierPlaceholder(1)), (16, BarrierPlaceholder(2)),
        (17, BarrierPlaceholder(3)), (18, TdgGate()),
    ]
    return gates


class Alphabet:
    def __init__(self):
        self.gates = build_alphabet()
        self.by_gid = {g: gate for g, gate in self.gates}
        self.gid_of: dict[Any, int] = {}
        for g, gate in self.gates:
            self.gid_of[gate] = g
        self.extra: dict[str, int] = {}     # inverse gates etc. by name
        self.blocks: dict[str, int] = {}    # canonical body text -> gid
        self.next_extra = 100
        self.next_block = 1000

    def gid(self, gate) -> int:
        from bqskit.ir.gates import CircuitGate
        if isinstance(gate, CircuitGate):
            raise KeyError('block')
        try:
            return self.gid_of[gate]
        except (KeyError, TypeError):
            pass
        key = f'{gate.name}/{gate.radixes}/{gate.num_params}'
        if key not in self.extra:
            self.extra[key] = self.next_extra
            self.next_extra += 1
        return self.extra[key]


def ip(x: float) -> int:
    return int(round(float(x) * SCALE))


class Sim:
    """One history on one real Circuit."""

    def __init__(self, alpha: Alphabet, rng: random.Random):
        self.a = alpha
        self.rng = rng
        self.pcount = 0
        self.lines: list[str] = []
        self.impl: list[str] = []
        self.pending_defs: list[str] = []
        self.sent_blocks: set[int] = set()
        self.calls: list[str] = []   # human readable replay
        self.internal_error: tuple[str, str] | None = None
        self.unitary_bad: tuple[str, str] | None = None
        # read-only probes use their own stream: they never perturb a history
        self.prng = random.Random(0x5EED)
        self.probe_p = 0.3

    # --------------------------------------------------------------- probes
    def probes(self, c, grid) -> list[str]:
        """Read-only public accessors that are not part of the model's view
        line, each compared with what the grid (read cell by cell) says.
        Returns the names of the accessors that do not describe the grid."""
        from bqskit.ir.circuit import Circuit
        rng = self.prng
        n, nc = c.num_qudits, c.num_cycles
        bad: list[str] = []
        occ = {(k, q): op for k, ops in enumerate(grid)
               for op, cells in ops for q in cells}

        def chk(name, fn):
            try:
                if not fn():
                    bad.append(name)
            except Exception as e:    # valid arguments only are generated
                bad.append(f'{name}!{type(e).__name__}')

        def last_occ(q):
            ks = [k for (k, qq) in occ if qq == q]
            return max(ks) if ks else None

        for q in range(n):
            chk('is_qudit_idle', lambda: c.is_qudit_idle(q)
                == (last_occ(q) is None))
        for _ in range(2):
            loc = rng.sample(range(n), rng.randint(1, min(3, n)))
            chk('find_available_cycle', lambda: c.find_available_cycle(loc)
                == max([0] + [last_occ(q) + 1 for q in loc
                              if last_occ(q) is not None]))
            if nc:
                k = rng.randrange(nc)
                chk('is_cycle_unoccupied', lambda: c.is_cycle_unoccupied(
                    k, loc) == all((k, q) not in occ for q in loc))
        if occ:
            pts = sorted(occ)
            for pt in rng.sample(pts, min(3, len(pts))):
                chk('get_operation', lambda: c.get_operation(pt) is occ[pt])
                op = occ[pt]
                chk('count', lambda: c.count(op) == sum(
                    1 for ops in grid for o, _ in ops if o == op))
                chk('count-gate', lambda: c.count(op.gate) == sum(
                    1 for ops in grid for o, _ in ops if o.gate == op.gate))
                chk('contains', lambda: (op in c) and (op.gate in c))

                def first_point(gate_only):
                    for k in range(nc):
                        for q in range(n):
                            if (k, q) not in occ:
                                continue
                            if gate_only and occ[k, q].gate == op.gate:
                                return (k, q)
                            if not gate_only and occ[k, q] == op:
                                return (k, op.location[0])
                chk('point', lambda: tuple(c.point(op))
                    == first_point(False))
                chk('point-gate', lambda: tuple(c.point(op.gate))
                    == first_point(True))
                chk('from_operation', lambda: (
                    lambda d: d.num_qudits == op.num_qudits
                    and tuple(d.radixes) == tuple(op.radixes)
                    and d.num_operations == 1
                    and d[0, 0].gate == op.gate
                    and list(d[0, 0].location) == list(range(op.num_qudits))
                    and list(d[0, 0].params) == list(op.params))(
                        Circuit.from_operation(op)))
            # points incl. idle ones; duplicates of one operation collapse
            sel = [(rng.randrange(nc), rng.randrange(n))
                   for _ in range(rng.randint(1, 5))]
            exp = []
            for pt in sel:
                if pt in occ and not any(
                        e[0] == pt[0] and e[1] is occ[pt] for e in exp):
                    exp.append((pt[0], occ[pt]))
            # the same points, some of them given by negative indices
            sel = [(k - nc if rng.random() < 0.25 else k,
                    q - n if rng.random() < 0.15 else q) for k, q in sel]
            chk('get_operations', lambda: (lambda got: len(got) == len(exp)
                and all(g is e[1] for g, e in zip(got, exp)))(
                    c.get_operations(sel)))
            if exp:
                def slice_ok():
                    d = c.get_slice(sel)
                    qs = sorted({q for _, o in exp for q in o.location})
                    if tuple(d.radixes) != tuple(c.radixes[q] for q in qs):
                        return False
                    want = {q: [] for q in qs}
                    for k, o in sorted(exp, key=lambda e: e[0]):
                        for q in o.location:
                            want[q].append((o.gate, tuple(
                                qs.index(x) for x in o.location),
                                tuple(o.params)))
                    got = {q: [] for q in qs}
                    for k in range(d.num_cycles):
                        for j, q in enumerate(qs):
                            if not d.is_point_idle((k, j)):
                                o = d[k, j]
                                got[q].append((o.gate, tuple(o.location),
                                               tuple(o.params)))
                    return got == want
                chk('get_slice', slice_ok)
            reg = rand_region_plain(rng, c)
            chk('is_valid_region', lambda: c.is_valid_region(reg)
                == region_valid_oracle(grid, reg))
        return bad

    # ------------------------------------------------------------ rendering
    def block_gid(self, gate) -> int:
        body = gate._circuit
        txt = self.circ_text(body, zero_params=True)
        if txt not in self.a.blocks:
            self.a.blocks[txt] = self.a.next_block
            self.a.next_block += 1
        g = self.a.blocks[txt]
        if g not in self.sent_blocks:
            self.sent_blocks.add(g)
            self.pending_defs.append(f'defblock {g} {txt}')
        return g

    def op_text(self, op, zero_params=False) -> str:
        from bqskit.ir.gates import CircuitGate
        if isinstance(op.gate, CircuitGate):
            g = self.block_gid(op.gate)
        else:
            g = self.a.gid(op.gate)
        ps = ','.join('0' if zero_params else str(ip(p)) for p in op.params)
        return (f'{g};{ps};' + ','.join(map(str, op.location)) + ';'
                + ','.join(map(str, op.radixes)))

    def grid(self, c):
        """cycles -> list of distinct ops (by identity), read cell by cell."""
        out = []
        for k in range(c.num_cycles):
            seen: dict[int, Any] = {}
            for q in range(c.num_qudits):
                if not c.is_point_idle((k, q)):
                    op = c[k, q]
                    seen.setdefault(id(op), (op, []))[1].append(q)
            out.append(list(seen.values()))
        return out

    def circ_text(self, c, zero_params=False) -> str:
        cyc = []
        for ops in self.grid(c):
            ops = sorted(ops, key=lambda x: min(x[0].location))
            cyc.append('+'.join(self.op_text(o, zero_params) for o, _ in ops))
        return ','.join(map(str, c.radixes)) + ':' + '/'.join(cyc)

    @staticmethod
    def pt(p) -> str:
        return '-' if p is None else f'{p[0]}.{p[1]}'

    @staticmethod
    def pts(ps) -> str:
        return ','.join(f'{a}.{b}' for a, b in sorted((p[0], p[1]) for p in ps))

    def views(self, c, probe: bool = False) -> str:
        it = list(c.operations_with_cycles())
        n = c.num_qudits
        grid = self.grid(c)
        inv = 'true'
        for ops in grid:
            for op, cells in ops:
                if sorted(cells) != sorted(op.location):
                    inv = 'false:cells'
                if list(op.radixes) != [c.radixes[q] for q in op.location]:
                    inv = 'false:radix'
        if not all(len(ops) > 0 for ops in grid):
            inv = 'false:idle-cycle'
        counts: dict[int, int] = {}
        nblocks = 0
        from bqskit.ir.gates import CircuitGate
        for gate, cnt in c.gate_counts.items():
            if isinstance(gate, CircuitGate):
                nblocks += cnt
            else:
                g = self.a.gid(gate)
                counts[g] = counts.get(g, 0) + cnt
        parts = [
            'iter=' + '+'.join(f'{k}:{self.op_text(o)}' for k, o in it),
            'kahn=same',
            'rev=' + '+'.join(self.op_text(o) for o in reversed(c)),
            'first=' + ','.join(self.pt(c.first_on(q)) for q in range(n)),
            'last=' + ','.join(self.pt(c.last_on(q)) for q in range(n)),
            'front=' + self.pts(c.front),
            'rear=' + self.pts(c.rear),
            'next=' + '|'.join(self.pts(c.next((k, o.location[0])))
                               for k, o in it),
            'prev=' + '|'.join(self.pts(c.prev((k, o.location[0])))
                               for k, o in it),
            f'nops={c.num_operations}', f'nparams={c.num_params}',
            f'ncycles={c.num_cycles}',
            'active=' + ','.join(map(str, c.active_qudits)),
            'coupling=' + self.pts(c.coupling_graph),
            f'depth={c.depth}',
            'counts=' + ','.join(f'{g}:{counts[g]}' for g in sorted(counts)),
            f'blocks={nblocks}',
            f'inv={inv}',
        ]
        if probe and self.prng.random() < self.probe_p:
            pb = self.probes(c, grid)
            parts.append('probes=' + (','.join(sorted(set(pb))) or 'ok'))
        return ' '.join(parts)

    # ------------------------------------------------------------ recording
    def record(self, line: str, ret: str, c, call: str):
        try:
            ct = self.circ_text(c)
            vs = self.views(c, probe=True)
        except Exception as e:   # a view itself fails: internal error
            self.internal_error = (call, 'view: ' + repr(e) + '\n'
                                   + traceback.format_exc()[-1500:])
            ct, vs = 'VIEW-ERROR', repr(e)
        for d in self.pending_defs:
            self.lines.append(d)
            self.impl.append('ok')
            self.calls.append('(defblock)')
        self.pending_defs = []
        self.lines.append(line)
        self.impl.append(f'{ret} # {ct} # {vs}')
        self.calls.append(call)

    # ------------------------------------------------------------ generators
    def fresh_params(self, k: int) -> list[float]:
        out = []
        for _ in range(k):
            self.pcount += 1
            out.append(self.pcount / SCALE)
        return out

    def rand_op(self, c, valid=True, width=None):
        """A random Operation fitting circuit `c` (or deliberately not)."""
        from bqskit.ir.operation import Operation
        rng = self.rng
        cands = []
        for g, gate in self.a.gates:
            if width is not None and gate.num_qudits != width:
                continue
            if gate.num_qudits > c.num_qudits:
                continue
            cands.append((g, gate))
        rng.shuffle(cands)
        for g, gate in cands:
            # find a location with matching radixes
            for _ in range(8):
                loc = rng.sample(range(c.num_qudits), gate.num_qudits)
                if all(c.radixes[q] == r for q, r in zip(loc, gate.radixes)):
                    op = Operation(gate, loc, self.fresh_params(gate.num_params))
                    if valid:
                        return op
            if not valid:
                # radix mismatch or out of range location
                loc = rng.sample(range(c.num_qudits + 2), gate.num_qudits)
                return Operation(gate, loc, self.fresh_params(gate.num_params))
        return None

    def rand_circuit(self, radixes, nops):
        from bqskit.ir.circuit import Circuit
        sub = Circuit(len(radixes), radixes)
        for _ in range(nops):
            op = self.rand_op(sub)
            if op is None:
                break
            if self.rng.random() < 0.2 and sub.num_cycles > 0:
                sub.insert(self.rng.randrange(sub.num_cycles), op)
            else:
                sub.append(op)
        return sub


def unitary_or_none(c):
    """the circuit's unitary when it is small and has no placeholders"""
    try:
        dim = 1
        for r in c.radixes:
            dim *= r
        if dim > 64:
            return None
        for g in c.gate_set:
            if 'barrier' in g.name.lower():
                return None
        return np.array(c.get_unitary())
    except Exception:
        return None


def phase_equal(a, b, tol=1e-8):
    if a is None or b is None or a.shape != b.shape:
        return True
    t = np.trace(a.conj().T @ b)
    return abs(abs(t) - a.shape[0]) < tol * a.shape[0] + 1e-9 and \
        np.allclose(a * (t / abs(t)), b, atol=1e-7)


ERR = {IndexError: 'err index', ValueError: 'err value', TypeError: 'err type'}
INTERNAL = (KeyError, AssertionError, AttributeError, RuntimeError,
            ZeroDivisionError, RecursionError, UnboundLocalError, NameError)


def rand_region_plain(rng, c):
    qs = rng.sample(range(c.num_qudits), rng.randint(1, min(4, c.num_qudits)))
    out = {}
    for q in qs:
        lo = rng.randrange(c.num_cycles)
        hi = rng.randint(lo, min(c.num_cycles - 1, lo + 3))
        out[q] = (lo, hi)
    return out


def region_valid_oracle(grid, reg) -> bool:
    """The documented meaning of a valid region, from the grid alone: no
    dependency path leaves the set of operations lying fully inside the
    region and comes back to it."""
    ops = [(k, op) for k, cyc in enumerate(grid) for op, _ in cyc]
    n = len(ops)
    ins = {i for i, (k, op) in enumerate(ops)
           if all(q in reg and reg[q][0] <= k <= reg[q][1]
                  for q in op.location)}
    last: dict[int, int] = {}
    adj: list[set[int]] = [set() for _ in range(n)]
    for i, (k, op) in enumerate(ops):       # grid order = cycle order
        for q in op.location:
            if q in last:
                adj[last[q]].add(i)
            last[q] = i
    reach: list[set[int]] = [set() for _ in range(n)]
    for i in reversed(range(n)):
        for j in adj[i]:
            reach[i].add(j)
            reach[i] |= reach[j]
    return not any(x not in ins and reach[x] & ins
                   for a in ins for x in reach[a])


def rand_point(sim: Sim, c, occupied_bias=0.8):
    rng = sim.rng
    if c.num_cycles > 0 and rng.random() < occupied_bias:
        pts = [(k, q) for k in range(c.num_cycles)
               for q in range(c.num_qudits) if not c.is_point_idle((k, q))]
        if pts:
            k, q = rng.choice(pts)
            if rng.random() < 0.15:
                k -= c.num_cycles
            if rng.random() < 0.15:
                q -= c.num_qudits
            return (k, q)
    return (rng.randint(-c.num_cycles - 1, c.num_cycles + 1),
            rng.randint(-c.num_qudits - 1, c.num_qudits))


def rand_region(sim: Sim, c):
    """A region: mostly valid (surround / get_region), sometimes arbitrary."""
    rng = sim.rng
    pts = [(k, q) for k in range(c.num_cycles) for q in range(c.num_qudits)
           if not c.is_point_idle((k, q))]
    if not pts:
        return None
    r = rng.random()
    try:
        if r < 0.6:
            p = rng.choice(pts)
            reg = c.surround(p, rng.randint(1, min(4, c.num_qudits)))
            return {q: (iv.lower, iv.upper) for q, iv in reg.items()}
        if r < 0.8:
            sel = rng.sample(pts, min(len(pts), rng.randint(1, 3)))
            reg = c.get_region(sel)
            return {q: (iv.lower, iv.upper) for q, iv in reg.items()}
    except ValueError:
        pass
    qs = rng.sample(range(c.num_qudits), rng.randint(1, min(3, c.num_qudits)))
    out = {}
    for q in qs:
        lo = rng.randrange(c.num_cycles)
        hi = rng.randint(lo, min(c.num_cycles - 1, lo + 3))
        out[q] = (lo, hi)
    return out


def run_history(alpha: Alphabet, seed: int, length: int, kinds=None,
                holder=None) -> Sim:
    """Run one random history on the real code and record lines."""
    from bqskit.ir.circuit import Circuit
    from bqskit.ir.gates import CircuitGate
    from bqskit.ir.operation import Operation
    rng = random.Random(seed)
    sim = Sim(alpha, rng)
    if holder is not None:
        holder.append(sim)
    nq = rng.randint(1, 6)
    radixes = [rng.choice([2, 2, 2, 3]) for _ in range(nq)]
    c = Circuit(nq, radixes)
    sim.record('new ' + ','.join(map(str, radixes)), 'ok', c,
               f'Circuit({nq}, {radixes})')
    saved = c.copy()
    weights = {
        'append': 14, 'insert': 10, 'pop': 6, 'pop_none': 2, 'replace': 7,
        'batch_replace': 3, 'batch_pop': 3, 'pop_cycle': 2,
        'append_circuit': 4, 'insert_circuit': 5, 'replace_with_circuit': 4,
        'append_qudit': 1, 'insert_qudit': 2, 'pop_qudit': 2, 'renumber': 3,
        'compress': 2, 'save': 1, 'restore': 1, 'clear': 0.3, 'unfold': 4,
        'unfold_all': 1, 'fold': 6, 'straighten': 4, 'add': 1, 'iadd': 1,
        'mul': 1.5, 'inverse': 1, 'remove': 1, 'batch_unfold': 1, 'extend': 1,
        'copy_eq': 0.5, 'remove_all': 1, 'reparam_block': 2.5,
    }
    if kinds:
        weights = {k: v for k, v in weights.items() if k in kinds}
    names = list(weights)
    ws = [weights[k] for k in names]

    STRUCT = ('compress', 'unfold', 'unfold_all', 'restore', 'save')

    def attempt(line, call, fn, on_ok=lambda r: 'ok', must_ok=False):
        """must_ok: the arguments satisfy the documented preconditions of
        the call (decided by the caller from the grid, not by the model), so
        any exception is an internal error of the implementation."""
        nonlocal c
        sim.current_call = call
        k0 = line.split(' ', 1)[0]
        u0 = unitary_or_none(c) if k0 in STRUCT and k0 != 'restore' else None
        try:
            r = fn()
            ret = on_ok(r)
            if u0 is not None and not phase_equal(u0, unitary_or_none(c)):
                sim.unitary_bad = (call, 'unitary changed by a '
                                   'structure-only call')
        except tuple(ERR) as e:
            ret = ERR[type(e)]
            if must_ok:
                sim.internal_error = (
                    call, 'the arguments satisfy the documented '
                    'preconditions, yet the call raised ' + repr(e) + '\n'
                    + traceback.format_exc()[-1500:])
                ret = 'internal ValidArgs'
        except INTERNAL as e:
            sim.internal_error = (call, repr(e) + '\n'
                                  + traceback.format_exc()[-1500:])
            ret = 'internal ' + type(e).__name__
        sim.record(line, ret, c, call)

    def occupied(p):
        return (-c.num_cycles <= p[0] < c.num_cycles
                and -c.num_qudits <= p[1] < c.num_qudits
                and not c.is_point_idle(p))

    def op_fits(op):
        return (op is not None
                and all(0 <= q < c.num_qudits for q in op.location)
                and len(set(op.location)) == len(op.location)
                and all(c.radixes[q] == r
                        for q, r in zip(op.location, op.radixes))
                and len(op.params) == op.gate.num_params)

    for _ in range(length):
        if sim.internal_error:
            break
        kind = rng.choices(names, ws)[0]
        if kind == 'append':
            op = sim.rand_op(c, valid=rng.random() < 0.93)
            if op is None:
                continue
            if rng.random() < 0.3:
                attempt(f'append {sim.op_text(op)}', f'append_gate({op!r})',
                        lambda: c.append_gate(op.gate, op.location, op.params),
                        lambda r: f'ok {r}', must_ok=op_fits(op))
            else:
                attempt(f'append {sim.op_text(op)}', f'append({op!r})',
                        lambda: c.append(op), lambda r: f'ok {r}',
                        must_ok=op_fits(op))
        elif kind == 'extend':
            ops = [sim.rand_op(c) for _ in range(rng.randint(1, 3))]
            ops = [o for o in ops if o is not None]
            for op in ops:     # extend == repeated append
                attempt(f'append {sim.op_text(op)}', f'extend([{op!r}])',
                        lambda: c.extend([op]), lambda r: 'IGN')
        elif kind == 'insert':
            op = sim.rand_op(c, valid=rng.random() < 0.93)
            if op is None:
                continue
            ci = rng.randint(-c.num_cycles - 2, c.num_cycles + 2)
            if rng.random() < 0.3:
                attempt(f'insert {ci} {sim.op_text(op)}',
                        f'insert_gate({ci}, {op!r})',
                        lambda: c.insert_gate(ci, op.gate, op.location,
                                              op.params))
            else:
                attempt(f'insert {ci} {sim.op_text(op)}',
                        f'insert({ci}, {op!r})', lambda: c.insert(ci, op))
        elif kind == 'pop':
            p = rand_point(sim, c)
            attempt(f'pop {p[0]} {p[1]}', f'pop({p})', lambda: c.pop(p),
                    lambda r: 'ok ' + sim.op_text(r), must_ok=occupied(p))
        elif kind == 'pop_none':
            attempt('pop none', 'pop()', lambda: c.pop(),
                    lambda r: 'ok ' + sim.op_text(r),
                    must_ok=c.num_operations > 0)
        elif kind == 'remove':
            if c.num_operations == 0:
                continue
            ops = list(c.operations_with_cycles())
            k, op = rng.choice(ops)
            # remove(op) pops the first point holding an equal operation
            first = None
            for kk, oo in ops:
                if oo == op and oo.location[0] == op.location[0]:
                    first = (kk, oo.location[0])
                    break
            attempt(f'pop {first[0]} {first[1]}', f'remove({op!r})',
                    lambda: c.remove(op), lambda r: 'IGN', must_ok=True)
        elif kind == 'replace':
            p = rand_point(sim, c, 0.9)
            op = None
            try:
                old = c[p]
                r = rng.random()
                if r < 0.45:   # same location set, maybe permuted
                    cands = [gt for _, gt in alpha.gates
                             if gt.num_qudits == old.num_qudits]
                    rng.shuffle(cands)
                    loc = list(old.location)
                    rng.shuffle(loc)
                    for gt in cands:
                        if all(c.radixes[q] == rr
                               for q, rr in zip(loc, gt.radixes)):
                            op = Operation(gt, loc,
                                           sim.fresh_params(gt.num_params))
                            break
                elif r < 0.9:  # overlapping different location
                    for _ in range(6):
                        cand = sim.rand_op(c)
                        if cand and set(cand.location) & set(old.location):
                            op = cand
                            break
            except (IndexError, TypeError):
                pass
            if op is None:
                op = sim.rand_op(c)
            if op is None:
                continue
            ok_args = (occupied(p) and op_fits(op)
                       and bool(set(c[p].location) & set(op.location)))
            if rng.random() < 0.3:
                attempt(f'replace {p[0]} {p[1]} {sim.op_text(op)}',
                        f'replace_gate({p}, {op!r})',
                        lambda: c.replace_gate(p, op.gate, op.location,
                                               op.params), must_ok=ok_args)
            else:
                attempt(f'replace {p[0]} {p[1]} {sim.op_text(op)}',
                        f'replace({p}, {op!r})', lambda: c.replace(p, op),
                        must_ok=ok_args)
        elif kind == 'batch_replace':
            pts = [(k, q) for k in range(c.num_cycles)
                   for q in range(c.num_qudits)
                   if not c.is_point_idle((k, q))]
            if not pts:
                continue
            # distinct ops, same-location replacements mostly
            chosen = {}
            for p in rng.sample(pts, min(len(pts), rng.randint(1, 4))):
                chosen.setdefault(id(c[p]), p)
            items = []
            for p in chosen.values():
                old = c[p]
                if rng.random() < 0.75:
                    cands = [gt for _, gt in alpha.gates
                             if tuple(gt.radixes) == tuple(old.radixes)]
                    if not cands:
                        continue
                    gt = rng.choice(cands)
                    op = Operation(gt, old.location,
                                   sim.fresh_params(gt.num_params))
                else:
                    op = None
                    for _ in range(6):
                        cand = sim.rand_op(c)
                        if cand and set(cand.location) & set(old.location):
                            op = cand
                            break
                    if op is None:
                        continue
                items.append((p, op))
            if not items:
                continue
            rng.shuffle(items)
            if rng.random() < 0.35:     # negative (still valid) indices
                items = [((p[0] - c.num_cycles if rng.random() < 0.7 else p[0],
                           p[1] - c.num_qudits if rng.random() < 0.3 else p[1]),
                          o) for p, o in items]
            line = 'batch_replace ' + ' '.join(
                f'{p[0]} {p[1]} {sim.op_text(o)}' for p, o in items)
            attempt(line, f'batch_replace({[p for p, _ in items]}, '
                    f'{[o for _, o in items]!r})',
                    lambda: c.batch_replace([p for p, _ in items],
                                            [o for _, o in items]))
        elif kind == 'batch_pop':
            pts = [rand_point(sim, c, 0.85)
                   for _ in range(rng.randint(1, 4))]
            line = 'batch_pop ' + ' '.join(f'{p[0]} {p[1]}' for p in pts)
            attempt(line, f'batch_pop({pts})', lambda: c.batch_pop(pts),
                    lambda r: 'ok ' + sim.circ_text(r),
                    must_ok=all(occupied(p) for p in pts))
        elif kind == 'remove_all':
            if c.num_operations == 0:
                continue
            ops = list(c.operations_with_cycles())
            _, op = rng.choice(ops)
            by_gate = rng.random() < 0.5
            x = op.gate if by_gate else op
            # all occurrences vanish; for the model: one batch_pop of them
            pts = [(kk, oo.location[0]) for kk, oo in ops
                   if (oo.gate == op.gate if by_gate else oo == op)]
            line = 'batch_pop ' + ' '.join(f'{a} {b}' for a, b in pts)
            attempt(line, f'remove_all({x!r})', lambda: c.remove_all(x),
                    lambda r: 'IGN', must_ok=True)
        elif kind == 'pop_cycle':
            ci = rng.randint(-c.num_cycles - 1, c.num_cycles)
            attempt(f'pop_cycle {ci}', f'pop_cycle({ci})',
                    lambda: c.pop_cycle(ci),
                    must_ok=-c.num_cycles <= ci < c.num_cycles)
        elif kind in ('append_circuit', 'insert_circuit',
                      'replace_with_circuit'):
            k = rng.randint(1, min(3, c.num_qudits))
            loc = rng.sample(range(c.num_qudits), k)
            if rng.random() < 0.08:
                loc = loc + [0] if 0 not in loc else loc[:-1] or [0]
            asg = rng.random() < 0.35
            if kind == 'replace_with_circuit':
                p = rand_point(sim, c, 0.95)
                try:
                    old = c[p]
                    loc = list(old.location)
                except (IndexError, TypeError):
                    pass
            sub = sim.rand_circuit([c.radixes[q] for q in loc
                                    if q < c.num_qudits] or [2],
                                   rng.randint(0, 5))
            if asg and sub.num_operations == 0:
                asg = False
            gid = 0
            if asg:
                gid = sim.block_gid(CircuitGate(sub))
            st = sim.circ_text(sub)
            lt = ','.join(map(str, loc))
            if kind == 'append_circuit':
                attempt(f'append_circuit {st} {lt} {gid}',
                        f'append_circuit(<{st}>, {loc}, {asg})',
                        lambda: c.append_circuit(sub, loc, asg),
                        lambda r: f'ok {r}' if asg else 'ok')
            elif kind == 'insert_circuit':
                ci = rng.randint(-c.num_cycles - 1, c.num_cycles + 1)
                attempt(f'insert_circuit {ci} {st} {lt} {gid}',
                        f'insert_circuit({ci}, <{st}>, {loc}, {asg})',
                        lambda: c.insert_circuit(ci, sub, loc, asg))
            else:
                attempt(f'replace_with_circuit {p[0]} {p[1]} {st} {gid}',
                        f'replace_with_circuit({p}, <{st}>, {asg})',
                        lambda: c.replace_with_circuit(p, sub, asg))
        elif kind == 'append_qudit':
            if c.num_qudits >= 7:
                continue
            r = rng.choice([2, 2, 3, 1])
            if rng.random() < 0.4 and r >= 2:
                attempt(f'append_qudit {r}', f'extend_qudits([{r}])',
                        lambda: c.extend_qudits([r]))
            else:
                attempt(f'append_qudit {r}', f'append_qudit({r})',
                        lambda: c.append_qudit(r))
        elif kind == 'insert_qudit':
            if c.num_qudits >= 7:
                continue
            qi = rng.randint(-c.num_qudits - 1, c.num_qudits + 1)
            r = rng.choice([2, 2, 3])
            attempt(f'insert_qudit {qi} {r}', f'insert_qudit({qi}, {r})',
                    lambda: c.insert_qudit(qi, r))
        elif kind == 'reparam_block':
            # the same CircuitGate with parameters of its own: the operation's
            # vector, not the one frozen inside the gate, is what the block
            # means (unfold, get_unitary, fold of a region around it)
            blocks = [(k, o.location[0])
                      for k, o in c.operations_with_cycles()
                      if isinstance(o.gate, CircuitGate)
                      and o.gate.num_params > 0]
            if not blocks:
                continue
            p = rng.choice(blocks)
            old_op = c[p]
            op = Operation(old_op.gate, old_op.location,
                           sim.fresh_params(old_op.gate.num_params))
            sim.block_gid(op.gate)
            attempt(f'replace {p[0]} {p[1]} {sim.op_text(op)}',
                    f'replace({p}, <same block, new params>)',
                    lambda: c.replace(p, op), must_ok=True)
        elif kind == 'pop_qudit':
            qi = rng.randint(-c.num_qudits - 1, c.num_qudits)
            attempt(f'pop_qudit {qi}', f'pop_qudit({qi})',
                    lambda: c.pop_qudit(qi))
        elif kind == 'renumber':
            perm = list(range(c.num_qudits))
            rng.shuffle(perm)
            r = rng.random()
            if r < 0.06:
                perm = perm[:-1]
            elif r < 0.12 and len(perm) > 1:
                perm[0] = perm[1]
            # a permutation that moves a qudit to a position of another
            # radix is valid (the radixes move with the qudits); keep a share
            # of radix-preserving ones
            elif rng.random() < 0.4 and any(
                    c.radixes[perm[q]] != c.radixes[q]
                    for q in range(c.num_qudits)):
                idx = {}
                for q in range(c.num_qudits):
                    idx.setdefault(c.radixes[q], []).append(q)
                perm = list(range(c.num_qudits))
                for r_, qs in idx.items():
                    sh = qs[:]
                    rng.shuffle(sh)
                    for a, b in zip(qs, sh):
                        perm[a] = b
            attempt('renumber ' + ','.join(map(str, perm)),
                    f'renumber_qudits({perm})',
                    lambda: c.renumber_qudits(perm))
        elif kind == 'compress':
            attempt('compress', 'compress()', lambda: c.compress())
        elif kind == 'clear':
            attempt('clear', 'clear()', lambda: c.clear())
        elif kind == 'save':
            def f():
                nonlocal saved
                saved = c.copy()
            attempt('save', 'x = copy()', f)
        elif kind == 'restore':
            attempt('restore', 'become(x)', lambda: c.become(saved))
        elif kind == 'copy_eq':
            def f():
                nonlocal c
                d = c.copy()
                nonlocal saved
                if not (d == c):
                    raise AssertionError('copy() != original')
                c = d
                saved = d.copy()
            attempt('save', 'c = c.copy(); assert equal', f)
        elif kind in ('unfold', 'batch_unfold'):
            blocks = [(k, o.location[0])
                      for k, o in c.operations_with_cycles()
                      if isinstance(o.gate, CircuitGate)]
            if blocks and rng.random() < 0.9:
                p = rng.choice(blocks)
                p = (p[0], rng.choice(list(c[p].location)))
                if rng.random() < 0.2:
                    p = (p[0] - c.num_cycles, p[1])
                if rng.random() < 0.1:
                    p = (p[0], p[1] - c.num_qudits)
            else:
                p = rand_point(sim, c)
            try:
                o = c[p]
                if isinstance(o.gate, CircuitGate):
                    sim.block_gid(o.gate)
            except (IndexError, TypeError):
                pass
            if kind == 'unfold':
                attempt(f'unfold {p[0]} {p[1]}', f'unfold({p})',
                        lambda: c.unfold(p),
                        must_ok=occupied(p)
                        and isinstance(c[p].gate, CircuitGate))
            else:
                # several blocks at once, preferably of one cycle (unfolding
                # one pushes the others back); sometimes a point twice, a
                # non-block or an idle point
                pts = [p]
                same = [b for b in blocks if b[0] == p[0] % max(1, c.num_cycles)
                        and b != (p[0] % max(1, c.num_cycles),
                                  p[1] % c.num_qudits)]
                rng.shuffle(same)
                pts += same[:rng.randint(0, 2)]
                others = [b for b in blocks if b not in pts]
                if others and rng.random() < 0.5:
                    pts += rng.sample(others, min(len(others),
                                                  rng.randint(1, 2)))
                if rng.random() < 0.1:
                    pts.append(rand_point(sim, c))
                if rng.random() < 0.1:
                    pts.append(pts[0])
                rng.shuffle(pts)
                for q in pts:
                    try:
                        o = c[q]
                        if isinstance(o.gate, CircuitGate):
                            sim.block_gid(o.gate)
                    except (IndexError, TypeError):
                        pass
                valid = all(
                    -c.num_cycles <= q[0] < c.num_cycles
                    and -c.num_qudits <= q[1] < c.num_qudits
                    and not c.is_point_idle(q)
                    and isinstance(c[q].gate, CircuitGate) for q in pts)
                u0 = unitary_or_none(c)
                attempt('batch_unfold ' + ' '.join(f'{a} {b}' for a, b in pts),
                        f'batch_unfold({pts})', lambda: c.batch_unfold(pts),
                        lambda r: 'ok' if valid else 'ok')
                if valid and not sim.impl[-1].startswith('ok'):
                    sim.internal_error = (
                        f'batch_unfold({pts})', 'every point holds a '
                        'CircuitGate, yet the call failed: '
                        + sim.impl[-1].split(' # ')[0])
                    sim.impl[-1] = ('internal ValidArgs # '
                                    + sim.impl[-1].split(' # ', 1)[1])
                elif u0 is not None and not phase_equal(
                        u0, unitary_or_none(c)):
                    sim.unitary_bad = (f'batch_unfold({pts})', 'unitary '
                                       'changed by a structure-only call')
        elif kind == 'unfold_all':
            for _, o in c.operations_with_cycles():
                if isinstance(o.gate, CircuitGate):
                    sim.block_gid(o.gate)
            attempt('unfold_all', 'unfold_all()', lambda: c.unfold_all(),
                    must_ok=True)
        elif kind in ('fold', 'straighten'):
            reg = rand_region(sim, c)
            if not reg:
                continue
            before = sim.circ_text(c)
            regt = ' '.join(f'{q} {lo} {hi}' for q, (lo, hi) in reg.items())
            u0 = unitary_or_none(c)
            try:
                if kind == 'fold':
                    pt = c.fold(reg)
                    blk = c[pt]
                    sim.block_gid(blk.gate)
                    line = (f'fold {pt[0]} {pt[1]} {regt} | => '
                            + sim.circ_text(c))
                else:
                    _, net, _ = c.straighten(reg)
                    line = f'straighten {net} => ' + sim.circ_text(c)
                if u0 is not None and not phase_equal(u0, unitary_or_none(c)):
                    sim.unitary_bad = (f'{kind}({reg}) on {before}',
                                       'unitary changed by a structure-only '
                                       'call')
                sim.record(line, 'ok-rel', c, f'{kind}({reg})')
            except ValueError:
                # fold documents ValueError for a region that is invalid OR
                # cannot be straightened; the latter has no independent
                # characterisation, so no must-succeed oracle here
                sim.record(f'unchanged {sim.circ_text(c)}', 'ok', c,
                           f'{kind}({reg}) -> ValueError')
            except INTERNAL + (IndexError, TypeError) as e:
                sim.internal_error = (f'{kind}({reg}) on {before}',
                                      repr(e) + '\n'
                                      + traceback.format_exc()[-1500:])
                sim.record(f'unchanged {before}',
                           'internal ' + type(e).__name__, c,
                           f'{kind}({reg})')
        elif kind in ('add', 'iadd'):
            sub = sim.rand_circuit(list(c.radixes), rng.randint(0, 4))
            st = sim.circ_text(sub)
            if kind == 'add':
                def f():
                    nonlocal c
                    c = c + sub
                attempt(f'add {st}', f'c = c + <{st}>', f)
            else:
                def f():
                    nonlocal c
                    c += sub
                    if c is None:
                        raise AssertionError('c += x rebinds c to None')
                attempt(f'iadd {st}', f'c += <{st}>', f)
        elif kind == 'mul':
            if c.num_operations > 12:
                continue
            k = rng.randint(0, 3)

            if rng.random() < 0.4:
                def f():
                    nonlocal c
                    c *= k
                    if c is None:
                        raise AssertionError('c *= k rebinds c to None')
                attempt(f'imul {k}', f'c *= {k}', f)
            else:
                def f():
                    nonlocal c
                    c = c * k
                attempt(f'mul {k}', f'c = c * {k}', f)
        elif kind == 'inverse':
            if any(isinstance(o.gate, CircuitGate) for o in c):
                continue
            pairs = []
            try:
                for o in c:
                    pairs.append(sim.op_text(o) + '=>'
                                 + sim.op_text(o.get_inverse()))
            except Exception:
                continue

            def f():
                nonlocal c
                c = c.get_inverse()
            attempt('inverse ' + ' '.join(dict.fromkeys(pairs)),
                    'c = c.get_inverse()', f)
    sim.final = c
    return sim


# ---------------------------------------------------------------- exhaustive
def menu(nq: int):
    """A fixed menu of concrete calls on an `nq`-qubit circuit (nq in {2, 3});
    every sequence over it up to a given length is enumerated."""
    m = [
        ('append', 1, [0]), ('append', 6, [0, 1]), ('append', 6, [1, 0]),
        ('append', 4, [nq - 1]),
        ('insert', 0, 2, [1]), ('insert', -1, 4, [0]), ('insert', 1, 6, [1, 0]),
        ('pop', None), ('pop', (0, 0)), ('pop', (-1, nq - 1)),
        ('replace', (0, 0), 2, [0]), ('replace', (0, 1), 6, [1, 0]),
        ('replace', (-1, 0), 9, [0, 1]),
        ('pop_cycle', 0), ('batch_pop', [(0, 0), (0, 1)]),
        ('insert_circuit', 1, [1, 0]), ('renumber', list(reversed(range(nq)))),
        ('compress',), ('fold', {0: (0, 1)}), ('unfold', (0, 0)),
        ('batch_replace', [(0, 0), (-1, 0)]),
    ]
    if nq == 3:
        m += [('append', 10, [2, 0, 1]), ('insert', 0, 6, [2, 0]),
              ('pop_qudit', 1), ('insert_qudit', 1), ('fold', {1: (0, 1), 2: (0, 2)})]
    return m


def run_menu(alpha: Alphabet, nq: int, seq, holder=None) -> Sim:
    from bqskit.ir.circuit import Circuit
    from bqskit.ir.gates import CircuitGate
    from bqskit.ir.operation import Operation
    sim = Sim(alpha, random.Random(0))
    if holder is not None:
        holder.append(sim)
    c = Circuit(nq)
    sim.record('new ' + ','.join(['2'] * nq), 'ok', c, f'Circuit({nq})')
    items = menu(nq)

    def mkop(g, loc):
        gate = alpha.by_gid[g]
        return Operation(gate, loc, sim.fresh_params(gate.num_params))

    def attempt(line, call, fn, on_ok=lambda r: 'ok'):
        sim.current_call = call
        try:
            ret = on_ok(fn())
        except tuple(ERR) as e:
            ret = ERR[type(e)]
        except INTERNAL as e:
            sim.internal_error = (call, repr(e) + '\n'
                                  + traceback.format_exc()[-1500:])
            ret = 'internal ' + type(e).__name__
        sim.record(line, ret, c, call)

    for idx in seq:
        if sim.internal_error:
            break
        it = items[idx]
        k = it[0]
        if any(q >= c.num_qudits for x in it[1:] if isinstance(x, list)
               for q in x if isinstance(q, int)):
            continue
        if k == 'append':
            op = mkop(it[1], it[2])
            attempt(f'append {sim.op_text(op)}', f'append({op!r})',
                    lambda: c.append(op), lambda r: f'ok {r}')
        elif k == 'insert':
            op = mkop(it[2], it[3])
            attempt(f'insert {it[1]} {sim.op_text(op)}',
                    f'insert({it[1]}, {op!r})', lambda: c.insert(it[1], op))
        elif k == 'pop':
            if it[1] is None:
                attempt('pop none', 'pop()', lambda: c.pop(),
                        lambda r: 'ok ' + sim.op_text(r))
            else:
                attempt(f'pop {it[1][0]} {it[1][1]}', f'pop({it[1]})',
                        lambda: c.pop(it[1]), lambda r: 'ok ' + sim.op_text(r))
        elif k == 'replace':
            op = mkop(it[2], it[3])
            attempt(f'replace {it[1][0]} {it[1][1]} {sim.op_text(op)}',
                    f'replace({it[1]}, {op!r})', lambda: c.replace(it[1], op))
        elif k == 'batch_replace':
            ops = []
            ok = True
            for p in it[1]:
                try:
                    old = c[p]
                    ops.append(Operation(alpha.by_gid[2 if old.num_qudits == 1
                                                      else 7]
                                         if old.num_qudits <= 2 else old.gate,
                                         old.location, []))
                except (IndexError, TypeError):
                    ok = False
            if not ok or len({id(c[p]) for p in it[1]}) != len(it[1]):
                continue
            attempt('batch_replace ' + ' '.join(
                f'{p[0]} {p[1]} {sim.op_text(o)}' for p, o in zip(it[1], ops)),
                f'batch_replace({it[1]}, {ops!r})',
                lambda: c.batch_replace(it[1], ops))
        elif k == 'pop_cycle':
            attempt(f'pop_cycle {it[1]}', f'pop_cycle({it[1]})',
                    lambda: c.pop_cycle(it[1]))
        elif k == 'batch_pop':
            attempt('batch_pop ' + ' '.join(f'{a} {b}' for a, b in it[1]),
                    f'batch_pop({it[1]})', lambda: c.batch_pop(it[1]),
                    lambda r: 'ok ' + sim.circ_text(r))
        elif k == 'insert_circuit':
            sub = Circuit(2)
            sub.append(mkop(4, [0]))
            sub.append(mkop(6, [0, 1]))
            sub.append(mkop(2, [0]))
            st = sim.circ_text(sub)
            attempt(f'insert_circuit {it[1]} {st} '
                    + ','.join(map(str, it[2])) + ' 0',
                    f'insert_circuit({it[1]}, <{st}>, {it[2]})',
                    lambda: c.insert_circuit(it[1], sub, it[2]))
        elif k == 'renumber':
            if len(it[1]) != c.num_qudits:
                continue
            attempt('renumber ' + ','.join(map(str, it[1])),
                    f'renumber_qudits({it[1]})',
                    lambda: c.renumber_qudits(it[1]))
        elif k == 'compress':
            attempt('compress', 'compress()', lambda: c.compress())
        elif k == 'pop_qudit':
            attempt(f'pop_qudit {it[1]}', f'pop_qudit({it[1]})',
                    lambda: c.pop_qudit(it[1]))
        elif k == 'insert_qudit':
            if c.num_qudits >= 4:
                continue
            attempt(f'insert_qudit {it[1]} 2', f'insert_qudit({it[1]}, 2)',
                    lambda: c.insert_qudit(it[1], 2))
        elif k == 'unfold':
            try:
                o = c[it[1]]
                if isinstance(o.gate, CircuitGate):
                    sim.block_gid(o.gate)
            except (IndexError, TypeError):
                pass
            attempt(f'unfold {it[1][0]} {it[1][1]}', f'unfold({it[1]})',
                    lambda: c.unfold(it[1]))
        elif k == 'fold':
            reg = it[1]
            if any(q >= c.num_qudits for q in reg):
                continue
            before = sim.circ_text(c)
            regt = ' '.join(f'{q} {lo} {hi}' for q, (lo, hi) in reg.items())
            try:
                pt = c.fold(reg)
                sim.block_gid(c[pt].gate)
                sim.record(f'fold {pt[0]} {pt[1]} {regt} | => '
                           + sim.circ_text(c), 'ok-rel', c, f'fold({reg})')
            except ValueError:
                sim.record(f'unchanged {sim.circ_text(c)}', 'ok', c,
                           f'fold({reg}) -> ValueError')
            except INTERNAL + (IndexError, TypeError) as e:
                sim.internal_error = (f'fold({reg}) on {before}', repr(e)
                                      + '\n' + traceback.format_exc()[-1500:])
                sim.record(f'unchanged {before}',
                           'internal ' + type(e).__name__, c, f'fold({reg})')
    return sim


class HistoryTimeout(Exception):
    pass


def _alarm(signum, frame):
    raise HistoryTimeout()


HISTORY_CPU_S = 40          # one history normally takes well under a second
WORKER_AS_BYTES = 6 << 30   # address-space limit of a worker process


def _guard_process():
    """A changed tree can make a call loop for ever or allocate without bound;
    neither may take the check (or the machine) down: each history gets a CPU
    alarm, each worker an address-space limit (MemoryError instead of OOM)."""
    import resource
    import signal
    signal.signal(signal.SIGALRM, _alarm)
    try:
        soft, hard = resource.getrlimit(resource.RLIMIT_AS)
        lim = WORKER_AS_BYTES if hard == resource.RLIM_INFINITY \
            else min(WORKER_AS_BYTES, hard)
        resource.setrlimit(resource.RLIMIT_AS, (lim, hard))
    except (ValueError, OSError):
        pass


def _stuck(key, holder, e):
    """Result tuple for a history that hung, ran out of memory or made the
    generator's own reads of the circuit fail."""
    sim = holder[0] if holder else None
    calls = list(sim.calls) if sim is not None else []
    cur = getattr(sim, 'current_call', None)
    what = (f'{type(e).__name__} during {cur} after {len(calls)} recorded '
            f'calls: ' + ' ; '.join(calls[-6:]))
    return (key, ['new 2'], ['PROBE-FAILED # # '],
            ['(history aborted: ' + what[:300] + ')'],
            ('probe', repr(e) + ' ' + what + '\n'
             + traceback.format_exc()[-1500:]), None)


def menu_worker(args):
    import signal
    nq, seqs = args
    alpha = Alphabet()
    out = []
    _guard_process()
    for j, seq in enumerate(seqs):
        holder: list = []
        try:
            signal.alarm(HISTORY_CPU_S)
            try:
                sim = run_menu(alpha, nq, seq, holder)
            finally:
                signal.alarm(0)
            out.append((('menu', nq, tuple(seq)), sim.lines, sim.impl,
                        sim.calls, sim.internal_error, sim.unitary_bad))
        except (HistoryTimeout, MemoryError, RecursionError) as e:
            out.append(_stuck(('menu', nq, tuple(seq)), holder, e))
        except Exception as e:
            out.append((('menu', nq, tuple(seq)), None, None, None,
                        ('HARNESS', repr(e) + traceback.format_exc()[-2000:]),
                        None))
    return out


def timelines_from_text(ct: str) -> list[list[str]] | None:
    """per-qudit op sequences from a canonical circuit text"""
    try:
        rad, body = ct.split(':', 1)
    except ValueError:
        return None
    n = len(rad.split(',')) if rad else 0
    tl: list[list[str]] = [[] for _ in range(n)]
    if body == '':
        return tl
    for cyc in body.split('/'):
        if cyc == '':
            continue
        for op in cyc.split('+'):
            loc = op.split(';')[2]
            for q in loc.split(','):
                if q != '' and int(q) < n:
                    tl[int(q)].append(op)
    return tl


def seed_of(base: int, i: int) -> int:
    return zlib.crc32(f'{base}:{i}'.encode()) & 0x7fffffff


def worker(args):
    import signal
    base, start, count, length, kinds = args
    alpha = Alphabet()
    out = []
    _guard_process()
    for i in range(start, start + count):
        holder: list = []
        try:
            signal.alarm(HISTORY_CPU_S)
            try:
                sim = run_history(alpha, seed_of(base, i), length, kinds,
                                  holder)
            finally:
                signal.alarm(0)
            out.append((i, sim.lines, sim.impl, sim.calls,
                        sim.internal_error, sim.unitary_bad))
        except (HistoryTimeout, MemoryError, RecursionError) as e:
            out.append(_stuck(i, holder, e))
        except (IndexError, KeyError, AssertionError, ValueError,
                AttributeError, TypeError) as e:
            # the generator itself reads the circuit through the public API
            # (c[p], surround, get_region ...); if that fails on a state the
            # same API reported as occupied, the circuit is internally
            # inconsistent: keep the history up to here and report it (C05)
            sim = getattr(e, 'sim', None)
            tb = traceback.format_exc()
            out.append((i, ['new 2'], ['PROBE-FAILED # # '], ['(generator '
                        'probe of the circuit failed)'],
                        ('probe', repr(e) + '\n' + tb[-1800:]), None))
        except Exception as e:  # harness bug: surface it
            out.append((i, None, None, None,
                        ('HARNESS', repr(e) + traceback.format_exc()[-2000:]),
                        None))
    return out
