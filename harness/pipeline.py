"""Shared harness of the pipeline cluster: C01, C02, C03 (see DESIGN.md section 4).

One run =
  1. (B) translator: the REAL `build_workflow` trees -> lean/BqVerif/Generated/Workflows.lean,
  2. Lean obligations (`lake build BqVerif.Props.Cxx`): generic soundness of the abstract
     interpreter + kernel evaluation of the postconditions on every regenerated tree,
  3. (A) end-to-end tie: a seeded batch of REAL `compile()` calls on ONE shared real runtime
     (machine-wide lock, see pipe_rt.py), cached under .cache/ keyed by the SHA-256 of every
     *.py under the repo's bqskit/, the seed and the tier, so three checks started back to back
     pay for the batch once,
  4. direct oracles on the real outputs, independent of the Lean model:
       C02  width/radixes; gate set within the model's (placeholders aside); every pair of every
            multi-qudit location coupled; MachineModel.is_compatible agrees with that check on
            the output and on perturbed outputs,
       C01  V . place(pi, psi (x) 0) = e^{i phi} place(pf, U psi (x) 0) as isometries, within the
            budget of theorem C01_C03_budget for the number K of accepted replacements measured
            on the run; measurement placeholders on pf[q],
       C03  distance to the target unitary / overlap with the target state / every pair of the
            state system; list inputs give one result per input in order,
  5. if a Lean obligation no longer builds: the failing configurations are listed by evaluating
     the abstract interpreter, and inputs of exactly those configurations are compiled on the
     real code (targeted search) before the verdict is printed.
"""
from __future__ import annotations

import fcntl
import hashlib
import itertools as it
import math
import os
import pickle
import random
import re
import time
import traceback
import warnings
from pathlib import Path
from typing import Any

import numpy as np

from harness.common import LEAN, REPO, VERIF, Check, InfraError, sh

EPS = 1e-8
CACHE = VERIF / '.cache'
GEN_VERSION = 'pipe-batch-6'


# =========================================================================
# translator + Lean obligations
# =========================================================================
def repo_sha() -> str:
    h = hashlib.sha256()
    root = REPO / 'bqskit'
    for p in sorted(root.rglob('*.py')):
        h.update(str(p.relative_to(root)).encode())
        h.update(p.read_bytes())
    return h.hexdigest()


def run_translator(ck: Check) -> dict:
    """Regenerate Generated/Workflows.lean from the live build_workflow.  The result depends
    only on the repo's sources and on the translator: when neither changed since the last
    regeneration the file on disk is current (three checks in a row translate once)."""
    CACHE.mkdir(exist_ok=True)
    tsrc = (VERIF / 'translate' / 'workflows.py').read_bytes()
    key = hashlib.sha256(repo_sha().encode() + tsrc).hexdigest()
    stamp = CACHE / 'workflows.stamp'
    out = LEAN / 'BqVerif' / 'Generated' / 'Workflows.lean'
    lock = open(CACHE / 'workflows.lock', 'w')
    fcntl.flock(lock, fcntl.LOCK_EX)
    try:
        if stamp.exists() and out.exists():
            try:
                st = pickle.loads(stamp.read_bytes())
                if st['key'] == key and st['out_sha'] == hashlib.sha256(
                        out.read_bytes()).hexdigest():
                    return st['summary']
            except Exception:
                pass
        from translate import workflows as tw
        try:
            summary = tw.generate(out)
        except tw.UnknownConstruct as e:
            raise InfraError(
                f'translator: {e} -- the workflow contains a construct the '
                f'calculus has no contract for; extend translate/workflows.py '
                f'and Model/Pipeline.lean') from e
        stamp.write_bytes(pickle.dumps({
            'key': key, 'summary': summary,
            'out_sha': hashlib.sha256(out.read_bytes()).hexdigest()}))
        return summary
    finally:
        fcntl.flock(lock, fcntl.LOCK_UN)
        lock.close()


FAIL_EVAL = '''import BqVerif.Proofs.PipelineScope
import BqVerif.Generated.Workflows
open BqVerif.Pipeline BqVerif.Generated.Workflows
def why (w : WF) : String :=
  let a := w.final
  s!"{w.name} c02={c02Check w} structural={structural a} c01={c01Check w} c03={c03Check w} noRaise={noRaise w} f2={a.f2} fMany={a.fMany} fSQ={a.fSQ} blocks={a.blocks} uncoupled={a.uncoupled} narrow={a.narrow} noModel={a.noModel} hidden={a.hidden} circBad={a.circBad} measPending={a.measPending} measHazard={a.measHazard}"
#eval do
  for (w : WF) in workflows do
    if !(allCheck w) then IO.println ("FAILING " ++ why w)
'''


def failing_workflows() -> list[str]:
    """Names (+ abstract facts) of the regenerated workflows whose postcondition fails."""
    d = LEAN / '.audit'
    d.mkdir(exist_ok=True)
    f = d / 'pipeline_failing.lean'
    f.write_text(FAIL_EVAL)
    r = sh(['lake', 'build', 'BqVerif.Proofs.PipelineScope',
            'BqVerif.Generated.Workflows'], cwd=LEAN)
    if r.returncode != 0:
        raise InfraError('Generated/Workflows.lean does not elaborate:\n'
                         + r.stdout[-2000:])
    r = sh(['lake', 'env', 'lean', str(f)], cwd=LEAN)
    return [l[len('FAILING '):] for l in r.stdout.splitlines()
            if l.startswith('FAILING ')]


# =========================================================================
# inputs
# =========================================================================
def _gates():
    from bqskit.ir import gates as G
    return G


def build_model(spec: dict):
    """spec: {'n', 'shape', 'gates', 'radix'}"""
    from bqskit.compiler.machine import MachineModel
    from bqskit.qis.graph import CouplingGraph
    G = _gates()
    n, shape, radix = spec['n'], spec['shape'], spec.get('radix', 2)
    if n == 1:
        cg = CouplingGraph([], 1)
    elif shape == 'a2a':
        cg = CouplingGraph.all_to_all(n)
    elif shape == 'line':
        cg = CouplingGraph.linear(n)
    elif shape == 'ring':
        cg = CouplingGraph.ring(n) if n > 2 else CouplingGraph.linear(n)
    elif shape == 'star':
        cg = CouplingGraph.star(n)
    elif shape == 'grid':
        rows = 2 if n % 2 == 0 and n > 2 else 1
        cg = CouplingGraph.grid(rows, n // rows)
    else:
        raise ValueError(shape)
    gs = {
        'cx-u3': lambda: {G.CNOTGate(), G.U3Gate()},
        'cz-rz-sx': lambda: {G.CZGate(), G.RZGate(), G.SqrtXGate()},
        'cx-u1-rx': lambda: {G.CNOTGate(), G.U1Gate(), G.RXGate()},
        # "mixed" Z-X sets: phase gate and X gate of the ZXZXZ rule are chosen independently
        'cx-u1-sx': lambda: {G.CNOTGate(), G.U1Gate(), G.SqrtXGate()},
        'cz-rz-rx': lambda: {G.CZGate(), G.RZGate(), G.RXGate()},
        'cx-zx-all': lambda: {G.CNOTGate(), G.U1Gate(), G.RZGate(), G.RXGate(),
                              G.SqrtXGate()},
        'cx-h-t': lambda: {G.CNOTGate(), G.HGate(), G.TGate()},
        'cz-varu': lambda: {G.CZGate(), G.VariableUnitaryGate(1)},
        'cx-swap-u3': lambda: {G.CNOTGate(), G.SwapGate(), G.U3Gate()},
        'cx-nosq': lambda: {G.CNOTGate()},
        'ccx-cx-u3': lambda: {G.CCXGate(), G.CNOTGate(), G.U3Gate()},
        'iswap-u3': lambda: {G.ISwapGate(), G.U3Gate()},
        'qutrit': lambda: {G.CSUMGate(3), G.VariableUnitaryGate(1, [3])},
    }[spec['gates']]()
    return MachineModel(n, cg, gs, [radix] * n)


def hub_circuit(rng: random.Random, width: int, nops: int, *, hub=0,
                barrier=False, measure=False):
    """Every two-qudit gate touches the `hub` qudit and every other qudit is used: on a line or
    a star whose centre is not physical qudit `hub` the layout pass must move the hub, so the
    placement is NOT the identity when the block passes of levels 3-4 run."""
    from bqskit.ir.circuit import Circuit
    G = _gates()
    c = Circuit(width)
    others = [q for q in range(width) if q != hub]
    seq = list(others)
    while len(seq) < max(nops, len(others)):
        seq.append(rng.choice(others))
    rng.shuffle(seq)
    bar_at = rng.randrange(1, len(seq)) if barrier and width >= 3 else -1
    for i, q in enumerate(seq):
        if i == bar_at:
            loc = sorted(rng.sample(range(width), rng.randint(2, width - 1)))
            c.append_gate(G.BarrierPlaceholder(len(loc)), loc)
        pair = (hub, q) if rng.random() < 0.6 else (q, hub)
        c.append_gate(rng.choice([G.CNOTGate(), G.CZGate(), G.CNOTGate()]), pair)
        if rng.random() < 0.6:
            c.append_gate(G.U3Gate(), rng.choice(pair),
                          [rng.uniform(-3, 3) for _ in range(3)])
    if measure:
        qs = sorted(rng.sample(range(width), rng.randint(1, width)))
        ms = {q: ('c', i) for i, q in enumerate(qs)}
        c.append_gate(G.MeasurementPlaceholder([('c', len(qs))], ms), qs)
    return c


def partial_barrier_circuit(rng: random.Random, width: int, nlayers: int):
    """Layers of two-qudit gates on disjoint neighbouring pairs; between two layers a barrier
    over a PROPER SUBSET of the qudits, so that gates on the other qudits become executable in
    the same router step as the barrier."""
    from bqskit.ir.circuit import Circuit
    G = _gates()
    c = Circuit(width)

    def pairs(off):
        return [(a, a + 1) for a in range(off, width - 1, 2)]

    def layer(off):
        for a, b in pairs(off):
            c.append_gate(G.U3Gate(), a, [rng.uniform(-3, 3) for _ in range(3)])
            c.append_gate(G.U3Gate(), b, [rng.uniform(-3, 3) for _ in range(3)])
            c.append_gate(rng.choice([G.CNOTGate(), G.CZGate()]), (a, b))
    bar_after = rng.randrange(0, max(1, nlayers - 1))
    for i in range(nlayers):
        layer(i % 2)
        if i == bar_after:
            # one gate of the NEXT layer stays clear of the barrier (it is ready in the same
            # step as the barrier), the barrier covers >= 2 of the other qudits
            free = rng.choice(pairs((i + 1) % 2))
            rest = [q for q in range(width) if q not in free]
            k = rng.randint(2, len(rest)) if len(rest) >= 2 else len(rest)
            loc = sorted(rng.sample(rest, k))
            if len(loc) >= 1:
                c.append_gate(G.BarrierPlaceholder(len(loc)), loc)
    return c


def rand_circuit(rng: random.Random, width: int, nops: int, *, radix=2,
                 three=False, barrier=False, measure=False, blocked=False,
                 swap=True):
    from bqskit.ir.circuit import Circuit
    G = _gates()
    c = Circuit(width, [radix] * width)
    if radix == 3:
        for _ in range(nops):
            if width >= 2 and rng.random() < 0.5:
                a, b = rng.sample(range(width), 2)
                c.append_gate(G.CSUMGate(3), (a, b))
            else:
                v = G.VariableUnitaryGate(1, [3])
                from bqskit.qis.unitary.unitarymatrix import UnitaryMatrix
                u = UnitaryMatrix.random(1, [3])
                c.append_gate(v, rng.randrange(width), v.calc_params(u))
        return c
    sq = [G.HGate(), G.XGate(), G.TGate(), G.SGate(), G.SqrtXGate()]
    sqp = [G.RZGate(), G.RXGate(), G.RYGate(), G.U3Gate()]
    tq = [G.CNOTGate(), G.CZGate(), G.CNOTGate()]
    if swap:
        tq.append(G.SwapGate())
    tqp = [G.CRZGate(), G.RZZGate()]
    bar_at = rng.randrange(1, max(2, nops)) if barrier else -1
    blk_at = rng.randrange(0, max(1, nops)) if blocked else -1
    for i in range(nops):
        if i == bar_at and width >= 2:
            k = rng.randint(2, width)
            loc = sorted(rng.sample(range(width), k))
            c.append_gate(G.BarrierPlaceholder(k), loc)
        if i == blk_at and width >= 2:
            sub = Circuit(2)
            sub.append_gate(G.HGate(), 0)
            sub.append_gate(G.CNOTGate(), (0, 1))
            sub.append_gate(G.RZGate(), 1, [rng.uniform(-3, 3)])
            a, b = rng.sample(range(width), 2)
            c.append_circuit(sub, (a, b), True)
        r = rng.random()
        if width >= 3 and three and r < 0.15:
            loc = rng.sample(range(width), 3)
            c.append_gate(rng.choice([G.CCXGate(), G.IToffoliGate()]), loc)
        elif width >= 2 and r < 0.55:
            a, b = rng.sample(range(width), 2)
            if rng.random() < 0.2:
                g = rng.choice(tqp)
                c.append_gate(g, (a, b), [rng.uniform(-3, 3)])
            else:
                c.append_gate(rng.choice(tq), (a, b))
        else:
            q = rng.randrange(width)
            if rng.random() < 0.5:
                c.append_gate(rng.choice(sq), q)
            else:
                g = rng.choice(sqp)
                c.append_gate(
                    g, q, [rng.uniform(-3, 3) for _ in range(g.num_params)])
    if measure:
        k = rng.randint(1, width)
        qs = sorted(rng.sample(range(width), k))
        ms = {q: ('c', i) for i, q in enumerate(qs)}
        c.append_gate(G.MeasurementPlaceholder([('c', k)], ms), qs)
    return c


def rand_unitary(rng: random.Random, width: int, radix: int, style: str):
    from bqskit.ir.circuit import Circuit
    from bqskit.qis.unitary.unitarymatrix import UnitaryMatrix
    G = _gates()
    dim = radix ** width
    nr = np.random.RandomState(rng.randrange(2 ** 31))
    if style == 'haar':
        z = (nr.randn(dim, dim) + 1j * nr.randn(dim, dim)) / math.sqrt(2)
        q, r = np.linalg.qr(z)
        q = q * (np.diag(r) / np.abs(np.diag(r)))
        return UnitaryMatrix(q, [radix] * width)
    if style == 'identity':
        return UnitaryMatrix.identity(dim, [radix] * width)
    if style == 'perm':
        p = nr.permutation(dim)
        return UnitaryMatrix(np.eye(dim)[p], [radix] * width)
    if style == 'diag':
        return UnitaryMatrix(
            np.diag(np.exp(1j * nr.uniform(-3, 3, dim))), [radix] * width)
    if style == 'near-identity':
        h = nr.randn(dim, dim) + 1j * nr.randn(dim, dim)
        h = (h + h.conj().T) * 0.01
        w, v = np.linalg.eigh(h)
        return UnitaryMatrix(
            (v * np.exp(1j * w)) @ v.conj().T, [radix] * width)
    if style == 'clifford' and radix == 2:
        c = rand_circuit(rng, width, 6, swap=False)
        c2 = Circuit(width)
        for _ in range(6):
            if width >= 2 and rng.random() < 0.5:
                a, b = rng.sample(range(width), 2)
                c2.append_gate(rng.choice([G.CNOTGate(), G.CZGate()]), (a, b))
            else:
                c2.append_gate(rng.choice([G.HGate(), G.SGate(), G.XGate()]),
                               rng.randrange(width))
        return c2.get_unitary()
    if style == 'swap':
        return UnitaryMatrix(G.SwapGate().get_unitary().numpy)
    if style in ('swap-local', 'local-swap'):
        # a qudit relabelling times a product of single-qudit unitaries: with the output (input)
        # qudits relabelled no entangler is needed, so a permutation-aware synthesis has a
        # strictly better non-identity permutation to choose
        loc = np.eye(1)
        for _ in range(width):
            loc = np.kron(loc, rand_unitary(rng, 1, radix, 'haar').numpy)
        perm = list(range(width))
        while perm == list(range(width)):
            rng.shuffle(perm)
        P = perm_matrix(width, radix, perm)
        return UnitaryMatrix(P @ loc if style == 'swap-local' else loc @ P,
                             [radix] * width)
    raise ValueError(style)


def rand_state(rng: random.Random, width: int, radix: int, style: str):
    from bqskit.qis.state.state import StateVector
    dim = radix ** width
    nr = np.random.RandomState(rng.randrange(2 ** 31))
    v = np.zeros(dim, dtype=complex)
    if style == 'random':
        v = nr.randn(dim) + 1j * nr.randn(dim)
    elif style == 'basis':
        v[nr.randint(dim)] = 1
    elif style == 'ghz':
        v[0] = 1
        v[dim - 1] = 1
    elif style == 'w':
        for k in range(width):
            v[radix ** k] = 1
    elif style == 'one':
        v[dim - 1] = 1
    elif style == 'plus':
        v[:] = 1
    v = v / np.linalg.norm(v)
    return StateVector(v, [radix] * width)


def rand_system(rng: random.Random, width: int, radix: int, npairs: int):
    """`npairs` orthonormal inputs mapped by one hidden unitary (so a circuit exists)."""
    from bqskit.qis.state.state import StateVector
    from bqskit.qis.state.system import StateSystem
    dim = radix ** width
    u = rand_unitary(rng, width, radix, 'haar').numpy
    nr = np.random.RandomState(rng.randrange(2 ** 31))
    z = nr.randn(dim, dim) + 1j * nr.randn(dim, dim)
    q, _ = np.linalg.qr(z)
    pairs = {}
    for k in range(npairs):
        vin = q[:, k]
        pairs[StateVector(vin, [radix] * width)] = StateVector(
            u @ vin, [radix] * width)
    return StateSystem(pairs)


# =========================================================================
# the batch
# =========================================================================
def jobs_for(seed: int, tier: str) -> list[dict]:
    """A job = one compile() call (possibly with a list of inputs).  Inputs are built from the
    job's own rng so that a job replays alone."""
    rng = random.Random(f'{GEN_VERSION}/{seed}/{tier}')
    jobs: list[dict] = []

    def J(tag, kind, inputs, model, level, ms=3, thr=None, cseed=None,
          expect=None, local=False):
        # local=True: executed IN PROCESS on a synchronous runtime handle (run_in_process):
        # cells that raise on the code as it is (recorded findings) would otherwise take the
        # shared attached runtime down once per job
        jobs.append({'tag': tag, 'kind': kind, 'inputs': inputs,
                     'model': model, 'level': level, 'ms': ms, 'thr': thr,
                     'cseed': cseed, 'expect': expect, 'local': local,
                     'rseed': rng.randrange(2 ** 31)})

    def circ(width, nops, **kw):
        return {'t': 'circuit', 'width': width, 'nops': nops, **kw}

    shapes = ['line', 'ring', 'star', 'grid', 'a2a']
    sparse = rng.choice(['line', 'star'])
    # --- circuits: sparse graphs, non-native two-qudit gates, barriers, measurements,
    #     pre-blocked CircuitGates, machine wider than the circuit, list input
    J('circ-list-sparse', 'circuit',
      [circ(3, rng.randint(5, 8), measure=True, barrier=True),
       circ(4, rng.randint(6, 9), blocked=True)],
      {'n': 4, 'shape': sparse, 'gates': 'cx-u3'}, 1, cseed=seed)
    # regression (fixed ea1f82a): a list of circuits with equal operation counts
    J('probe-list-equal-ops', 'circuit', [circ(2, 3), circ(2, 3)],
      {'n': 2, 'shape': 'a2a', 'gates': 'cx-u3'}, 1, ms=2, thr=1e-2)
    J('circ-3q-gate', 'circuit', [circ(4, rng.randint(5, 7), three=True)],
      {'n': rng.choice([4, 5]), 'shape': rng.choice(['star', 'line']),
       'gates': 'cx-u3'}, rng.choice([1, 2]), ms=3)
    J('circ-zx', 'circuit', [circ(3, rng.randint(4, 7), measure=True)],
      {'n': 3, 'shape': 'line',
       'gates': rng.choice(['cz-rz-sx', 'cx-u1-rx'])}, 1)
    J('circ-general-sq', 'circuit', [circ(3, rng.randint(4, 6))],
      {'n': rng.choice([3, 4]), 'shape': 'line',
       'gates': 'iswap-u3'}, rng.choice([1, 2]),
      ms=2, thr=1e-2)
    J('circ-small', 'circuit',
      [circ(1, 4), circ(2, rng.randint(3, 6), blocked=True, barrier=True)],
      {'n': 2, 'shape': 'a2a', 'gates': 'cx-u3'}, 1, ms=2, thr=1e-2)
    J('circ-swap-native', 'circuit', [circ(4, rng.randint(5, 8))],
      {'n': 4, 'shape': 'line', 'gates': 'cx-swap-u3'}, 1, ms=3)
    # levels 3-4 with a layout that is NOT the identity: the hub qudit of the input sits on an end
    # of the line, so the layout pass must move it before the block passes run
    if seed % 2 == 0:
        J('circ-L3', 'circuit', [circ(3, 4, hub=rng.choice([0, 2]), measure=True)],
          {'n': 3, 'shape': 'line', 'gates': 'cx-u3'}, 3, ms=3)
    else:
        J('circ-L4', 'circuit', [circ(3, 4, hub=rng.choice([0, 2]), barrier=True)],
          {'n': 3, 'shape': 'line', 'gates': 'cx-u3'}, 4, ms=3)
    # a list of three inputs whose sizes are in no monotone order (dims 2, 4, 4 -> sorting by size
    # is a 3-cycle, not a swap), and a "mixed" Z-X gate set, on the real runtime
    J('uni-list-3sizes', 'unitary',
      [{'t': 'unitary', 'width': w, 'radix': 2, 'style': 'haar'}
       for w in rng.choice([(1, 2, 2), (1, 1, 2), (2, 1, 2)])],
      {'n': 2, 'shape': 'a2a', 'gates': 'cx-u3'}, 1, ms=2, thr=1e-2)
    J('circ-zx-mixed', 'circuit', [circ(3, rng.randint(4, 6))],
      {'n': 3, 'shape': 'line',
       'gates': rng.choice(['cx-u1-sx', 'cz-rz-rx'])}, 1)
    J('uni-swaplocal-L4', 'unitary',
      [{'t': 'unitary', 'width': 2, 'radix': 2,
        'style': rng.choice(['swap-local', 'local-swap'])}],
      {'n': 2, 'shape': 'a2a', 'gates': 'cx-u3'}, 4, ms=2, thr=1e-2,
      expect='permuted')
    # --- unitaries
    styles = ['haar', 'perm', 'diag', 'clifford', 'near-identity', 'identity']
    J('uni-2q-list', 'unitary',
      [{'t': 'unitary', 'width': 2, 'radix': 2, 'style': 'haar'},
       {'t': 'unitary', 'width': 2, 'radix': 2,
        'style': rng.choice(styles[1:])}],
      {'n': 2, 'shape': rng.choice(['a2a', 'line']),
       'gates': 'cx-u3'},
      rng.choice([1, 2]), ms=2, thr=1e-2)
    J('uni-1q', 'unitary',
      [{'t': 'unitary', 'width': 1, 'radix': 2, 'style': 'haar'}],
      {'n': 1, 'shape': 'a2a',
       'gates': rng.choice(['cx-u3', 'cz-rz-sx'])},
      rng.choice([1, 2, 3]))
    J('uni-qutrit-1q', 'unitary',
      [{'t': 'unitary', 'width': 1, 'radix': 3, 'style': 'haar'}],
      {'n': 1, 'shape': 'a2a', 'gates': 'qutrit', 'radix': 3}, 1)
    # --- states and state systems (fixed 5e098c4: RX/RY/RZ in the output)
    J('state-2q-list', 'state',
      [{'t': 'state', 'width': 2, 'radix': 2,
        'style': rng.choice(['ghz', 'w', 'basis'])},
       {'t': 'state', 'width': 2, 'radix': 2, 'style': 'random'}],
      {'n': 2, 'shape': 'a2a', 'gates': 'cx-u3'}, 1, ms=2, thr=1e-2)
    J('system-2q', 'system',
      [{'t': 'system', 'width': 2, 'radix': 2, 'npairs': rng.choice([1, 2])}],
      {'n': 2, 'shape': 'a2a', 'gates': 'cx-u3'}, 1, ms=2, thr=1e-2)
    # --- probes of the witnessed defect classes (cheap)
    J('probe-unitary-wide', 'unitary',
      [{'t': 'unitary', 'width': 1, 'radix': 2, 'style': 'haar'}],
      {'n': 3, 'shape': 'line', 'gates': 'cx-u3'}, 1, expect='width')
    J('probe-state-wide', 'state',
      [{'t': 'state', 'width': 1, 'radix': 2, 'style': 'random'}],
      {'n': 2, 'shape': 'line', 'gates': 'cx-u3'}, 1, expect='width')
    # regression (fixed ded687c): one-qudit circuit at level 4 on a wider machine
    J('probe-L4-w1-wide', 'circuit', [circ(1, 3)],
      {'n': 3, 'shape': 'line', 'gates': 'cx-u3'}, 4)
    J('probe-swap-L4', 'unitary',
      [{'t': 'unitary', 'width': 2, 'radix': 2, 'style': 'swap'}],
      {'n': 2, 'shape': 'a2a', 'gates': 'cx-u3'}, 4, ms=2, thr=1e-2,
      expect='permuted')
    J('probe-many-sparse', 'circuit', [circ(4, 9, routing=True)],
      {'n': 4, 'shape': 'line', 'gates': 'ccx-cx-u3'}, 1, cseed=1,
      expect='uncoupled')
    # --- the (input kind x optimisation level) matrix: EVERY cell is executed end to end in
    #     every tier, at the smallest width that reaches the cell's passes (see CELLS below and
    #     design_notes/PIPE.md "coverage of the quick batch").  Cells that raise on the code as
    #     it is (recorded findings) run in process.
    for lvl in (2, 3, 4):
        J(f'cell-circuit-L{lvl}', 'circuit',
          [circ(2, 4, measure=(lvl == 2), barrier=(lvl == 3))],
          {'n': 2, 'shape': 'line', 'gates': 'cx-u3'}, lvl, ms=2, thr=1e-2)
    for lvl in (1, 2, 3, 4):
        # one-qubit unitaries; the VariableUnitaryGate model is the regression of 10f69ef
        J(f'cell-unitary-L{lvl}', 'unitary',
          [{'t': 'unitary', 'width': 1, 'radix': 2, 'style': 'haar'}],
          {'n': 1, 'shape': 'line',
           'gates': 'cz-varu' if lvl in (1, 3) else 'cx-u3'}, lvl)
    # states: |1> passes the one-qudit search (most of the time at level 2, always at level 3)
    # and then reaches the single-qudit retarget and ScanningGateRemovalPass (regression of
    # bad39d6 and 5e098c4); a two-qubit state at levels 2-3 takes minutes (the residual cost of a
    # state target stalls around 7e-8 > synthesis_epsilon) and is left to the thorough tier
    J('cell-state-L1', 'state',
      [{'t': 'state', 'width': 1, 'radix': 2, 'style': 'random'}],
      {'n': 1, 'shape': 'a2a', 'gates': 'cx-u3'}, 1)
    for lvl in (2, 3):
        J(f'cell-state-L{lvl}', 'state',
          [{'t': 'state', 'width': 1, 'radix': 2, 'style': 'one'}],
          {'n': 1, 'shape': 'a2a', 'gates': 'cx-u3'}, lvl, local=True)
    J('cell-state-L4', 'state',
      [{'t': 'state', 'width': 2, 'radix': 2, 'style': 'ghz'}],
      {'n': 2, 'shape': 'a2a', 'gates': 'cx-u3'}, 4, ms=2, thr=1e-2,
      local=True, expect='pas-on-state')
    for lvl in (2, 3):
        J(f'cell-system-L{lvl}', 'system',
          [{'t': 'system', 'width': 2, 'radix': 2, 'npairs': 1}],
          {'n': 2, 'shape': 'a2a', 'gates': 'cx-u3'}, lvl, ms=2, thr=1e-2)
    J('cell-system-L4', 'system',
      [{'t': 'system', 'width': 2, 'radix': 2, 'npairs': 1}],
      {'n': 2, 'shape': 'a2a', 'gates': 'cx-u3'}, 4, ms=2, thr=1e-2,
      local=True, expect='pas-on-state')
    # --- probes of the recorded raise findings (in process)
    J('probe-state-1q-L2', 'state',
      [{'t': 'state', 'width': 1, 'radix': 2, 'style': 'plus'}],
      {'n': 1, 'shape': 'a2a', 'gates': 'cx-u3'}, 2, local=True,
      expect='one-qudit-state')
    J('probe-system-1q', 'system',
      [{'t': 'system', 'width': 1, 'radix': 2, 'npairs': 1}],
      {'n': 1, 'shape': 'a2a', 'gates': 'cx-u3'}, 1, local=True,
      expect='one-qudit-state')
    J('probe-czvaru-circuit', 'circuit', [circ(2, 4)],
      {'n': 2, 'shape': 'line', 'gates': 'cz-varu'}, 1, ms=2, thr=1e-2,
      local=True, expect='no-instantiater')
    J('probe-czvaru-unitary', 'unitary',
      [{'t': 'unitary', 'width': 2, 'radix': 2, 'style': 'haar'}],
      {'n': 2, 'shape': 'line', 'gates': 'cz-varu'}, 1, ms=2, thr=1e-2,
      local=True, expect='no-instantiater')
    J('probe-qutrit-state', 'state',
      [{'t': 'state', 'width': 1, 'radix': 3, 'style': 'random'}],
      {'n': 1, 'shape': 'a2a', 'gates': 'qutrit', 'radix': 3}, 1, local=True,
      expect='forced-minimization')
    if tier == 'thorough':
        n_extra = 290
        for i in range(n_extra):
            kind = rng.choice(['circuit'] * 5 + ['unitary'] * 3
                              + ['state', 'system'])
            level = rng.choice([1] * 5 + [2] * 3 + [3]) if i % 30 else 4
            if kind == 'circuit':
                w = rng.choice([1, 2, 3, 3, 4, 4, 5, 6])
                if level == 4:          # SeqPAM is factorial in the block size
                    w = min(w, 3)
                gates = rng.choice(['cx-u3', 'cx-u3', 'cz-rz-sx', 'cx-u1-rx',
                                    'cz-varu', 'cx-swap-u3', 'iswap-u3',
                                    'cx-nosq'])
                n = w + rng.choice([0, 0, 1, 2])
                ms = rng.choice([2, 3])
                J(f'x{i}-circ', 'circuit',
                  [circ(w, rng.randint(3, 5 if level >= 3 else 10),
                        three=(ms >= 3 and level < 4),
                        barrier=rng.random() < .3, measure=rng.random() < .3,
                        blocked=rng.random() < .2)
                   for _ in range(rng.choice([1, 1, 2]))],
                  {'n': n, 'shape': rng.choice(shapes), 'gates': gates},
                  level, ms=ms, thr=rng.choice([None, None, 1e-2]),
                  cseed=rng.choice([None, i]))
            elif kind == 'unitary':
                radix = rng.choice([2, 2, 2, 3])
                w = rng.choice([1, 2, 2]) if radix == 2 else 1
                if radix == 2 and i % 15 == 0:
                    w = 3
                J(f'x{i}-uni', 'unitary',
                  [{'t': 'unitary', 'width': w, 'radix': radix,
                    'style': rng.choice(styles if radix == 2
                                        else ['haar', 'diag', 'perm'])}
                   for _ in range(rng.choice([1, 2]))],
                  {'n': w, 'shape': rng.choice(['a2a', 'line']),
                   'gates': 'qutrit' if radix == 3 else rng.choice(
                       ['cx-u3', 'cx-u3', 'cz-rz-sx', 'cx-u1-rx', 'cz-varu',
                        'iswap-u3']),
                   'radix': radix}, level)
            elif kind == 'state':
                lv = rng.choice([1, 1, 1, 2, 3, 4])
                # levels 2-3 on two qubits take minutes (residual cost floor): a few only
                w = rng.choice([1, 2, 2, 3]) if lv == 1 else rng.choice(
                    [1, 1, 1, 2])
                J(f'x{i}-state', 'state',
                  [{'t': 'state', 'width': w, 'radix': 2,
                    'style': rng.choice(['random', 'basis', 'ghz', 'w', 'one'])}],
                  {'n': w, 'shape': 'a2a',
                   'gates': rng.choice(['cx-u3', 'cx-u3', 'iswap-u3',
                                        'cz-varu'])},
                  lv, local=(lv == 4 or w == 1))
            else:
                w = rng.choice([1, 2, 2])
                lv = rng.choice([1, 1, 2, 3, 4])
                J(f'x{i}-system', 'system',
                  [{'t': 'system', 'width': w, 'radix': 2,
                    'npairs': rng.randint(1, 2 ** w)}],
                  {'n': w, 'shape': 'a2a', 'gates': 'cx-u3'},
                  lv, local=(lv == 4 or w == 1))
    # --- strengthening round 3: the REAL compile() on an in-process compiler (local='compile',
    #     harness/pipe_stage.py: no runtime lock, ForEachBlockPass contract monitor active)
    def IP(tag, kind, inputs, model, level, **kw):
        J(tag, kind, inputs, model, level, local='compile', **kw)
    # list inputs of 3-4 elements of different sizes in EVERY order (the non-monotone ones are
    # the point; the two monotone ones come along)
    for k, ws in enumerate(it.permutations((1, 2, 3))):
        IP(f'ip-list-circ-{"".join(map(str, ws))}', 'circuit',
           [circ(w, rng.randint(2, 4), measure=(w == 2 and k % 2 == 0)) for w in ws],
           {'n': 3, 'shape': 'line', 'gates': 'cx-u3'}, 1, ms=2, thr=1e-2)
    four = [p for p in it.permutations((1, 2, 3, 4))
            if list(p) not in ([1, 2, 3, 4], [4, 3, 2, 1])]
    for ws in rng.sample(four, 3 if tier == 'quick' else 12):
        IP(f'ip-list-circ-{"".join(map(str, ws))}', 'circuit',
           [circ(w, rng.randint(2, 3)) for w in ws],
           {'n': 4, 'shape': rng.choice(['star', 'line']), 'gates': 'cx-u3'}, 1,
           ms=2, thr=1e-2)
    ties = [(1, 2, 2), (2, 1, 2), (2, 2, 1), (1, 1, 2), (1, 2, 1), (2, 1, 1)]
    for ws in rng.sample(ties, 2 if tier == 'quick' else 6):
        IP(f'ip-list-uni-{"".join(map(str, ws))}', 'unitary',
           [{'t': 'unitary', 'width': w, 'radix': 2,
             'style': rng.choice(['haar', 'diag', 'clifford'])} for w in ws],
           {'n': 2, 'shape': 'a2a', 'gates': 'cx-u3'}, 1, ms=2, thr=1e-2)
    ws = rng.choice(ties)
    IP(f'ip-list-state-{"".join(map(str, ws))}', 'state',
       [{'t': 'state', 'width': w, 'radix': 2,
         'style': rng.choice(['random', 'ghz', 'basis'])} for w in ws],
       {'n': 2, 'shape': 'a2a', 'gates': 'cx-u3'}, 1, ms=2, thr=1e-2)
    # levels 3-4 on sparse graphs where the layout is not the identity (hub input on a line / on
    # a star whose centre is another qudit / on a wider star), measurements, barriers over a
    # proper subset of the qudits with independent gates next to them
    IP('ip-L3-hub-line', 'circuit', [circ(3, 4, hub=rng.choice([0, 2]), measure=True)],
       {'n': 3, 'shape': 'line', 'gates': 'cx-u3'}, 3, ms=3)
    IP('ip-L3-hub-star-wide', 'circuit',
       [circ(3, 4, hub=rng.choice([1, 2]), barrier=True)],
       {'n': 4, 'shape': 'star', 'gates': 'cx-u3'}, 3, ms=2, thr=1e-2)
    IP('ip-L4-partial-barrier', 'circuit',
       [circ(5, rng.choice([2, 3]), partial_barrier=True)],
       {'n': 5, 'shape': 'line', 'gates': 'cx-u3'}, 4, ms=2, thr=1e-2)
    IP('ip-L4-hub-barrier', 'circuit',
       [circ(4, 4, hub=rng.choice([0, 3]), barrier=True, measure=True)],
       {'n': 4, 'shape': 'line', 'gates': 'cx-u3'}, 4, ms=2, thr=1e-2)
    # "mixed" single-qudit Z-X sets, every input kind that goes through the single-qudit retarget
    for gs in ('cx-u1-sx', 'cz-rz-rx', 'cx-zx-all'):
        IP(f'ip-zx-{gs}', 'circuit', [circ(3, rng.randint(4, 6), measure=True)],
           {'n': 3, 'shape': 'line', 'gates': gs}, rng.choice([1, 1, 2]))
    IP('ip-zx-unitary', 'unitary',
       [{'t': 'unitary', 'width': 1, 'radix': 2, 'style': 'haar'}],
       {'n': 1, 'shape': 'a2a', 'gates': rng.choice(['cx-u1-sx', 'cz-rz-rx'])}, 1)
    IP('ip-zx-state', 'state',
       [{'t': 'state', 'width': 1, 'radix': 2, 'style': 'random'}],
       {'n': 1, 'shape': 'a2a', 'gates': rng.choice(['cx-u1-sx', 'cz-rz-rx'])}, 1)
    # level-4 unitary synthesis where a non-identity permutation is strictly better
    for st in ('swap-local', 'local-swap'):
        IP(f'ip-{st}-L4', 'unitary',
           [{'t': 'unitary', 'width': 2, 'radix': 2, 'style': st}],
           {'n': 2, 'shape': 'a2a', 'gates': 'cx-u3'}, 4, ms=2, thr=1e-2,
           expect='permuted')
    # --- qutrit circuit with a single-qudit gate that is not native (GeneralSQDecomposition
    #     raised on qutrit blocks before the fix d7fbe96)
    J('probe-qutrit-sq', 'circuit',
      [{'t': 'qutrit-sq'}], {'n': 2, 'shape': 'a2a', 'gates': 'qutrit',
                             'radix': 3}, 1, ms=2, thr=1e-2)
    # keep the batch inside compile()'s own input domain (its argument guards, transcribed in
    # translate/workflows.py and compared with the real ones by malformed_stream)
    from translate.workflows import outside_compile_domain
    kept = []
    for j in jobs:
        m = build_model(j['model'])
        widths = [2 if s['t'] == 'qutrit-sq' else s['width'] for s in j['inputs']]
        if any(outside_compile_domain(w, m, j['ms']) for w in widths):
            continue
        if j['kind'] == 'circuit' and j['ms'] < 3 and any(
                s.get('three') for s in j['inputs']):
            for s in j['inputs']:
                s['three'] = False
        kept.append(j)
    return kept


def build_input(spec: dict, rng: random.Random):
    from bqskit.ir.circuit import Circuit
    G = _gates()
    t = spec['t']
    if t == 'circuit':
        if spec.get('routing'):
            c = Circuit(spec['width'])
            pairs = [(0, 2), (1, 3), (0, 3), (2, 1), (0, 2)]
            for a, b in pairs:
                c.append_gate(G.CNOTGate(), (a, b))
                c.append_gate(G.U3Gate(), a,
                              [rng.uniform(-3, 3) for _ in range(3)])
                c.append_gate(G.CZGate(), (b, a))
            return c
        if spec.get('hub') is not None:
            return hub_circuit(rng, spec['width'], spec['nops'], hub=spec['hub'],
                               barrier=spec.get('barrier', False),
                               measure=spec.get('measure', False))
        if spec.get('partial_barrier'):
            return partial_barrier_circuit(rng, spec['width'], spec['nops'])
        kw = {k: v for k, v in spec.items()
              if k in ('three', 'barrier', 'measure', 'blocked', 'radix')}
        return rand_circuit(rng, spec['width'], spec['nops'], **kw)
    if t == 'unitary':
        return rand_unitary(rng, spec['width'], spec['radix'], spec['style'])
    if t == 'state':
        return rand_state(rng, spec['width'], spec['radix'], spec['style'])
    if t == 'system':
        return rand_system(rng, spec['width'], spec['radix'], spec['npairs'])
    if t == 'qutrit-sq':
        c = Circuit(2, [3, 3])
        c.append_gate(G.CSUMGate(3), (0, 1))
        c.append_gate(G.HGate(3), 0)
        return c
    raise ValueError(t)


def build_inputs(j: dict) -> list:
    """The inputs of a job (built from the job's own rng, so a job replays alone).  Lists of
    circuits with equal operation counts are not avoided any more (compile() raised TypeError on
    them before the /repo fix ea1f82a; `probe-list-equal-ops` keeps one such list in every
    batch)."""
    rng = random.Random(j['rseed'])
    return [build_input(s, rng) for s in j['inputs']]


def count_replaced(data) -> int:
    """Number of accepted block replacements recorded in a PassData (all nesting levels)."""
    k = 0
    try:
        if 'ForEachBlockPass_data' not in data:
            return 0
        for runs in data['ForEachBlockPass_data']:
            for bd in runs:
                try:
                    if 'replaced' in bd and bd['replaced']:
                        k += 1
                    k += count_replaced(bd)
                except Exception:
                    pass
    except Exception:
        pass
    return k


from translate.workflows import LocalRuntime  # noqa: E402  (one synchronous RuntimeHandle)


def run_in_process(j: dict, inp, model, timeout: int = 240):
    """What compile() does for one input (compile.py: build_workflow, the input circuit per
    input kind, the mappings read from the pass data), executed without a runtime."""
    import asyncio
    import bqskit.runtime.worker as rw
    from bqskit.compiler.compile import build_workflow
    from bqskit.compiler.passdata import PassData
    from bqskit.ir.circuit import Circuit
    from bqskit.qis.unitary.unitarymatrix import UnitaryMatrix
    from harness.pipe_rt import alarm
    wf = build_workflow(inp, model, j['level'], EPS, j['ms'], j['thr'], 8,
                        j['cseed'])
    if isinstance(inp, Circuit):
        c = inp.copy()
    elif isinstance(inp, UnitaryMatrix):
        c = Circuit.from_unitary(inp)
    else:
        c = Circuit(inp.num_qudits, inp.radixes)
    d = PassData(c)
    old = rw._worker
    rw._worker = LocalRuntime()
    try:
        with warnings.catch_warnings(), alarm(timeout):
            warnings.simplefilter('ignore')
            asyncio.run(wf.run(c, d))
    finally:
        rw._worker = old
    return c, list(d.initial_mapping), list(d.final_mapping), d


def raise_site(e: BaseException) -> str:
    """Innermost frame of the repo in the traceback: `file.py:function`."""
    tb = traceback.extract_tb(e.__traceback__)
    return next((f'{Path(f.filename).name}:{f.name}' for f in reversed(tb)
                 if '/bqskit/' in f.filename), '?:?')


def diagnose(res: dict, log, tries: int = 1) -> str | None:
    """Re-run the job's workflow IN PROCESS (no runtime): does one of its passes raise?
    Returns 'Type: message [at file.py:function]' or None.  Used for every compile() that
    raised or lost its runtime: a raise is always diagnosed, never set aside."""
    from harness.pipe_rt import JobTimeout
    j = res['job']
    for _ in range(tries):
        for inp in res['inputs']:
            try:
                run_in_process(j, inp, res['model'])
            except JobTimeout:
                return None
            except Exception as e:
                site = raise_site(e)
                log(f"  {j['tag']}: raises in-process: {type(e).__name__} at {site}")
                msg = f'{type(e).__name__}: {e}'.replace('\n', ' ')[:400]
                return f'{msg} [at {site}]'
    return None


def diagnose_lost(res: dict, log) -> str | None:
    return diagnose(res, log)


def run_local(job: dict, log) -> dict:
    """One job executed in process (what compile() does per input, on a synchronous runtime
    handle): for the cells that raise on the code as it is."""
    from harness.pipe_rt import JobTimeout
    ins = build_inputs(job)
    model = build_model(job['model'])
    res = {'job': job, 'inputs': ins, 'model': model, 'out': None, 'exc': None,
           'K': None, 'err': None, 'dt': 0.0, 'local': True}
    t0 = time.time()
    outs, Ks, errs = [], [], []
    if job.get('local') == 'compile':
        # the REAL compile() (list handling, mappings) on an in-process compiler
        from harness.pipe_stage import compile_in_process
        try:
            r = compile_in_process(job, ins, model, timeout=420)
            res['out'] = r['out']
            k = max([count_replaced(d) for d in r['datas']] or [0])
            res['K'] = [k] * len(ins)
            res['err'] = [float(d.error) for d in r['datas']]
            res['monitor'] = r['monitor']
        except JobTimeout as e:
            res['exc'] = f'JobTimeout: {e}'
            res['timeout'] = True
        except Exception as e:
            res['in_process'] = (f'{type(e).__name__}: {e} '
                                 f'[at {raise_site(e)}]').replace('\n', ' ')[:500]
            res['exc'] = 'IN-PROCESS: ' + res['in_process']
            if len(ins) > 1:
                # does one of the per-input workflows raise, or compile()'s list handling?
                res['in_process'] = diagnose(res, log)
        res['dt'] = time.time() - t0
        log(f"  {job['tag']} (compile() in process): {res['dt']:.1f}s"
            + (f" EXC {res['exc'][:110]}" if res['exc'] else ''))
        return res
    for inp in ins:
        try:
            c, pi, pf, d = run_in_process(job, inp, model, timeout=300)
            outs.append((c, tuple(pi), tuple(pf)))
            Ks.append(count_replaced(d))
            errs.append(float(d.error))
        except JobTimeout as e:
            res['exc'] = f'JobTimeout: {e}'
            res['timeout'] = True
            break
        except Exception as e:
            res['in_process'] = (f'{type(e).__name__}: {e} '
                                 f'[at {raise_site(e)}]').replace('\n', ' ')
            if len(res['in_process']) > 500:
                res['in_process'] = (res['in_process'][:400] + ' ... '
                                     + f'[at {raise_site(e)}]')
            res['exc'] = 'IN-PROCESS: ' + res['in_process']
            break
    if res['exc'] is None:
        res['out'], res['K'], res['err'] = outs, Ks, errs
    res['dt'] = time.time() - t0
    log(f"  {job['tag']} (in process): {res['dt']:.1f}s"
        + (f" EXC {res['exc'][:110]}" if res['exc'] else ''))
    return res


def run_batch(ck: Check, jobs: list[dict], workers: int, log) -> list[dict]:
    """Run the jobs on ONE shared real runtime.  Inputs are built before the runtime is
    started; oracles are evaluated after it is closed."""
    from bqskit import compile as bq_compile
    from harness.pipe_rt import (JobTimeout, RuntimeUnavailable, alarm,
                                 shared_compiler)
    # quick tier: the slowest job takes < 60 s on a loaded machine; a runtime whose workers died
    # answers nothing, and the machine-wide lock must not be held for 10 minutes (RUNTIME_LOCK.md)
    job_timeout = 240 if ck.tier == 'quick' else 900
    results: list[dict] = []
    t_all = time.time()
    # cells that raise on the code as it is: in process, before the runtime lock is taken
    for j in jobs:
        if j.get('local'):
            results.append(run_local(j, log))
    log(f'in-process jobs: {len(results)} in {time.time() - t_all:.0f}s')
    prepared = []
    for j in jobs:
        if j.get('local'):
            continue
        ins = build_inputs(j)
        prepared.append((j, ins, build_model(j['model'])))
    todo = list(prepared)
    attempts: dict[str, int] = {}
    restarts = 0
    while todo:
        try:
            with shared_compiler(workers, log=log) as comp:
                datas: list = []
                real_compile, real_result = comp.compile, comp.result

                def spy_compile(*a, **k):          # records PassData (K, error)
                    r = real_compile(*a, **k)
                    if isinstance(r, tuple) and len(r) == 2:
                        datas.append(r[1])
                    return r

                def spy_result(*a, **k):
                    r = real_result(*a, **k)
                    if isinstance(r, tuple) and len(r) == 2:
                        datas.append(r[1])
                    return r
                comp.compile = spy_compile
                comp.result = spy_result
                while todo:
                    j, ins, model = todo[0]
                    res = {'job': j, 'inputs': ins, 'model': model,
                           'out': None, 'exc': None, 'K': None, 'err': None,
                           'dt': 0.0}
                    del datas[:]
                    t0 = time.time()
                    arg = ins if len(ins) > 1 else ins[0]
                    lost = False
                    try:
                        with warnings.catch_warnings(), alarm(job_timeout):
                            warnings.simplefilter('ignore')
                            out = bq_compile(
                                arg, model, optimization_level=j['level'],
                                max_synthesis_size=j['ms'],
                                error_threshold=j['thr'], seed=j['cseed'],
                                with_mapping=True, compiler=comp)
                        res['out'] = out if len(ins) > 1 else [out]
                        res['K'] = [count_replaced(d) for d in datas]
                        res['err'] = [float(d.error) for d in datas]
                    except BaseException as e:
                        if isinstance(e, KeyboardInterrupt):
                            raise
                        res['exc'] = f'{type(e).__name__}: {e}'[:600]
                        lost = ('onnection' in str(e) or isinstance(
                            e, (EOFError, BrokenPipeError, OSError,
                                JobTimeout)))
                    res['dt'] = time.time() - t0
                    log(f"  {j['tag']}: {res['dt']:.1f}s"
                        + (f" EXC {res['exc'][:90]}" if res['exc'] else ''))
                    if lost:
                        # the runtime went away: another runtime on this machine took the
                        # fixed ports, or this job takes the server down.  Restart and retry;
                        # a job that loses the runtime three times is set aside.
                        attempts[j['tag']] = attempts.get(j['tag'], 0) + 1
                        if res['exc'].startswith('JobTimeout'):
                            # too slow for the tier on this machine: set aside, no retry
                            # (a timeout, not a raise; listed in the evidence)
                            attempts[j['tag']] = 3
                            res['in_process'] = None
                            res['timeout'] = True
                        elif attempts[j['tag']] == 1:
                            # cheap diagnosis first: does a pass of this job raise?
                            res['in_process'] = diagnose_lost(res, log)
                        if res.get('in_process'):
                            res['exc'] = 'RUNTIME-LOST: ' + res['exc']
                            res['lost'] = True
                            results.append(res)
                            todo.pop(0)
                        elif attempts[j['tag']] >= 3 or (
                                attempts[j['tag']] >= 2
                                and j['expect'] == 'raises'):
                            res['exc'] = 'RUNTIME-LOST: ' + res['exc']
                            res['lost'] = True
                            results.append(res)
                            todo.pop(0)
                        restarts += 1
                        break
                    results.append(res)
                    todo.pop(0)
        except RuntimeUnavailable as e:
            raise InfraError(str(e))
        if restarts > 8:
            raise InfraError('the BQSKit runtime was lost more than 8 times '
                             'during the batch (machine shared with other '
                             'runtimes?)')
    log(f'batch: {len(results)} compile() calls in {time.time() - t_all:.0f}s,'
        f' {restarts} runtime restarts')
    for res in results:
        if res.get('lost') and 'in_process' not in res:
            res['in_process'] = diagnose_lost(res, log)
        elif res['exc'] is not None and 'in_process' not in res:
            # compile() raised (the runtime survived): where?  (random failures get 3 tries)
            res['in_process'] = diagnose(res, log, tries=3)
    return results


def get_batch(ck: Check, log) -> list[dict]:
    CACHE.mkdir(exist_ok=True)
    jobs = jobs_for(ck.seed, ck.tier)
    lim = os.environ.get('VERIF_PIPE_LIMIT')      # development aid: a prefix of the batch
    if lim:
        jobs = jobs[:int(lim)]
        ck.coverage['batch_truncated_to'] = int(lim)
    if os.environ.get('VERIF_PIPE_LOCAL'):
        # development aid (the machine-wide runtime lock can be queued for an hour): every
        # job in process on the synchronous runtime handle; recorded in the evidence
        for j in jobs:
            j['local'] = j.get('local') or True
        ck.coverage['batch_all_in_process'] = True
    hsrc = hashlib.sha256(
        (VERIF / 'harness' / 'pipeline.py').read_bytes()
        + (VERIF / 'harness' / 'pipe_stage.py').read_bytes()).hexdigest()
    key = hashlib.sha256(
        (repo_sha() + f'/{ck.seed}/{ck.tier}/{GEN_VERSION}/{hsrc}/'
         + repr(jobs)).encode()).hexdigest()[:24]
    f = CACHE / f'pipe-{key}.pkl'
    lock = open(CACHE / f'pipe-{key}.lock', 'w')
    fcntl.flock(lock, fcntl.LOCK_EX)     # a sibling check may be producing it
    try:
        if f.exists():
            try:
                r = pickle.loads(f.read_bytes())
                log(f'batch: reusing {f.name} ({len(r)} compile() calls)')
                ck.coverage['batch_cache'] = 'hit'
                return r
            except Exception:
                pass
        workers = (4, 2, 4, 1, 4, 2)[ck.seed % 6]
        ck.coverage['batch_cache'] = 'miss'
        r = run_batch(ck, jobs, workers, log)
        for x in r:
            x['workers'] = workers
        for old in CACHE.glob('pipe-*.pkl'):
            if time.time() - old.stat().st_mtime > 6 * 3600:
                old.unlink()
        f.write_bytes(pickle.dumps(r))
        return r
    finally:
        fcntl.flock(lock, fcntl.LOCK_UN)
        lock.close()


# =========================================================================
# oracles (independent of the Lean model)
# =========================================================================
def is_placeholder(g) -> bool:
    G = _gates()
    return isinstance(
        g, (G.BarrierPlaceholder, G.MeasurementPlaceholder, G.Reset))


def strip_placeholders(c):
    from bqskit.ir.circuit import Circuit
    out = Circuit(c.num_qudits, c.radixes)
    for op in c:
        if not is_placeholder(op.gate):
            out.append(op)
    return out


def edge_set(model) -> set:
    s = set()
    for e in model.coupling_graph:
        s.add((e[0], e[1]))
        s.add((e[1], e[0]))
    return s


def three_clauses(model, c, placement=None, same_width=True) -> list[str]:
    """The three conditions of C02, computed from the operations alone."""
    bad = []
    n = c.num_qudits
    pl = list(range(n)) if placement is None else list(placement)
    if same_width and n != model.num_qudits:
        bad.append(f'width {n} != model width {model.num_qudits}')
    if n > model.num_qudits:
        bad.append('wider than the model')
        return bad
    for i, r in enumerate(c.radixes):
        if r != model.radixes[pl[i]]:
            bad.append(f'radix of qudit {i}: {r} != {model.radixes[pl[i]]}')
    native = set(model.gate_set)
    edges = edge_set(model)
    for op in c:
        if is_placeholder(op.gate):
            continue
        if op.gate not in native:
            bad.append(f'foreign gate {op.gate.name}')
        loc = op.location
        for a, b in it.combinations(loc, 2):
            if (pl[a], pl[b]) not in edges:
                bad.append(f'uncoupled pair {op.gate.name}{tuple(loc)}')
                break
    return sorted(set(bad))


def oracle_c02(ck: Check, res: dict, out, idx: int, emit):
    G = _gates()
    model = res['model']
    j = res['job']
    c = out[0]
    bad = three_clauses(model, c)
    if bad and not any(g.num_qudits == 1 for g in model.gate_set) and all(
            b.startswith('foreign gate') for b in bad) and all(
            op.num_qudits == 1 for op in c if op.gate not in model.gate_set
            and not is_placeholder(op.gate)):
        # hypothesis H_del (Hyps.delOK) is not met on this run: the model has no single-qudit
        # gate, the workflow "attempts to remove single-qudit gates" and warns that the gate
        # set may not be universal.  Recorded, not a verdict (DESIGN: C02, H_del).
        ck.bump('hypothesis_unmet', 'H_del')
        bad = []
    if bad:
        kinds = sorted({b.split()[0] for b in bad})
        cls = '+'.join(kinds)
        emit('C02', f"c02-not-executable:{j['kind']}:L{j['level']}:"
             f"{j['model']['gates']}:w{res['inputs'][idx].num_qudits}:{cls}",
             f"compile() output not executable on the model: {bad[:4]}",
             res, idx)
    # is_compatible must agree with the independent check (width <= instead of ==)
    try:
        verdict = bool(model.is_compatible(c))
    except Exception as e:
        verdict = f'raises {type(e).__name__}'
    indep = not three_clauses(model, c, same_width=False)
    if verdict != indep:
        has_ph = any(is_placeholder(g) for g in c.gate_set)
        emit('C02', 'c02-is-compatible-disagrees:'
             + ('placeholders' if has_ph and indep else 'other'),
             f'MachineModel.is_compatible = {verdict} but the independent '
             f'three-clause check (placeholders aside) = {indep}', res, idx)
    # perturbed outputs, on a placeholder-free copy
    base = strip_placeholders(c)
    if not three_clauses(model, base, same_width=False):
        if model.is_compatible(base) is not True:
            emit('C02', 'c02-is-compatible-rejects-good', 'is_compatible '
                 'rejects a circuit that passes the three clauses', res, idx)
        for name, p in placeholder_variants(
                model, base, random.Random(res['job']['rseed'] + idx)):
            ck.bump('c02_perturbations', name)
            try:
                v = model.is_compatible(p)
            except Exception as e:
                v = f'raises {type(e).__name__}'
            if v is not True:
                emit('C02', 'c02-is-compatible-disagrees:placeholders',
                     f'is_compatible = {v} on an executable output to which only '
                     f'a placeholder was added: {name}', res, idx)
        r = model.radixes[0]
        pert = []
        foreign = next((g for g in (G.TGate(), G.HGate(), G.SGate(),
                                    G.XGate(), G.ZGate())
                        if g not in model.gate_set), None) if r == 2 else None
        if foreign is not None:
            p = base.copy()
            p.append_gate(foreign, 0)
            pert.append(('foreign-gate', p))
        edges = edge_set(model)
        unc = next(((a, b) for a, b in it.combinations(
            range(base.num_qudits), 2) if (a, b) not in edges), None)
        mq = next((g for g in model.gate_set if g.num_qudits == 2), None)
        if unc is not None and mq is not None:
            p = base.copy()
            p.append_gate(mq, unc)
            pert.append(('uncoupled-pair', p))
        from bqskit.ir.circuit import Circuit
        other = 3 if r == 2 else 2
        pert.append(('wrong-radix', Circuit(
            base.num_qudits, [other] + list(base.radixes[1:]))))
        if base.num_qudits < 12:
            pert.append(('too-wide', Circuit(
                model.num_qudits + 1, [r] * (model.num_qudits + 1))))
        for name, p in pert:
            ck.bump('c02_perturbations', name)
            try:
                v = model.is_compatible(p)
            except Exception as e:
                v = f'raises {type(e).__name__}'
            if v is not False:
                emit('C02', f'c02-is-compatible-accepts-bad:{name}',
                     f'is_compatible = {v} on an output perturbed by: {name}',
                     res, idx)


def embed_matrix(nphys: int, radix: int, mapping: list[int], nlog: int):
    """Isometry E: logical basis state |x> -> physical basis state with logical qudit q on
    physical qudit mapping[q], all other physical qudits in |0> (qudit 0 most significant)."""
    dl, dp = radix ** nlog, radix ** nphys
    E = np.zeros((dp, dl), dtype=complex)
    for x in range(dl):
        digits = []
        y = x
        for _ in range(nlog):
            digits.append(y % radix)
            y //= radix
        digits.reverse()                  # digits[q] = value of logical qudit q
        phys = [0] * nphys
        for q in range(nlog):
            phys[mapping[q]] = digits[q]
        idx = 0
        for d in phys:
            idx = idx * radix + d
        E[idx, x] = 1
    return E


def hs_dist(A, B) -> float:
    """BQSKit's phase-insensitive distance for isometries with N columns."""
    n = A.shape[1]
    t = abs(np.trace(B.conj().T @ A)) / n
    return math.sqrt(max(0.0, 1 - min(1.0, t) ** 2))


def budget(K: int, ratio: float = 1.0) -> float:
    """Theorem C01_C03_budget: K accepted replacements of cost < eps each; `ratio` =
    dim(physical)/dim(logical) when the comparison is restricted to ancillas in |0>."""
    D = min(1.0, K * math.sqrt(2 * EPS - EPS * EPS))
    c_full = 1 - math.sqrt(1 - D * D)
    c = min(1.0, ratio * c_full)
    return math.sqrt(2 * c - c * c) + 1e-6


def oracle_c01(ck: Check, res: dict, inp, out, K: int, idx: int, emit):
    G = _gates()
    model = res['model']
    j = res['job']
    c, pi, pf = out
    n_in, n_out = inp.num_qudits, c.num_qudits
    radix = inp.radixes[0]
    pi, pf = list(pi), list(pf)
    ok_maps = (len(pi) == n_in and len(pf) == n_in
               and len(set(pi)) == n_in and len(set(pf)) == n_in
               and all(0 <= p < n_out for p in pi + pf))
    if not ok_maps:
        emit('C01', 'c01-mappings-malformed',
             f'initial/final mapping {pi}/{pf} are not injective maps of the '
             f'{n_in} logical qudits into the {n_out} output qudits', res, idx)
        return
    if n_out <= 8:
        U = strip_placeholders(inp).get_unitary().numpy
        V = strip_placeholders(c).get_unitary().numpy
        A = V @ embed_matrix(n_out, radix, pi, n_in)
        B = embed_matrix(n_out, radix, pf, n_in) @ U
        d = hs_dist(A, B)
        bud = budget(K + 2, float(radix ** (n_out - n_in)))
        ck.bump('c01_distance_decades',
                'exact' if d < 1e-7 else f'1e{int(math.floor(math.log10(d)))}')
        # leakage out of the ancilla-|0> subspace is part of the claim
        if d > bud:
            emit('C01', f"c01-semantics:{j['kind']}:L{j['level']}",
                 f'output differs from the input under the reported mappings:'
                 f' distance {d:.3e} > budget {bud:.3e} (K={K} accepted '
                 f'replacements)', res, idx)
        # random logical states and the basis: state-wise check (same budget * sqrt(N))
        nr = np.random.RandomState(res['job']['rseed'] % (2 ** 31) + idx)
        dl = radix ** n_in
        worst = 0.0
        for k in range(min(dl, 8) + 3):
            if k < min(dl, 8):
                psi = np.zeros(dl, dtype=complex)
                psi[k] = 1
            else:
                psi = nr.randn(dl) + 1j * nr.randn(dl)
                psi /= np.linalg.norm(psi)
            a, b = A @ psi, B @ psi
            worst = max(worst, math.sqrt(max(0.0, 1 - abs(np.vdot(b, a)) ** 2)))
        if worst > min(1.0, bud * math.sqrt(dl)) and d <= bud:
            emit('C01', f"c01-semantics-statewise:{j['kind']}:L{j['level']}",
                 f'a logical state is mapped wrongly: {worst:.3e}', res, idx)
    # measurement placeholders reappear on pf[q]
    meas_in = {}
    for op in inp:
        if isinstance(op.gate, G.MeasurementPlaceholder):
            meas_in.update(op.gate.measurements)
    meas_out = {}
    locs_out = set()
    for op in c:
        if isinstance(op.gate, G.MeasurementPlaceholder):
            meas_out.update(op.gate.measurements)
            locs_out |= set(op.location)
    if meas_in or meas_out:
        want = {pf[q]: cb for q, cb in meas_in.items()}
        ck.bump('c01_measured_qudits', None, len(want))
        if want != meas_out or set(want) != locs_out:
            emit('C01', 'c01-measurements-misplaced',
                 f'measurements {meas_in} of the input should reappear as '
                 f'{want} on the physical qudits; output has {meas_out} on '
                 f'{sorted(locs_out)}', res, idx)
        # ... and after every other operation on those qudits
        last = {}
        for cyc, op in c.operations_with_cycles():
            for q in op.location:
                last[q] = op
        for q in locs_out:
            if not isinstance(last[q].gate, G.MeasurementPlaceholder):
                emit('C01', 'c01-measurement-not-last',
                     f'an operation follows the measurement on qudit {q}',
                     res, idx)


def perm_matrix(width: int, radix: int, perm: list[int]):
    from bqskit.qis.permutation import PermutationMatrix
    return PermutationMatrix.from_qudit_location(width, radix, perm).numpy


def oracle_c03(ck: Check, res: dict, inp, out, K: int, idx: int, emit):
    from bqskit.qis.state.state import StateVector
    from bqskit.qis.state.system import StateSystem
    from bqskit.qis.unitary.unitarymatrix import UnitaryMatrix
    j = res['job']
    c, pi, pf = out
    V = strip_placeholders(c).get_unitary()
    n = inp.num_qudits
    radix = inp.radixes[0]
    ident = list(range(n))
    if c.num_qudits != n:
        emit('C03', 'c03-width-changed', f'output has {c.num_qudits} qudits '
             f'for a {n}-qudit target', res, idx)
        return
    bud = (K + 3) * math.sqrt(2 * EPS - EPS * EPS) + 1e-6
    maps_ok = (sorted(pi) == ident and sorted(pf) == ident)
    if not maps_ok:
        emit('C03', 'c03-mappings-malformed:' + (
            'list' if len(res['inputs']) > 1 else 'single'),
            f'with_mapping=True reports initial/final mapping {list(pi)}/{list(pf)} for a '
            f'{n}-qudit target (not permutations of its qudits)', res, idx)
        pi, pf = ident, ident
    if isinstance(inp, UnitaryMatrix):
        d = V.get_distance_from(inp)
        ck.bump('c03_distance_decades',
                'exact' if d < 1e-7 else f'1e{int(math.floor(math.log10(d)))}')
        # the contract that can be observed: V = P(pf)^T . U . P(pi) under the mappings returned
        # with with_mapping=True (identity below level 4) -- evaluated for EVERY output
        A = V.numpy @ embed_matrix(n, radix, list(pi), n)
        B = embed_matrix(n, radix, list(pf), n) @ inp.numpy
        d2 = hs_dist(A, B)
        trivial = list(pi) == ident and list(pf) == ident
        ck.bump('c03_unitary_under_mappings',
                ('identity' if trivial else 'non-identity')
                + ('/ok' if d2 <= bud else '/WRONG'))
        if d2 > bud:
            emit('C03', f"c03-unitary-distance:L{j['level']}:"
                 f"{j['model']['gates']}:w{n}",
                 f'under the mappings reported with with_mapping=True (pi={list(pi)}, '
                 f'pf={list(pf)}) the returned circuit is at distance {d2:.3e} > budget '
                 f'{bud:.3e} from the target (distance to the target itself, no '
                 f'relabelling: {d:.3e}): wrong even under the reported mappings',
                 res, idx)
        elif d > bud:
            emit('C03', f"c03-unitary-permuted:L{j['level']}",
                 f'the returned circuit implements the target only up to '
                 f'the qudit permutations pi={list(pi)}, pf={list(pf)} '
                 f'(distance {d:.3e} to the target itself; correct under the reported '
                 f'mappings)', res, idx)
        return
    tol = 1e-6 + 10 * EPS
    zero = np.zeros(radix ** n, dtype=complex)
    zero[0] = 1
    if isinstance(inp, StateVector):
        got = V.numpy @ zero
        miss = 1 - abs(np.vdot(inp.numpy, got))
        ck.bump('c03_state_miss_decades', 'exact' if miss < 1e-9 else
                f'1e{int(math.floor(math.log10(max(miss, 1e-300))))}')
        if miss > tol:
            emit('C03', f"c03-state-missed:L{j['level']}",
                 f'|<target|V|0>| = {1 - miss:.6f}', res, idx)
        return
    if isinstance(inp, StateSystem):
        worst = 0.0
        phases = []
        for vin in inp:
            vout = inp[vin]
            got = V.numpy @ vin.numpy
            ov = np.vdot(vout.numpy, got)
            phases.append(ov)
            worst = max(worst, 1 - abs(ov))
        if worst > tol:
            emit('C03', f"c03-system-missed:L{j['level']}",
                 f'a listed input state is not mapped to its output state: '
                 f'1-|overlap| = {worst:.3e}', res, idx)


# =========================================================================
# model / implementation correspondence (bqdriver pipeline)
# =========================================================================
def grid_name(job: dict, width: int, names: set[str]) -> str | None:
    """The regenerated workflow of exactly this job's (kind, level, model class,
    max_synthesis_size, error_threshold); the widths of the run are substituted by the driver
    (circuit trees do not depend on the input width; the other kinds' do: exact width)."""
    m = job['model']
    mname = f"{'wide-' if m['n'] > width else ''}{m['shape']}-{m['gates']}"
    if m['gates'] == 'qutrit':
        mname = f"{m['shape']}-qutrit"
    thr = int(job['thr'] is not None)
    cands = [f"{job['kind']}/L{job['level']}/{mname}/w{w}/ms{job['ms']}/thr{thr}"
             for w in ([width] if job['kind'] != 'circuit'
                       else [width, 5, 3, 2, 4, 1])]
    for c in cands:
        if c in names:
            if job['kind'] == 'circuit':
                # the abstract start state only distinguishes widths 1, 2, >= 3
                gw = int(c.split('/')[3][1:])
                if min(gw, 3) != min(width, 3) and not (gw >= 3 and width >= 3):
                    continue
            return c
    return None


def alpha(model, c) -> dict:
    """Abstraction of a real output circuit (the facts `executable` speaks about)."""
    G = _gates()
    native = set(model.gate_set)
    edges = edge_set(model)
    a = {'f2': 0, 'fMany': 0, 'fSQ': 0, 'blocks': 0, 'uncoupled': 0,
         'narrow': int(c.num_qudits != model.num_qudits)}
    for op in c:
        g = op.gate
        if is_placeholder(g):
            continue
        if isinstance(g, G.CircuitGate):
            a['blocks'] = 1
        if g not in native:
            k = 'fSQ' if g.num_qudits == 1 else (
                'f2' if g.num_qudits == 2 else 'fMany')
            a[k] = 1
        if c.num_qudits <= model.num_qudits:
            for x, y in it.combinations(op.location, 2):
                if (x, y) not in edges:
                    a['uncoupled'] = 1
    return a


def compat_line(model, c, placement, ids: dict) -> str:
    """One `compat` request: the model (radixes, gate ids, edges) and the circuit as
    is_compatible reads it -- radixes and the operations in `for op in circuit` order, each as
    `gate-id placeholder k q1 .. qk`."""
    def gid(g):
        if g not in ids:
            ids[g] = len(ids) + 1
        return ids[g]
    mg = ' '.join(str(gid(g)) for g in sorted(model.gate_set,
                                              key=lambda g: g.name))
    me = ' '.join(f'{a} {b}' for a, b in sorted(
        tuple(e) for e in model.coupling_graph))
    ops = ' '.join(
        f"{gid(op.gate)} {int(is_placeholder(op.gate))} {len(op.location)} "
        + ' '.join(map(str, op.location)) for op in c)
    pl = '-' if placement is None else ' '.join(map(str, placement))
    return (f"compat {' '.join(map(str, model.radixes))} | {mg} | {me} | "
            f"{' '.join(map(str, c.radixes))} | {ops} | {pl}")


def placeholder_variants(model, base, rng) -> list:
    """Circuits that differ from `base` only by placeholder operations: a barrier over ALL
    qudits (its location spans every pair, coupled or not), a measurement, a reset."""
    G = _gates()
    out = []
    n = base.num_qudits
    if n >= 2:
        p = base.copy()
        p.append_gate(G.BarrierPlaceholder(n, list(base.radixes)), list(range(n)))
        out.append(('barrier-over-all', p))
    if base.radixes[0] == 2:      # MeasurementPlaceholder is a qubit pseudo-gate
        p = base.copy()
        q = rng.randrange(n)
        p.append_gate(G.MeasurementPlaceholder([('c', 1)], {q: ('c', 0)}), [q])
        out.append(('measurement', p))
    p = base.copy()
    p.append_gate(G.Reset(base.radixes[0]), rng.randrange(n))
    out.append(('reset', p))
    return out


def correspondence(ck: Check, results: list[dict], pid: str, names: set[str],
                   log):
    import asyncio
    from bqskit.compiler.passdata import PassData
    from bqskit.ir.circuit import Circuit
    from bqskit.passes import ApplyPlacement
    from bqskit.passes.measure import ExtractMeasurements, RestoreMeasurements
    G = _gates()
    rng = random.Random(f'corr/{ck.seed}')
    lines: list[str] = []
    expect: list[tuple] = []
    # (1) abstract prediction of the regenerated tree vs the real output
    for res in results:
        if res['out'] is None:
            continue
        j = res['job']
        for idx, (inp, out) in enumerate(zip(res['inputs'], res['out'])):
            name = grid_name(j, inp.num_qudits, names)
            if name is None:
                ck.bump('prediction', 'configuration-not-in-grid')
                continue
            lines.append(f"final {name} {inp.num_qudits} "
                         f"{res['model'].num_qudits} 1 1")
            expect.append(('final', res, idx, alpha(res['model'], out[0])))
    # (2) MachineModel.is_compatible vs its transcription, on outputs, perturbed outputs and
    #     random / malformed placements
    ncompat = 0
    for res in results:
        if res['out'] is None or ncompat > (400 if ck.tier == 'quick' else 4000):
            continue
        model = res['model']
        for idx, out in enumerate(res['out']):
            base = out[0]
            variants = [base, strip_placeholders(base)]
            p = strip_placeholders(base)
            variants += [v for _n, v in placeholder_variants(model, p, rng)]
            many = next((g for g in sorted(model.gate_set, key=lambda g: g.name)
                         if g.num_qudits == 3), None)
            if many is not None and p.num_qudits >= 3:
                # a native three-qudit gate: every PAIR of its location must be coupled
                p4 = p.copy()
                p4.append_gate(many, rng.sample(range(p.num_qudits), 3))
                variants.append(p4)
            if p.radixes[0] == 2:
                p2 = p.copy()
                p2.append_gate(G.TGate(), rng.randrange(p.num_qudits))
                variants.append(p2)
            mq = next((g for g in model.gate_set if g.num_qudits == 2), None)
            if mq is not None and p.num_qudits >= 2:
                p3 = p.copy()
                p3.append_gate(mq, rng.sample(range(p.num_qudits), 2))
                variants.append(p3)
            for v in variants:
                n = v.num_qudits
                pls = [None, list(range(n)),
                       rng.sample(range(model.num_qudits), n)
                       if n <= model.num_qudits else None,
                       list(range(max(0, n - 1))),
                       [model.num_qudits] * n]
                for pl in pls[: (5 if ncompat < 200 else 2)]:
                    ids: dict = {}
                    try:
                        real = str(bool(model.is_compatible(v, pl))).lower()
                    except Exception:
                        real = 'raise'
                    lines.append(compat_line(model, v, pl, ids))
                    expect.append(('compat', res, idx, real, pl))
                    ncompat += 1
    # (3) ApplyPlacement / RestoreMeasurements bookkeeping vs the transcription
    for k in range(40 if ck.tier == 'quick' else 400):
        n = rng.randint(1, 5)
        N = n + rng.randint(0, 3)
        placement = rng.sample(range(N), n)
        fm = rng.sample(range(n), n)
        c = Circuit(n)
        qs = sorted(rng.sample(range(n), rng.randint(1, n)))
        c.append_gate(G.MeasurementPlaceholder(
            [('c', len(qs))], {q: ('c', i) for i, q in enumerate(qs)}), qs)
        d = PassData(c)
        from bqskit.compiler.machine import MachineModel
        d.model = MachineModel(N)
        asyncio.run(ExtractMeasurements().run(c, d))
        d.placement = placement
        d.final_mapping = fm
        asyncio.run(ApplyPlacement().run(c, d))
        got_fm = list(d.final_mapping)
        asyncio.run(RestoreMeasurements().run(c, d))
        got = {}
        for op in c:
            if isinstance(op.gate, G.MeasurementPlaceholder):
                got = {q: cb[1] for q, cb in op.gate.measurements.items()}
        lines.append(f"place {' '.join(map(str, placement))} | "
                     f"{' '.join(map(str, fm))}")
        expect.append(('place', got_fm))
        lines.append(f"restore {' '.join(map(str, got_fm))} | "
                     + ' '.join(f'{q} {i}' for i, q in enumerate(qs)))
        expect.append(('restore', got, qs, placement, fm))
    outs = ck.driver('pipeline', lines)
    if len(outs) != len(lines):
        raise InfraError('bqdriver pipeline: wrong number of answers')
    for line, ans, ex in zip(lines, outs, expect):
        if ex[0] == 'final':
            _t, res, idx, a = ex
            if ans in ('unknown-workflow', 'bad-op'):
                raise InfraError(f'driver: {ans} for {line}')
            pred = dict(kv.split('=') for kv in ans.split())
            ck.bump('prediction', 'compared')
            for flag, v in a.items():
                if v and pred[flag] == '0':
                    ck.bump('prediction', f'unsound:{flag}')
                    if pid == 'C02':
                        ck.violation(
                            f'c02-contract-table-unsound:{flag}',
                            f'the real output has {flag} but the abstract '
                            f'interpreter predicts it impossible for {line}',
                            replay_of(res, idx), found_input=False)
        elif ex[0] == 'compat':
            _t, res, idx, real, pl = ex
            ck.bump('compat_correspondence', f'{real}/{ans}')
            # both generator expressions of is_compatible are consumed in a fixed order
            # (operations in circuit order, qudits in index order): exact agreement, also on
            # whether an IndexError comes before an uncoupled pair / a radix mismatch
            agree = (real == ans)
            if not agree and pid == 'C02':
                ck.violation(
                    f'c02-is-compatible-model-differs:{real}-vs-{ans}',
                    f'MachineModel.is_compatible = {real}, transcription = '
                    f'{ans} on: {line}', {**replay_of(res, idx),
                                          'placement': pl, 'line': line},
                    found_input=False)
        elif ex[0] == 'place':
            want = ' '.join(map(str, ex[1]))
            ck.bump('mapping_correspondence', 'place')
            if ans != want and pid == 'C01':
                ck.violation('c01-apply-placement-model-differs',
                             f'ApplyPlacement final_mapping {want} vs '
                             f'transcription {ans} ({line})', {'line': line},
                             found_input=False)
        else:
            _t, got, qs, placement, fm = ex
            ck.bump('mapping_correspondence', 'restore')
            want = ' '.join(f'{q}-{i}' for q, i in got.items())
            # direct oracle of the stated property: logical q is measured on
            # placement[fm[q]] with its own classical bit
            truth = {placement[fm[q]]: i for i, q in enumerate(qs)}
            if got != truth and pid == 'C01':
                ck.violation(
                    'c01-measurements-misplaced-by-passes',
                    f'Extract/ApplyPlacement/RestoreMeasurements put the '
                    f'measurements of logical {qs} on {got}, expected {truth}',
                    {'placement': placement, 'final_mapping': fm, 'qs': qs},
                    found_input=True)
            if sorted(ans.split()) != sorted(want.split()) and pid == 'C01':
                ck.violation('c01-restore-measurements-model-differs',
                             f'RestoreMeasurements {want} vs transcription '
                             f'{ans} ({line})', {'line': line},
                             found_input=False)
    ck.coverage['driver_lines'] = len(lines)


# =========================================================================
# the check
# =========================================================================
class _Quiet:
    """Stand-in for the Check object while an oracle is only asked for its verdict."""
    def bump(self, *a, **k):
        pass


def answers(res: dict, inp, out, K: int) -> bool:
    """Is `out` a correct answer for `inp` (C01 / C03 oracle silent)?"""
    from bqskit.ir.circuit import Circuit
    hits: list = []

    def emit(prop, sig, what, r, i):
        if not sig.startswith(('c03-unitary-permuted', 'c03-mappings-malformed')):
            hits.append(sig)
    try:
        if isinstance(inp, Circuit):
            oracle_c01(_Quiet(), res, inp, out, K, 0, emit)
        else:
            oracle_c03(_Quiet(), res, inp, out, K, 0, emit)
    except Exception:
        return False
    return not hits


def list_order_oracle(ck: Check, res: dict, emit):
    """compile([x0, x1, ...]) returns one result per input IN ORDER (C03): when result k does
    not answer input k, look for the input it does answer -- a permuted list is reported as such
    (with the permutation), besides what the per-result oracles say."""
    ins, outs = res['inputs'], res['out']
    K = max(res['K'] or [0])
    n = len(ins)
    ck.bump('list_jobs_by_sizes', '-'.join(str(x.num_qudits) for x in ins))
    wrong = [k for k in range(n) if not answers(res, ins[k], outs[k], K)]
    if not wrong:
        return
    src = []
    for k in range(n):
        m = [i for i in range(n) if answers(res, ins[i], outs[k], K)]
        src.append(m[0] if len(m) >= 1 else None)
    if all(x is not None for x in src) and sorted(src) == list(range(n)):
        emit('C03', 'c03-list-order',
             f'compile() of a list of {n} inputs (widths '
             f'{[x.num_qudits for x in ins]}) returns the right results in the wrong '
             f'order: result k answers input {src}[k]', res, wrong[0])
    else:
        emit('C03', 'c03-list-order',
             f'compile() of a list of {n} inputs (widths '
             f'{[x.num_qudits for x in ins]}): results {wrong} do not answer the inputs '
             f'at their positions (result k answers input {src}[k], None = no input)',
             res, wrong[0])


def replay_of(res: dict, idx: int) -> dict:
    j = res['job']
    d = {'job': j, 'input_index': idx, 'workers': res.get('workers')}
    try:
        inp = res['inputs'][idx]
        from bqskit.ir.circuit import Circuit
        if isinstance(inp, Circuit):
            d['input_ops'] = [
                f'{op.gate.name}{tuple(op.location)}'
                f'{[round(p, 6) for p in op.params]}' for op in inp][:80]
        else:
            d['input_repr'] = repr(inp)[:2000]
        if res['out'] is not None:
            c, pi, pf = res['out'][idx]
            d['output_ops'] = [
                f'{op.gate.name}{tuple(op.location)}' for op in c][:120]
            d['pi'], d['pf'] = list(pi), list(pf)
    except Exception:
        pass
    d['how'] = ('inputs = harness.pipeline.build_inputs(job); '
                'bqskit.compile(inputs (the list, or its only element), '
                'harness.pipeline.build_model(job["model"]), '
                'optimization_level=job["level"], max_synthesis_size='
                'job["ms"], error_threshold=job["thr"], seed=job["cseed"], '
                'with_mapping=True)')
    return d


def evaluate(ck: Check, results: list[dict], pid: str, log):
    """All oracles on all results; only the violations of `pid` are reported."""
    from bqskit.ir.circuit import Circuit

    def emit(prop, sig, what, res, idx):
        ck.bump(f'oracle_hits_{prop}', sig.split(':')[0])
        if prop == pid:
            ck.violation(sig, what, replay_of(res, idx), found_input=True)

    ncomp = 0
    lost_jobs: list[str] = []
    timeout_jobs: list[str] = []
    cells: dict[str, int] = {}
    for res in results:
        j = res['job']
        ck.bump('jobs_by_kind', j['kind'])
        ck.bump('jobs_by_level', f"L{j['level']}")
        ck.bump('jobs_by_model',
                f"{j['model']['shape']}/{j['model']['gates']}")
        cell = f"{j['kind']}/L{j['level']}"
        if res['exc'] is not None:
            ck.bump('compile_raised', res['exc'].split(':')[0])
            if res.get('timeout'):
                # not a verdict and not a raise: slower than the tier's alarm on this machine
                timeout_jobs.append(j['tag'])
                continue
            if 'in_process' not in res:
                res['in_process'] = diagnose(res, log, tries=3)
            diag = res.get('in_process')
            if res['exc'].startswith('RUNTIME-LOST') and not diag:
                # not a verdict: the runtime disappeared three times under this job and none
                # of its passes raises when the workflow is re-run in process
                lost_jobs.append(j['tag'])
                continue
            cells[cell] = cells.get(cell, 0) + 1
            w = res['inputs'][0].num_qudits
            if diag:
                etype = diag.split(':')[0]
                m = re.search(r'\[at [^:\]]*:([^\]]*)\]', diag)
                site = m.group(1) if m else '?'
                how = (' (reproduced in process without a runtime'
                       + ('; with the attached runtime the client sees "Server '
                          'connection unexpectedly closed")'
                          if res['exc'].startswith('RUNTIME-LOST') else ')'))
                what = 'a pass raises ' + diag + how
            else:
                etype = res['exc'].split(':')[0]
                site = 'not-reproduced-in-process'
                what = res['exc'][:300]
            if len(res['inputs']) > 1 and not diag:
                # the per-input workflows run fine in process: compile()'s own handling of
                # the sequence raised
                emit('C03', f"c03-list-input-raises:{j['kind']}:{etype}",
                     'compile() of a list of inputs raised: ' + what, res, 0)
            else:
                emit('C03' if j['kind'] != 'circuit' else 'C01',
                     f"compile-raises:{j['kind']}:w{w}:{j['model']['gates']}:"
                     f"L{j['level']}:{etype}:{site}",
                     'compile() fails on a supported input: ' + what, res, 0)
            continue
        cells[cell] = cells.get(cell, 0) + 1
        outs = res['out']
        if len(outs) != len(res['inputs']):
            emit('C03', 'c03-list-length', f'{len(res["inputs"])} inputs, '
                 f'{len(outs)} results', res, 0)
            continue
        mon = res.get('monitor')
        if mon:
            for k in ('foreach_entries', 'blocks', 'discriminating_blocks',
                      'entries_nonidentity_placement'):
                ck.bump('foreach_contract_monitor', k, mon.get(k, 0))
            for v in mon.get('violations', [])[:2]:
                emit('C02', f"c02-foreach-submodel-not-connectivity:L{j['level']}",
                     'ForEachBlockPass handed a block a sub-model that is not the restriction '
                     'of the circuit\'s current connectivity (data.model + data.placement): '
                     + v, res, 0)
        if len(outs) > 1:
            list_order_oracle(ck, res, emit)
        for idx, (inp, out) in enumerate(zip(res['inputs'], outs)):
            ncomp += 1
            K = res['K'][idx] if res['K'] and idx < len(res['K']) else 0
            ck.bump('accepted_replacements_total', None, K)
            ck.count((j['tag'], idx, j['rseed']))
            try:
                oracle_c02(ck, res, out, idx, emit)
                if isinstance(inp, Circuit):
                    oracle_c01(ck, res, inp, out, K, idx, emit)
                else:
                    oracle_c03(ck, res, inp, out, K, idx, emit)
                    # list order: result idx must NOT be (only) another input's answer
            except InfraError:
                raise
            except Exception:
                raise InfraError('oracle crashed on ' + j['tag'] + ':\n'
                                 + traceback.format_exc()[-1500:])
            ck.sample({
                'job': j['tag'], 'kind': j['kind'], 'level': j['level'],
                'model': j['model'], 'input': (
                    f'{inp.num_qudits}-qudit '
                    + (f'circuit, {inp.num_operations} ops'
                       if isinstance(inp, Circuit) else type(inp).__name__)),
                'output_ops': out[0].num_operations, 'pi': list(out[1]),
                'pf': list(out[2]), 'accepted_replacements': K,
                'seconds': round(res['dt'], 1)})
    ck.coverage['compilations'] = ncomp
    ck.coverage['jobs_set_aside_runtime_lost'] = lost_jobs
    ck.coverage['jobs_set_aside_timeout'] = timeout_jobs
    # the (input kind x optimisation level) matrix: every cell executed end to end (returned,
    # or raised and was diagnosed) -- a cell nobody executes is how the level >= 2 state
    # crash fixed by bad39d6 stayed unseen
    ck.coverage['cells_executed'] = dict(sorted(cells.items()))
    missing = [f'{k}/L{l}' for k in ('circuit', 'unitary', 'state', 'system')
               for l in (1, 2, 3, 4) if f'{k}/L{l}' not in cells]
    ck.coverage['cells_not_executed'] = missing
    if missing and not ck.replay_path and not os.environ.get('VERIF_PIPE_LIMIT') \
            and not (lost_jobs or timeout_jobs):
        raise InfraError('the batch leaves (input kind x level) cells unexecuted: '
                         + ', '.join(missing))
    if len(lost_jobs) * 3 > len(results):
        raise InfraError(f'the runtime was lost under {len(lost_jobs)} of '
                         f'{len(results)} jobs: {lost_jobs[:5]}')
    ck.coverage['compile_calls'] = len(results)
    ck.coverage['runtime_workers'] = results[0].get('workers') if results else 0


def stage_stream(ck: Check, pid: str, log):
    """Stage-level stream (harness/pipe_stage.py): the mapping fragments compile() builds, run in
    process on inputs no full compile() of the batch can afford, C01 oracle by state-vector
    simulation under the reported mappings + the coupling clause of C02.  Validates the contract
    of the mapping leaves that `C02_Pipe_sound` assumes (hypothesis `Contracts`)."""
    from harness.pipe_stage import run_stage_stream, stage_cases
    import hashlib as _h
    src = (VERIF / 'harness' / 'pipe_stage.py').read_bytes()
    key = _h.sha256((repo_sha() + f'/{ck.seed}/{ck.tier}/').encode() + src).hexdigest()[:24]
    f = CACHE / f'stage-{key}.pkl'
    CACHE.mkdir(exist_ok=True)
    rs = None
    if f.exists():
        try:
            rs = pickle.loads(f.read_bytes())
        except Exception:
            rs = None
    if rs is None:
        rs = run_stage_stream(ck.seed, ck.tier, log)
        f.write_bytes(pickle.dumps(rs))
        for old in CACHE.glob('stage-*.pkl'):
            if time.time() - old.stat().st_mtime > 6 * 3600:
                old.unlink()
    nbt = 0
    for i, r in enumerate(rs):
        c = r['case']
        ck.count(('stage', i, c['rseed']))
        ck.bump('stage_cases', f"{c['stage']}/{c.get('heur') or ('params' if c.get('params') else 'stock')}/{c['shape']}")
        if r.get('backtracks') and not c.get('heur'):
            ck.bump('stage_backtracking_cases_stock_scores', None, 1)
        ck.bump('stage_two_qudit_gates', None, r['npairs'])
        if r.get('backtracks'):
            nbt += 1
            ck.bump('stage_backtracks_total', None, r['backtracks'])
        replay = {'stage_case': c, 'pairs': r['pairs'],
                  'how': 'harness.pipe_stage.run_stage_case({**stage_case, "pairs": pairs})',
                  'pi': r.get('pi'), 'pf': r.get('pf')}
        tag = f"{c['stage']}:{c.get('heur') or ('params' if c.get('params') else 'stock')}"
        if r['exc'] == 'timeout':
            ck.bump('stage_timeouts', tag)
            continue
        if r['exc']:
            if pid == 'C01':
                ck.violation(f"c01-stage-raises:{tag}:{r['exc'].split(':')[0]}",
                             f"the mapping fragment of compile() ({c['stage']}) raises on a "
                             f"{c['n']}-qubit circuit with {r['npairs']} two-qudit gates on a "
                             f"{c['shape']} of {c['m']}: {r['exc']}", replay, found_input=True)
            continue
        for b in r['bad']:
            sem = b.startswith(('the mapped circuit differs', 'mappings '))
            if sem and pid == 'C01':
                ck.violation(
                    f'c01-stage-semantics:{tag}',
                    f"mapping fragment of compile() ({c['stage']}"
                    + (f", swap heuristic replaced by '{c['heur']}'" if c.get('heur') else '')
                    + (f", GeneralizedSabreRoutingPass({c['params']})" if c.get('params')
                       else '')
                    + f") on a {c['n']}-qubit circuit with {r['npairs']} two-qudit gates, "
                    f"{c['shape']} of {c['m']} qudits, {r.get('backtracks', 0)} backtracking "
                    f"episodes: {b}", replay, found_input=True)
            if not sem and pid == 'C02':
                ck.violation(
                    f'c02-stage-not-executable:{tag}',
                    f"mapping fragment of compile() ({c['stage']}) on a {c['n']}-qubit "
                    f"circuit, {c['shape']} of {c['m']} qudits: {b}", replay,
                    found_input=True)
    ck.coverage['stage_cases_with_backtracking'] = nbt
    ck.coverage['stage_cases_total'] = len(rs)


def probe_qutrit_sq(ck: Check, pid: str):
    """Known finding, observed without a runtime: GeneralSQDecomposition on a qutrit block."""
    import asyncio
    from bqskit.compiler.machine import MachineModel
    from bqskit.compiler.passdata import PassData
    from bqskit.ir.circuit import Circuit
    from bqskit.passes import GeneralSQDecomposition
    G = _gates()
    c = Circuit(1, [3])
    c.append_gate(G.HGate(3), 0)
    d = PassData(c)
    d.model = MachineModel(1, radixes=[3])
    try:
        with warnings.catch_warnings():
            warnings.simplefilter('ignore')
            asyncio.run(GeneralSQDecomposition().run(c, d))
        ok = (c.radixes == (3,))
        raised = None
    except Exception as e:
        ok, raised = False, f'{type(e).__name__}: {e}'
    ck.bump('probe_qutrit_general_sq', 'raises' if raised else 'ok')
    if pid == 'C03' and not ok:
        ck.violation(
            'c03-qutrit-single-qudit-retarget-raises',
            'GeneralSQDecomposition (the single-qudit retarget of every '
            'workflow, reached for qutrit circuits holding a single-qudit '
            f'gate that is not native) raises on a qutrit block: {raised}',
            {'how': 'asyncio.run(GeneralSQDecomposition().run(c, d)) with '
             'c = Circuit(1,[3]) holding HGate(3), d.model = MachineModel(1, '
             'radixes=[3]); end to end: bqskit.compile(Circuit(2,[3,3]) with '
             'CSUM(0,1), H3(0), MachineModel(2, radixes=[3,3])) raises'},
            found_input=True)


def probe_fixed_in_process(ck: Check, pid: str):
    """Regression oracles of two /repo fixes that need no runtime."""
    from bqskit.compiler.machine import MachineModel
    from bqskit.ir.circuit import Circuit
    from bqskit.qis.graph import CouplingGraph
    from bqskit.qis.state.state import StateVector
    G = _gates()
    # 26675ef: placeholders are not gates of the machine
    model = MachineModel(3, CouplingGraph.linear(3),
                         {G.CCXGate(), G.CNOTGate(), G.U3Gate()})
    c = Circuit(3)
    c.append_gate(G.U3Gate(), 0, [0.1, 0.2, 0.3])
    c.append_gate(G.CNOTGate(), (1, 0))
    c.append_gate(G.BarrierPlaceholder(3), (0, 1, 2))
    c.append_gate(G.CNOTGate(), (1, 2))
    c.append_gate(G.Reset(), 1)
    c.append_gate(G.MeasurementPlaceholder([('c', 2)], {0: ('c', 0), 2: ('c', 1)}),
                  (0, 2))
    try:
        v = model.is_compatible(c)
    except Exception as e:
        v = f'raises {type(e).__name__}'
    ck.bump('probe_is_compatible_placeholders', str(v))
    ck.count(('probe', 'is_compatible-placeholders'))
    if pid == 'C02' and v is not True:
        ck.violation(
            'c02-is-compatible-disagrees:placeholders',
            f'MachineModel.is_compatible = {v} for a circuit of native gates on coupled '
            'qudits that also holds a barrier over (0,1,2), a reset and a measurement '
            'on (0,2) of a 3-qubit line',
            {'how': 'MachineModel(3, CouplingGraph.linear(3), {CCX, CNOT, U3})'
             '.is_compatible(U3(0); CNOT(1,0); Barrier(0,1,2); CNOT(1,2); Reset(1); '
             'Measure(0,2))'}, found_input=True)
    c2 = Circuit(3)
    c2.append_gate(G.CCXGate(), (0, 1, 2))     # connected location, (0,2) is not an edge
    v2 = model.is_compatible(c2)
    ck.bump('probe_is_compatible_all_pairs', str(v2))
    if pid == 'C02' and v2 is not False:
        ck.violation(
            'c02-is-compatible-accepts-bad:many-qudit-location',
            'MachineModel.is_compatible accepts CCX(0,1,2) on a 3-qubit line although '
            'qudits 0 and 2 are not coupled', {'how': 'see what'}, found_input=True)
    # ea1f82a: the list test of compile() must not raise on a sequence of circuits
    a, b = Circuit(2), Circuit(2)
    for x in (a, b):
        x.append_gate(G.HGate(), 0)
        x.append_gate(G.CNOTGate(), (0, 1))
    try:
        r = StateVector.is_pure_state([a, b])
    except Exception as e:
        r = f'raises {type(e).__name__}: {e}'
    ck.bump('probe_is_pure_state_on_circuits', str(r)[:40])
    ck.count(('probe', 'is_pure_state-list'))
    if pid == 'C03' and r is not False:
        ck.violation(
            'c03-list-input-raises:circuit:TypeError',
            f'StateVector.is_pure_state([c1, c2]) = {r} for two circuits with equal '
            'operation counts (compile() calls it to recognise a sequence of inputs)',
            {'how': 'StateVector.is_pure_state([Circuit: H(0) CNOT(0,1), same])'},
            found_input=True)


def targeted_search(ck: Check, failing: list[str], log) -> list[dict]:
    """Compile inputs of exactly the configurations whose obligation fails."""
    rng = random.Random(f'search/{ck.seed}')
    jobs = []
    seen = set()
    for line in failing:
        name = line.split()[0]
        kind, lvl, mname, w, ms, thr = name.split('/')
        key = (kind, lvl, mname, w)
        if key in seen or len(jobs) >= 8:
            continue
        seen.add(key)
        from translate.workflows import MODELS
        radix, _gs, shape, extra = MODELS[mname]
        width = int(w[1:])
        gates = mname.split('-', 1)[1] if not mname.startswith('wide-') \
            else mname.split('-', 2)[2]
        gates = {'qutrit': 'qutrit', 'cx-h-t': 'cx-u3'}.get(gates, gates)
        if mname.endswith('qutrit'):
            gates = 'qutrit'
        model = {'n': width + extra, 'shape': shape, 'gates': gates,
                 'radix': radix}
        try:
            build_model(model)
        except Exception:
            continue
        if kind == 'circuit':
            ins = [{'t': 'circuit', 'width': width, 'nops': 8, 'radix': radix,
                    'three': width >= 3 and int(ms[2:]) >= 3,
                    'measure': True, 'barrier': width >= 2,
                    'blocked': width >= 2 and radix == 2}
                   for _ in range(2)]
        elif kind == 'unitary':
            ins = [{'t': 'unitary', 'width': width, 'radix': radix,
                    'style': 'haar'}]
        elif kind == 'state':
            # |1..1> gets through the one-qudit search at levels 2-3 (see jobs_for)
            ins = [{'t': 'state', 'width': width, 'radix': radix,
                    'style': 'one' if int(lvl[1:]) >= 2 else 'random'}]
        else:
            ins = [{'t': 'system', 'width': width, 'radix': radix,
                    'npairs': 1}]
        if width > 2 and kind != 'circuit':
            continue
        if kind == 'state' and width >= 2 and int(lvl[1:]) in (2, 3):
            continue        # minutes per compilation (residual cost floor of state targets)
        jobs.append({'tag': f'search:{name}', 'kind': kind, 'inputs': ins,
                     'model': model, 'level': int(lvl[1:]),
                     'ms': int(ms[2:]), 'thr': None, 'cseed': None,
                     'expect': None, 'rseed': rng.randrange(2 ** 31),
                     'local': bool(os.environ.get('VERIF_PIPE_LOCAL'))})
    if not jobs:
        return []
    log(f'targeted search: {len(jobs)} compile() calls')
    return run_batch(ck, jobs, 4, log)


def malformed_stream(ck: Check, pid: str):
    """compile()'s argument guards against their transcription (translate/workflows.py:
    outside_compile_domain, which decides which configurations are serialised) and against the
    documented error classes.  No runtime: the compiler handed in is a stub that records whether
    compile() got as far as compiling."""
    from bqskit import compile as bq_compile
    from bqskit.compiler.compiler import Compiler
    from bqskit.compiler.machine import MachineModel
    from bqskit.ir.circuit import Circuit
    from bqskit.qis.unitary.unitarymatrix import UnitaryMatrix
    from translate.workflows import outside_compile_domain
    G = _gates()

    class Reached(Exception):
        pass

    stub = object.__new__(Compiler)
    stub.p = None
    stub.conn = None

    def _c(*a, **k):
        raise Reached()
    stub.compile = _c
    stub.submit = _c
    stub.close = lambda: None
    c2 = Circuit(2)
    c2.append_gate(G.CNOTGate(), (0, 1))
    c4 = Circuit(4)
    c4.append_gate(G.CCXGate(), (0, 1, 2))
    c4.append_gate(G.CNOTGate(), (2, 3))
    mixed = Circuit(2, [2, 3])
    q3 = Circuit(2, [3, 3])
    cases = [
        ('ok-circuit', c2, MachineModel(2), {}, 'accept'),
        ('ok-wider', c2, MachineModel(4), {}, 'accept'),
        ('level-0', c2, MachineModel(2), {'optimization_level': 0}, 'ValueError'),
        ('level-5', c2, MachineModel(2), {'optimization_level': 5}, 'ValueError'),
        ('ms-1', c2, MachineModel(2), {'max_synthesis_size': 1}, 'ValueError'),
        ('ms-float', c2, MachineModel(2), {'max_synthesis_size': 2.5}, 'TypeError'),
        ('eps-neg', c2, MachineModel(2), {'synthesis_epsilon': -1e-3}, 'ValueError'),
        ('eps-2', c2, MachineModel(2), {'synthesis_epsilon': 2.0}, 'ValueError'),
        ('thr-2', c2, MachineModel(2), {'error_threshold': 2.0}, 'ValueError'),
        ('sim-small', c2, MachineModel(2),
         {'error_sim_size': 2, 'max_synthesis_size': 3}, 'ValueError'),
        ('seed-str', c2, MachineModel(2), {'seed': 'x'}, 'TypeError'),
        ('mapping-int', c2, MachineModel(2), {'with_mapping': 1}, 'TypeError'),
        ('model-small', c4, MachineModel(3), {}, 'ValueError'),
        ('model-radix', q3, MachineModel(2), {}, 'ValueError'),
        ('mixed-radix', mixed, None, {}, 'ValueError'),
        ('no-entangler', c2, MachineModel(2, gate_set={G.U3Gate()}), {},
         'ValueError'),
        ('native-too-big', c2, MachineModel(2, gate_set={G.CCXGate()}),
         {'max_synthesis_size': 3}, 'ValueError'),
        ('ms-below-native', c4,
         MachineModel(4, gate_set={G.CCXGate(), G.CNOTGate(), G.U3Gate()}),
         {'max_synthesis_size': 2}, 'ValueError'),
        ('gate-over-ms', c4, MachineModel(4), {'max_synthesis_size': 2},
         'ValueError'),
        ('gate-at-ms', c4, MachineModel(4), {'max_synthesis_size': 3}, 'accept'),
        ('unitary-over-ms', UnitaryMatrix.identity(8), MachineModel(3),
         {'max_synthesis_size': 2}, 'ValueError'),
        ('empty-list', [], MachineModel(2), {}, 'ValueError'),
        ('not-an-input', 'circuit', MachineModel(2), {}, 'TypeError'),
        ('model-not-model', c2, 'model', {}, 'TypeError'),
    ]
    for name, inp, model, kw, want in cases:
        try:
            with warnings.catch_warnings():
                warnings.simplefilter('ignore')
                bq_compile(inp, model, compiler=stub, **kw)
            got = 'returned'
        except Reached:
            got = 'accept'
        except TypeError:
            got = 'TypeError'
        except ValueError:
            got = 'ValueError'
        except Exception as e:
            got = 'other:' + type(e).__name__
        ck.bump('malformed_stream', f'{want}/{got}')
        ck.count(('malformed', name))
        if got != want and pid == 'C01':
            ck.violation(f'c01-compile-guard:{name}:{want}-vs-{got}',
                         f'compile() argument check {name}: expected {want}, '
                         f'got {got}', {'case': name, 'kwargs': str(kw)},
                         found_input=False)
        # transcription used by the translator to restrict the grid
        if isinstance(model, MachineModel) and want in ('accept', 'ValueError') \
                and name in ('ok-circuit', 'ok-wider', 'model-small',
                             'no-entangler', 'native-too-big',
                             'ms-below-native', 'gate-at-ms'):
            ms = kw.get('max_synthesis_size', 3)
            mine = 'ValueError' if outside_compile_domain(
                inp.num_qudits, model, ms) else 'accept'
            ck.bump('guard_transcription', f'{got}/{mine}')
            if mine != got and pid == 'C01':
                ck.violation(
                    f'c01-guard-transcription-differs:{name}',
                    f'outside_compile_domain says {mine}, compile() {got}',
                    {'case': name}, found_input=False)


ASSUMPTIONS = [
    'contracts of the leaf passes (Model/Pipeline.lean: post, feEnter/feExit, wrapExit) are '
    'assumed, not proved from the pass implementations; they are the hypothesis `Contracts` of '
    'Pipe_sound and are exercised end to end by the real compile() runs of this check '
    '(C04/C08/C09/C10/C11 own the per-pass proofs)',
    'H_num (Hyps.numOK): every search-based synthesis leaf (QSearch / LEAP / PAS) returns a '
    'circuit within its success threshold -- measured: the end-to-end distance oracle',
    'H_del (Hyps.delOK): for models without single-qudit gates the deletion stage removes '
    'every single-qudit gate -- measured: the gate-set oracle',
    'floating point: distances compared with the budget of C01_C03_budget for the measured '
    'number of accepted replacements plus 1e-6 slack',
    'number of runtime workers (schedules): 1 / 2 / 4 workers across seeds; the runtime '
    'itself is C07\'s',
]


def run_check(ck: Check, pid: str):
    from bqskit.ir.circuit import Circuit  # noqa: F401  import order
    warnings.simplefilter('ignore')
    import logging
    logging.disable(logging.WARNING)
    verbose = bool(os.environ.get('VERIF_VERBOSE'))

    def log(msg):
        if verbose:
            print(f'[{pid} {time.time() - ck.t0:6.0f}s] {msg}', flush=True)

    # 1. translator (B)
    summary = run_translator(ck)
    ck.coverage['regenerated_workflows'] = summary['workflows']
    ck.coverage['workflow_pass_classes'] = len(summary['pass_classes'])
    ck.coverage['workflow_nodes_max'] = summary['nodes_max']
    ck.coverage['generated_sha'] = summary['sha']
    # numeric leaves the translator RAN on dummy targets and that raised (memoised classes)
    ck.coverage['translator_dummy_raises'] = len(summary.get('dummy_raises', []))
    ck.coverage['translator_dummy_runs'] = {
        k: v for k, v in summary.get('dummy_time', {}).items() if k.endswith('/n')}
    log(f"translator: {summary['workflows']} workflows")
    # 2. Lean obligations
    proved = ck.lean_obligations()
    log(f'lean obligations: {"ok" if proved else "FAILED"}')
    ck.assumptions += ASSUMPTIONS
    extra: list[dict] = []
    failing: list[str] = []
    if not proved:
        failing = failing_workflows()
        log(f'{len(failing)} regenerated workflows fail their postcondition')
        extra = targeted_search(ck, failing, log) if failing else []
    # 3. end-to-end batch (A)   (--replay file: only the job of that replay file)
    rjob = None
    if ck.replay_path:
        import json
        try:
            rjob = json.loads(Path(ck.replay_path).read_text())['replay'].get('job')
        except Exception as e:
            raise InfraError(f'cannot read replay file {ck.replay_path}: {e}')
    if rjob:
        log(f"replaying job {rjob['tag']}")
        results = run_batch(ck, [rjob], 4, log)
        for x in results:
            x['workers'] = 4
    else:
        results = get_batch(ck, log)
    # 4. oracles
    evaluate(ck, results + extra, pid, log)
    if pid in ('C01', 'C02') and not ck.replay_path:
        stage_stream(ck, pid, log)
    probe_qutrit_sq(ck, pid)
    probe_fixed_in_process(ck, pid)
    malformed_stream(ck, pid)
    correspondence(ck, results + extra, pid, set(summary['names']), log)
    ck.coverage['rule'] = (
        'one case = one (input, model, level, max_synthesis_size, error_threshold, seed) '
        'compiled by the real bqskit.compile() on a shared real runtime; inputs are seeded '
        'random circuits (gate mix incl. 3-qudit gates, barriers, measurements, pre-blocked '
        'CircuitGates, width 1-6), Haar/structured unitaries, random/basis/GHZ/W states, '
        'state systems, list inputs; distinct = distinct (job, input index, input seed); '
        'every case has a non-empty target, so every case is non-trivial')
    ck.coverage['traces_validated_against_impl'] = ck.coverage.get(
        'compilations', 0)
    if not proved:
        mine = {'C01': 'c01=false', 'C02': 'c02=false', 'C03': 'c03=false'}
        rel = [f for f in failing
               if mine[pid] in f or (pid == 'C02' and 'structural=false' in f)
               or ('noRaise=false' in f and (
                   (pid == 'C01') == f.startswith('circuit/')) and pid != 'C02')]
        found = bool(ck.violations)
        ck.coverage['failing_workflows'] = rel[:20] or failing[:20]
        if failing and not rel:
            # another property's obligation broke the shared build; this property's
            # postcondition still evaluates to true on every regenerated tree
            ck.coverage['shared_build_broken_by_other_property'] = failing[:5]
        elif not found:
            ck.violation(
                f'{pid.lower()}-lean-obligation-fails',
                'a Lean obligation of ' + pid + ' no longer checks on the '
                'regenerated workflow trees: '
                + ('; '.join(rel[:3]) if rel else (ck.proof_failure or '')[-600:]),
                {'failing_workflows': rel[:40] or failing[:40],
                 'build_log_tail': (ck.proof_failure or '')[-1500:],
                 'searched': [r['job']['tag'] for r in extra]},
                found_input=False)
