"""C17 - OpenQASM 2 import/export preserves the program and agrees with Qiskit.

Three-way differential (DESIGN.md section 4, C17):

  lib      every qubit gate of the library that has a QASM spelling, and seeded random
           circuits (blocks, barriers, measurements, resets): circuit.to('qasm') -> decode;
           per-qubit operation order, parameters, unitary (<= 6 qubits) must survive; the Lean
           printer model must print the same text and the Lean reader must read it the same
           way.
  prog     programs generated from the supported subset grammar -> bqskit decode
             vs the reference elaboration of the generated structure (independent oracle),
             vs the Lean model of the reader (correspondence, structure + values to 1e-9),
             vs Qiskit's qasm2 loader (unitary up to bit order and global phase; position
             of measure / reset / barrier per qubit).
  expr     parameter expressions (edge forms and random trees): Lark tree shape, Python
           text, value  -- bqskit vs Lean model vs reference value vs Qiskit.
  known    one targeted family per known defect of the reader (each re-observed defect is
           reported under its own signature; the Lean model must reproduce the defective
           behaviour exactly).
  malformed  programs outside the subset: must be rejected (or ignored as documented),
           model and implementation must agree on accept/reject and on what is read.
  ext      bqskit.ext qiskit translators (thin wrappers around the same code).

Verdicts with found_input=True are always decided by an oracle that does not involve the
Lean model: the reference elaboration (`c17_gen.Ref`), the reference expression value, or
Qiskit.
"""
from __future__ import annotations

import json
import math
import struct
import subprocess
import sys
import warnings
from pathlib import Path

import numpy as np

from harness import c17_gen as gen
from harness.c17_gen import Bad
from harness.common import Check, InfraError, VERIF

TOL = 1e-9


# ------------------------------------------------------------------ canonical forms
def gate_id(g) -> str:
    from bqskit.ir.gates import ControlledGate, DaggerGate, IdentityGate
    if isinstance(g, ControlledGate):
        return f'Controlled[{gate_id(g.gate)},{g.num_controls}]'
    if isinstance(g, DaggerGate):
        return f'Dagger[{gate_id(g.gate)}]'
    if isinstance(g, IdentityGate):
        return f'Identity{g.num_qudits}'
    return type(g).__name__


def impl_ops(circuit):
    from bqskit.ir.gates import (BarrierPlaceholder, CircuitGate,
                                 MeasurementPlaceholder, Reset)
    out = []
    for op in circuit:
        g = op.gate
        loc = tuple(int(q) for q in op.location)
        if isinstance(g, CircuitGate):
            out.append(('B', g.num_qudits, loc, impl_ops(g._circuit)))
        elif isinstance(g, BarrierPlaceholder):
            out.append(('R', loc))
        elif isinstance(g, MeasurementPlaceholder):
            out.append(('M', loc, tuple(sorted(
                (int(k), str(v[0]), int(v[1])) for k, v in g.measurements.items()))))
        elif isinstance(g, Reset):
            out.append(('Z', loc[0]))
        else:
            out.append(('G', gate_id(g), loc, tuple(float(p) for p in op.params)))
    return out


def op_loc(op):
    if op[0] == 'G' or op[0] == 'B':
        return op[2]
    if op[0] == 'Z':
        return (op[1],)
    return op[1]


def canon(ops):
    """ASAP layering: a canonical linearisation of the per-qubit orders."""
    depth = {}
    keyed = []
    for op in ops:
        loc = op_loc(op)
        layer = 1 + max([depth.get(q, 0) for q in loc], default=0)
        for q in loc:
            depth[q] = layer
        if op[0] == 'B':
            op = ('B', op[1], op[2], canon(op[3]))
        keyed.append(((layer, min(loc) if loc else -1), op))
    keyed.sort(key=lambda t: t[0])
    return [op for _, op in keyed]


def ops_diff(a, b, tol=TOL, nonfinite_equal=False):
    """None when the canonical op lists agree (floats to tol), else a short description."""
    if len(a) != len(b):
        return f'op-count {len(a)} vs {len(b)}'
    for x, y in zip(a, b):
        if x[0] != y[0]:
            return f'op-kind {x[0]} vs {y[0]}'
        if x[0] == 'G':
            if x[1] != y[1]:
                return f'gate {x[1]} vs {y[1]}'
            if x[2] != y[2]:
                return f'location {x[2]} vs {y[2]} ({x[1]})'
            if len(x[3]) != len(y[3]):
                return f'param-count {x[1]}'
            for p, q in zip(x[3], y[3]):
                if nonfinite_equal and not (math.isfinite(p) and math.isfinite(q)):
                    if p == q or (math.isnan(p) and math.isnan(q)):
                        continue
                if not (math.isfinite(p) and math.isfinite(q)) or not gen.close(p, q, tol):
                    return f'params {x[1]} {p!r} vs {q!r}'
        elif x[0] == 'B':
            if x[1] != y[1] or x[2] != y[2]:
                return f'block location {x[1:3]} vs {y[1:3]}'
            d = ops_diff(x[3], y[3], tol, nonfinite_equal)
            if d:
                return 'block: ' + d
        elif x != y:
            return f'{x} vs {y}'
    return None


def bits_to_float(s: str) -> float:
    return struct.unpack('<d', struct.pack('<Q', int(s)))[0]


def parse_model(line: str):
    """Decoded circuit printed by `bqdriver qasm` -> (n, cregs, ops) | None for err."""
    if line == 'err':
        return None
    t = line.split()
    assert t[0] == 'ok', line
    pos = [1]

    def nxt():
        pos[0] += 1
        return t[pos[0] - 1]

    def nats():
        k = int(nxt())
        return tuple(int(nxt()) for _ in range(k))

    def op():
        k = nxt()
        if k == 'G':
            gid = nxt()
            loc = nats()
            m = int(nxt())
            return ('G', gid, loc, tuple(bits_to_float(nxt()) for _ in range(m)))
        if k == 'B':
            nxt()
            nv = int(nxt())
            loc = nats()
            nb = int(nxt())
            return ('B', nv, loc, [op() for _ in range(nb)])
        if k == 'R':
            return ('R', nats())
        if k == 'M':
            loc = nats()
            m = int(nxt())
            ms = []
            for _ in range(m):
                key = int(nxt())
                c = nxt()
                ms.append((key, c, int(nxt())))
            return ('M', loc, tuple(sorted(ms)))
        if k == 'Z':
            return ('Z', int(nxt()))
        raise AssertionError(line)
    n = int(nxt())
    nc = int(nxt())
    cregs = []
    for _ in range(nc):
        c = nxt()
        cregs.append((c, int(nxt())))
    no = int(nxt())
    ops = [op() for _ in range(no)]
    assert pos[0] == len(t), line
    return n, cregs, ops


def esc(s: str) -> str:
    return s.replace('\\', '\\\\').replace('\n', '\\n').replace('\t', '\\t')


def unesc(s: str) -> str:
    out = []
    i = 0
    while i < len(s):
        if s[i] == '\\' and i + 1 < len(s):
            out.append({'n': '\n', 't': '\t', '\\': '\\'}[s[i + 1]])
            i += 2
        else:
            out.append(s[i])
            i += 1
    return ''.join(out)


def has_bad_float(ops):
    for op in ops:
        if op[0] == 'G' and not all(math.isfinite(p) and abs(p) < 1e12 for p in op[3]):
            return True
        if op[0] == 'B' and has_bad_float(op[3]):
            return True
    return False


# ------------------------------------------------------------------ unitaries
def phase_dist(A, B):
    n = A.shape[0]
    return 1 - abs(np.trace(A.conj().T @ B)) / n


def bq_unitary(circuit):
    from bqskit.ir.circuit import Circuit
    from bqskit.ir.gates import BarrierPlaceholder, MeasurementPlaceholder, Reset
    c2 = Circuit(circuit.num_qudits)
    for op in circuit:
        if isinstance(op.gate, (BarrierPlaceholder, MeasurementPlaceholder, Reset)):
            continue
        c2.append(op)
    return np.asarray(c2.get_unitary().numpy)


class Qk:
    """Qiskit as the independent reader."""

    def __init__(self):
        import qiskit
        import qiskit.qasm2
        from qiskit.quantum_info import Operator
        self.q = qiskit
        self.Operator = Operator
        self.err = qiskit.qasm2.QASM2ParseError

    def load(self, text):
        # qelib1.inc plus the gates Qiskit's legacy importer knew (swap, crx, cp, sx, ...),
        # each bound to Qiskit's own gate class
        return self.q.qasm2.loads(
            text, custom_instructions=self.q.qasm2.LEGACY_CUSTOM_INSTRUCTIONS)

    def unitary(self, qc):
        n = qc.num_qubits
        q2 = self.q.QuantumCircuit(n)
        for inst in qc.data:
            if inst.operation.name in ('measure', 'reset', 'barrier'):
                continue
            q2.append(inst.operation, [qc.find_bit(b).index for b in inst.qubits])
        U = np.asarray(self.Operator(q2).data)
        t = U.reshape([2] * (2 * n))
        perm = list(range(n - 1, -1, -1)) + [n + i for i in range(n - 1, -1, -1)]
        return t.transpose(perm).reshape(2 ** n, 2 ** n)

    def timeline(self, qc):
        """per qubit: gates counted, measure/reset/barrier named, in program order"""
        tl = {q: [] for q in range(qc.num_qubits)}
        for inst in qc.data:
            qs = [qc.find_bit(b).index for b in inst.qubits]
            nm = inst.operation.name
            if nm == 'measure':
                cb = qc.find_bit(inst.clbits[0])
                reg, idx = cb.registers[0]
                tl[qs[0]].append(('measure', reg.name, idx))
            elif nm == 'reset':
                tl[qs[0]].append(('reset',))
            elif nm == 'barrier':
                for q in qs:
                    tl[q].append(('barrier', tuple(sorted(qs))))
            else:
                for q in qs:
                    if tl[q] and tl[q][-1][0] == 'g':
                        tl[q][-1] = ('g', tl[q][-1][1] + 1)
                    else:
                        tl[q].append(('g', 1))
        return tl


def bq_timeline(n, ops):
    tl = {q: [] for q in range(n)}
    for op in ops:
        if op[0] == 'M':
            for key, c, i in op[2]:
                # the qubit the placeholder SAYS it measures (its `measurements` key)
                tl.setdefault(key, []).append(('measure', c, i))
        elif op[0] == 'Z':
            tl[op[1]].append(('reset',))
        elif op[0] == 'R':
            for q in op[1]:
                tl[q].append(('barrier', tuple(sorted(op[1]))))
        else:
            for q in op_loc(op):
                if tl[q] and tl[q][-1][0] == 'g':
                    tl[q][-1] = ('g', tl[q][-1][1] + 1)
                else:
                    tl[q].append(('g', 1))
    return tl


# ------------------------------------------------------------------ the live gate table
def live_table():
    from bqskit.ir.lang.qasm2.visitor import OPENQASMVisitor
    v = OPENQASMVisitor()
    rows = []
    for key, gd in v.gate_defs.items():
        g = gd.gate
        rows.append({'key': key, 'np': gd.num_params, 'nv': gd.num_vars,
                     'gid': gate_id(g), 'gnp': g.num_params, 'gnq': g.num_qudits})
    return rows


def library_instances():
    """(label, gate) for every gate class of bqskit.ir.gates we can instantiate on qubits."""
    import inspect

    import bqskit.ir.gates as G
    from bqskit.ir.circuit import Circuit
    from bqskit.ir.gate import Gate
    out = []
    for name in sorted(dir(G)):
        cls = getattr(G, name)
        if not (inspect.isclass(cls) and issubclass(cls, Gate)):
            continue
        try:
            sig = inspect.signature(cls.__init__)
            req = [p for p in list(sig.parameters.values())[1:]
                   if p.default is inspect._empty
                   and p.kind in (p.POSITIONAL_ONLY, p.POSITIONAL_OR_KEYWORD)]
            if not req:
                out.append((name, cls()))
        except Exception:
            pass
    X, SX, H = G.XGate(), G.SXGate(), G.HGate()
    sub = Circuit(2)
    sub.append_gate(G.HGate(), 0)
    sub.append_gate(G.CNOTGate(), (0, 1))
    sub.append_gate(G.RZGate(), 1, [0.3])
    extra = [
        ('IdentityGate(1)', lambda: G.IdentityGate(1)),
        ('IdentityGate(2)', lambda: G.IdentityGate(2)),
        ('IdentityGate(3)', lambda: G.IdentityGate(3)),
        ('DiagonalGate(1)', lambda: G.DiagonalGate(1)),
        ('DiagonalGate(2)', lambda: G.DiagonalGate(2)),
        ('MPRYGate(2)', lambda: G.MPRYGate(2)),
        ('MPRZGate(2)', lambda: G.MPRZGate(2)),
        ('MPRZGate(3)', lambda: G.MPRZGate(3)),
        ('ControlledGate(X,1)', lambda: G.ControlledGate(X, 1)),
        ('ControlledGate(X,2)', lambda: G.ControlledGate(X, 2)),
        ('ControlledGate(X,3)', lambda: G.ControlledGate(X, 3)),
        ('ControlledGate(X,4)', lambda: G.ControlledGate(X, 4)),
        ('ControlledGate(U1)', lambda: G.ControlledGate(G.U1Gate())),
        ('ControlledGate(U2)', lambda: G.ControlledGate(G.U2Gate())),
        ('ControlledGate(U3)', lambda: G.ControlledGate(G.U3Gate())),
        ('ControlledGate(Swap)', lambda: G.ControlledGate(G.SwapGate())),
        ('ControlledGate(SX,3)', lambda: G.ControlledGate(SX, 3)),
        ('ControlledGate(H)', lambda: G.ControlledGate(H)),
        ('ControlledGate(RZ)', lambda: G.ControlledGate(G.RZGate())),
        ('DaggerGate(SX)', lambda: G.DaggerGate(SX)),
        ('DaggerGate(T)', lambda: G.DaggerGate(G.TGate())),
        ('DaggerGate(RZ)', lambda: G.DaggerGate(G.RZGate())),
        ('PowerGate(X,2)', lambda: G.PowerGate(X, 2)),
        ('FrozenParameterGate(U3)', lambda: G.FrozenParameterGate(G.U3Gate(), {1: 0.25})),
        ('TaggedGate(X)', lambda: G.TaggedGate(X, 'tag')),
        ('PauliGate(1)', lambda: G.PauliGate(1)),
        ('PauliGate(2)', lambda: G.PauliGate(2)),
        ('PauliZGate(2)', lambda: G.PauliZGate(2)),
        ('VariableUnitaryGate(1)', lambda: G.VariableUnitaryGate(1)),
        ('ConstantUnitaryGate(H)', lambda: G.ConstantUnitaryGate(H.get_unitary())),
        ('PermutationGate(2)', lambda: G.PermutationGate(2, (0, 1))),
        ('CircuitGate(sub)', lambda: G.CircuitGate(sub)),
        ('BarrierPlaceholder(2)', lambda: G.BarrierPlaceholder(2)),
        ('Reset', lambda: G.Reset()),
    ]
    for label, mk in extra:
        try:
            out.append((label, mk()))
        except Exception:
            pass
    return out


# ------------------------------------------------------------------ the check
class Run:
    def __init__(self, ck: Check):
        from bqskit.ir.circuit import Circuit  # noqa: F401 (import order)
        from bqskit.ir.lang.qasm2 import OPENQASM2Language
        self.ck = ck
        self.rng = ck.rng
        self.L = OPENQASM2Language()
        self.table = live_table()
        self.by_key = {r['key']: r for r in self.table}
        # spellings whose declared arities match the gate object (the others are unreadable)
        self.builtins = {r['key']: (r['np'], r['nv']) for r in self.table
                         if r['np'] == r['gnp'] and r['nv'] == r['gnq']}
        self.qk = Qk()
        self.requests = []          # driver lines
        self.pending = []           # (index, callback) evaluated after the driver ran
        # spellings Qiskit's qelib1.inc has too, with the same arities
        self.common = []
        for r in self.table:
            if r['key'] in ('U', 'CX') or r['np'] != r['gnp'] or r['nv'] != r['gnq']:
                continue
            ps = '(' + ','.join(['0.5'] * r['np']) + ')' if r['np'] else ''
            src = ('OPENQASM 2.0;\ninclude "qelib1.inc";\nqreg q[%d];\n%s%s %s;\n'
                   % (r['nv'], r['key'], ps, ','.join(f'q[{i}]' for i in range(r['nv']))))
            try:
                self.qk.load(src)
                self.common.append(r['key'])
            except Exception:
                pass

    # ---- plumbing
    def ask(self, line, cb):
        self.requests.append(line)
        self.pending.append(cb)

    def flush(self):
        lines = [f"def {r['key']} {r['np']} {r['nv']} {r['gid']} {r['gnp']} {r['gnq']}"
                 for r in self.table]
        outs = self.ck.driver('qasm', lines + self.requests)
        if len(outs) != len(lines) + len(self.requests):
            raise InfraError('bqdriver qasm: output length mismatch')
        if any(o != 'ok' for o in outs[:len(lines)]):
            raise InfraError('bqdriver qasm: table not accepted')
        for cb, o in zip(self.pending, outs[len(lines):]):
            cb(o)
        self.requests, self.pending = [], []

    def impl_decode(self, text):
        try:
            with warnings.catch_warnings():
                warnings.simplefilter('ignore')
                c = self.L.decode(text)
            return c, None
        except (RecursionError, KeyboardInterrupt, SystemExit):
            raise
        except BaseException as e:     # every exception (pyo3 panics included) is a rejection
            return None, type(e).__name__

    def ref_expect(self, n, ops):
        """reference ops with spellings replaced by the table's gate identities"""
        out = []
        for op in ops:
            if op[0] == 'G':
                out.append(('G', self.by_key[op[1]]['gid'], op[2], op[3]))
            elif op[0] == 'B':
                out.append(('B', op[1], op[2], self.ref_expect(n, op[3])))
            else:
                out.append(op)
        return out

    # ---- correspondence of one text: implementation vs Lean model
    def correspond(self, stream, text, circuit, exc, extra=None, reported=None):
        """Queues the model's reading of `text`; compares with the implementation's."""
        ck = self.ck
        iops = canon(impl_ops(circuit)) if circuit is not None else None

        def cb(out):
            ck.bump('traces_validated_against_impl')
            m = parse_model(out)
            if m is None and circuit is None:
                return
            why = None
            if m is not None and circuit is None and exc in ('ZeroDivisionError',
                                                             'OverflowError'):
                # Python raises on exact division by zero and on float overflow in `**`;
                # the model's arithmetic is total (inf): outside the model (design_notes)
                ck.bump('arith_exception_skipped')
                return
            if (m is None) != (circuit is None):
                why = ('model rejects, implementation accepts' if m is None
                       else f'model accepts, implementation raises {exc}')
            else:
                n, cregs, mops = m
                if has_bad_float(mops) or has_bad_float(iops):
                    ck.bump('nonfinite_skipped')
                    return
                if n != circuit.num_qudits:
                    why = f'num_qudits {circuit.num_qudits} vs model {n}'
                else:
                    why = ops_diff(iops, canon(mops))
            if why and not (reported and reported()):
                ck.violation(
                    f'C17-correspondence:{stream}',
                    'implementation and Lean model of the OpenQASM reader disagree '
                    f'({why}); no oracle found the input to violate the property '
                    '(correspondence BqVerif.Qasm <-> bqskit/ir/lang/qasm2 no longer '
                    'checks)',
                    {'stream': stream, 'text': text, 'why': why, 'model': out,
                     'impl': repr(iops), 'broken': 'correspondence qasm', **(extra or {})},
                    found_input=False)
        self.ask('decode ' + esc(text), cb)


def fmt_ops(ops):
    return repr(ops)[:1500]


def run(ck: Check):
    import logging
    warnings.simplefilter('ignore')
    logging.getLogger('bqskit').setLevel(logging.ERROR)
    from harness import c17_streams as streams
    tr = subprocess.run(
        [sys.executable, str(VERIF / 'translate' / 'qasm_table.py')],
        stdout=subprocess.PIPE, stderr=subprocess.STDOUT, text=True)
    if tr.returncode != 0:
        raise InfraError('translate/qasm_table.py failed:\n' + tr.stdout[-2000:])
    proved = ck.lean_obligations(allow_fail=True)
    if not proved:
        # the model/driver must build even when a regenerated-table theorem fails
        from harness.common import LEAN, sh
        b = sh(['lake', 'build', 'bqdriver'], cwd=LEAN)
        if b.returncode != 0:
            raise InfraError('lake build bqdriver failed:\n' + b.stdout[-3000:])
    r = Run(ck)
    if ck.replay_path:
        streams.replay(r, json.loads(Path(ck.replay_path).read_text()))
        r.flush()
        return
    streams.run_all(r, proved)
