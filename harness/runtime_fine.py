"""Forced thread interleaving on the REAL Worker: `_process_await` (main thread)
is interrupted by `_handle_result` (incoming thread) right after
`box.dest_addr = task.return_address` - a legal GIL switch point.  The
interleaving is the one of `FineWake.raceSchedule` (Props/C07,
`C07_fine_double_wake_witness`); it is produced with `sys.settrace`, no source
edit."""
from __future__ import annotations

import inspect
import sys
from threading import Lock


def double_wake_replay() -> dict:
    from harness import runtime_sim as rs
    import bqskit.runtime.worker as wmod
    from bqskit.runtime.worker import Worker
    from bqskit.runtime.task import RuntimeTask
    from bqskit.runtime.address import RuntimeAddress
    from bqskit.runtime.result import RuntimeResult
    from bqskit.runtime.message import RuntimeMessage as M

    class Conn:
        def __init__(self):
            self.sent = []

        def send(self, m):
            self.sent.append(m)

    w = object.__new__(Worker)
    w._id = 0
    w._conn = Conn()
    w._tasks = {}
    w._delayed_tasks = []
    w._ready_task_ids = rs.NBQueue()
    w._cancelled_task_ids = set()
    w._active_task = None
    w._running = True
    w._mailboxes = {}
    w._mailbox_counter = 0
    w._cache = {}
    w.most_recent_read_submit = None
    w.read_receipt_mutex = Lock()
    wmod._worker = w
    root = RuntimeTask((_parent, (), {}), RuntimeAddress(-1, 0, 0), 0, tuple())
    w._add_task(root)
    src, start = inspect.getsourcelines(Worker._process_await)
    hits = [i for i, l in enumerate(src)
            if 'task.desired_box_id = future.mailbox_id' in l]
    out = {'line_found': bool(hits)}
    if not hits:
        return out
    target = start + hits[0]      # the line AFTER `box.dest_addr = ...`
    fired = [False]

    def tracer(frame, event, arg):
        if frame.f_code is Worker._process_await.__code__:
            def local(frame, event, arg):
                if event == 'line' and frame.f_lineno == target \
                        and not fired[0]:
                    fired[0] = True
                    # the incoming thread runs here: RESULT for mailbox 0
                    w._handle_result(RuntimeResult(
                        RuntimeAddress(0, 0, 0), 'r0', 1))
                return local
            return local
        return None
    old = sys.gettrace()
    sys.settrace(tracer)
    try:
        w._try_step_next_ready_task()     # body runs to `await f0`, racy await
    finally:
        sys.settrace(old)
    out['fired'] = fired[0]
    out['ready_after_racy_await'] = w._ready_task_ids.qsize()
    try:
        w._try_step_next_ready_task()     # first wake: consumes f0, awaits f1
        out['ready_after_first_wake'] = w._ready_task_ids.qsize()
        w._try_step_next_ready_task()     # stale second wake
    except rs.Block:
        out['blocked'] = True
    errs = [m[1][1] for m in w._conn.sent
            if m[0] == M.ERROR and isinstance(m[1], tuple)]
    out['errors'] = [e[-300:] for e in errs]
    out['assertion_error'] = any('AssertionError' in e for e in errs)
    wmod._worker = None
    for t in list(w._tasks.values()):
        try:
            t.coro.close()
        except Exception:
            pass
    return out


def _child(x):
    return x


async def _parent():
    from bqskit.runtime import get_runtime
    f0 = get_runtime().submit(_child, 1)
    f1 = get_runtime().submit(_child, 2)
    a = await f0
    b = await f1
    return (a, b)
