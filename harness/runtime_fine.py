"""Line-level tie of `Worker._process_await` (main thread) || `Worker._handle_result`
(incoming thread) to the source-line model `lean/BqVerif/Model/FineWake.lean`.

1. `skeleton()` - AST query on the LIVE source: the statements of the two functions
   are exactly the statements the model has one step for, in the same order, and
   every one of them is inside `with self._mailbox_mutex:` (-> `locked`, the code as
   it is since the maintainer's fix) or none of them is (-> the pre-fix variant).

2. `run_schedule(bits)` - the two functions run in two REAL threads on a REAL
   `Worker`; a scheduler parks each thread in front of every model statement
   (`sys.settrace` line events, no source edit) and in front of every acquisition
   of the mutex (the worker's `_mailbox_mutex` is an instrumented lock) and lets
   exactly the thread named by the next schedule bit perform one step.  A thread
   that wants the mutex while the other holds it does not move (its bit is a
   no-op, exactly like in the model) - a blocked thread can therefore never
   deadlock the harness; when the bits are used up the scheduler completes the run
   (incoming thread first when it can move).  Every parked state (mailboxes, task
   flags, ready queue, lock holder) is compared with the model state before the
   same step (`bqdriver runtime`, command `fine`).

3. Oracle, independent of the model: the awaiting task returns exactly once with
   the two delivered values, no ERROR leaves the worker, no thread crashes, the
   task's address is never in the ready queue twice.

Schedules: one shortest schedule per reachable model state (`fine-paths`),
plus the schedule of the repaired finding (`RACE_BITS`).
"""
from __future__ import annotations

import ast
import inspect
import sys
import textwrap
import threading
import time

MAIN, INC = 1, 0

PA_EXPECT = [
    ('pre', "if not isinstance(future, RuntimeFuture)"),
    (0, 'if future.mailbox_id not in self._mailboxes'),
    (1, 'box = self._mailboxes[future.mailbox_id]'),
    (2, 'box.dest_addr = task.return_address'),
    (3, 'task.desired_box_id = future.mailbox_id'),
    (4, 'task.wake_on_next = future._next_flag'),
    (5, 'if box.ready'),
    ('in', 'self._ready_task_ids.put(task.return_address)'),
]
HR_EXPECT = [
    ('pre', 'assert result.return_address.worker_id == self._id'),
    ('pre', 'mailbox_id = result.return_address.mailbox_index'),
    (0, 'if mailbox_id not in self._mailboxes'),
    ('in', 'return'),
    (1, 'box = self._mailboxes[mailbox_id]'),
    (2, 'box.deposit_result(result)'),
    (3, 'if box.has_task_waiting'),
    ('in', 'assert box.dest_addr is not None'),
    (4, 'task = self._tasks[box.dest_addr]'),
    (5, 'if task.wake_on_next or box.ready'),
    (6, 'self._ready_task_ids.put(box.dest_addr)'),
    (7, 'box.dest_addr = None'),
]
MUTEX = 'self._mailbox_mutex'

# the interleaving of the repaired finding (FineWake.raceSchedule, pre-fix
# variant): the incoming thread handles the result of f0 right after
# `box.dest_addr = task.return_address`
RACE_BITS = '111' + '0' * 8 + '111' + '1' + '1' * 6 + '1'


def _flatten(stmts, locked, out):
    """Statements in source order; `with` blocks are entered (their statements
    are marked with the context expression), `if` heads are listed with their
    test only and their bodies follow."""
    for st in stmts:
        if isinstance(st, ast.With):
            ctx = ','.join(ast.unparse(i.context_expr) for i in st.items)
            out.append(('with', ctx, st.lineno, locked))
            _flatten(st.body, ctx, out)
        elif isinstance(st, ast.If):
            out.append(('stmt', 'if ' + ast.unparse(st.test), st.lineno, locked))
            _flatten(st.body, locked, out)
            if st.orelse:
                out.append(('stmt', 'else', st.lineno, locked))
                _flatten(st.orelse, locked, out)
        elif isinstance(st, ast.Raise):
            out.append(('raise', ast.unparse(st), st.lineno, locked))
        elif isinstance(st, ast.Expr) and isinstance(st.value, ast.Constant):
            pass                                   # docstring
        else:
            out.append(('stmt', ast.unparse(st), st.lineno, locked))


def _match(fn, expect):
    src, start = inspect.getsourcelines(fn)
    tree = ast.parse(textwrap.dedent(''.join(src)))
    flat = []
    _flatten(tree.body[0].body, None, flat)
    got = [(k, t, ln, lk) for (k, t, ln, lk) in flat if k != 'with'
           and k != 'raise']
    withs = [(t, ln) for (k, t, ln, lk) in flat if k == 'with']
    problems = []
    lines = {}
    cover = {}
    if len(got) != len(expect) or any(
            g[1] != e[1] for g, e in zip(got, expect)):
        problems.append(
            f'{fn.__name__}: statements {[g[1] for g in got]} are not the '
            f'statements of the model {[e[1] for e in expect]}')
    else:
        for g, e in zip(got, expect):
            if isinstance(e[0], int):
                lines[start + g[2] - 1] = e[0]
                cover[e[0]] = g[3]
    for t, ln in withs:
        if t != MUTEX:
            problems.append(f'{fn.__name__}: unexpected `with {t}`')
    return {'lines': lines, 'cover': cover, 'problems': problems,
            'withs': withs}


def skeleton() -> dict:
    """AST query on the live source (see module docstring)."""
    from bqskit.runtime.worker import Worker
    pa = _match(Worker._process_await, PA_EXPECT)
    hr = _match(Worker._handle_result, HR_EXPECT)
    problems = pa['problems'] + hr['problems']
    cov = list(pa['cover'].values()) + list(hr['cover'].values())
    locked = None
    if not problems:
        if all(c == MUTEX for c in cov):
            locked = True
        elif all(c is None for c in cov):
            locked = False
        else:
            problems.append(
                'the mutex covers only part of the model statements: '
                f'_process_await {pa["cover"]}, _handle_result {hr["cover"]}')
    init_has = '_mailbox_mutex' in inspect.getsource(Worker.__init__)
    if locked and not init_has:
        problems.append('Worker.__init__ does not create _mailbox_mutex')
    return {'ok': not problems, 'locked': locked, 'problems': problems,
            'pa_lines': pa['lines'], 'hr_lines': hr['lines']}


class Abort(BaseException):
    pass


class Sched:
    """Hands the baton to the thread named by the next bit; see module doc."""

    def __init__(self, bits, snapshot, can_loop, deadline_s=30.0):
        self.bits = [int(b) for b in bits]
        self.idx = 0
        self.cv = threading.Condition()
        self.state = {MAIN: 'run', INC: 'run'}
        self.at = {MAIN: None, INC: None}
        self.holder = None
        self.log = []            # (bit, label, snapshot, holder, moved)
        self.abort = None
        self.snapshot = snapshot
        self.can_loop = can_loop
        self.deadline = time.time() + deadline_s
        self.ident = {}

    def me(self):
        return self.ident[threading.get_ident()]

    def can_move(self, t):
        if self.state[t] != 'wait':
            return False
        lab = self.at[t][0]
        if lab == 'acq':
            return self.holder is None
        if lab == 'loop':
            return self.can_loop()
        return True

    def next_bit(self):
        if self.idx < len(self.bits):
            return self.bits[self.idx]
        if self.can_move(INC):
            return INC
        if self.can_move(MAIN):
            return MAIN
        return None

    def checkpoint(self, label):
        me = self.me()
        other = 1 - me
        with self.cv:
            self.at[me] = label
            self.state[me] = 'wait'
            self.cv.notify_all()
            while True:
                if self.abort:
                    raise Abort(self.abort)
                if time.time() > self.deadline:
                    self.abort = 'timeout'
                    self.cv.notify_all()
                    raise Abort('timeout')
                if self.state[other] == 'run':
                    self.cv.wait(0.05)
                    continue
                b = self.next_bit()
                if b is None:
                    self.abort = 'stuck'
                    self.cv.notify_all()
                    raise Abort('stuck')
                if b == me:
                    moved = self.can_move(me)
                    self.log.append((me, label, self.snapshot(), self.holder,
                                     moved))
                    self.idx += 1
                    self.cv.notify_all()
                    if moved:
                        self.state[me] = 'run'
                        if label[0] == 'acq':
                            self.holder = me
                        return
                    continue
                if self.state[other] == 'done':
                    self.log.append((other, ('done',), self.snapshot(),
                                     self.holder, False))
                    self.idx += 1
                    continue
                self.cv.wait(0.05)

    def release(self):
        with self.cv:
            self.holder = None
            self.cv.notify_all()

    def finish(self):
        me = self.me()
        with self.cv:
            self.state[me] = 'done'
            self.cv.notify_all()


class SchedLock:
    """`self._mailbox_mutex` of the worker under test: acquiring is a scheduled
    step; a real lock underneath asserts mutual exclusion."""

    def __init__(self, sched, cur):
        self.sched, self.cur = sched, cur
        self.real = threading.Lock()

    def acquire(self, blocking=True, timeout=-1):
        self.sched.checkpoint(('acq', self.cur.get(self.sched.me())))
        ok = self.real.acquire(False)
        assert ok, 'scheduler granted a held lock'
        return True

    def release(self):
        self.real.release()
        self.sched.release()

    def __enter__(self):
        self.acquire()
        return self

    def __exit__(self, *a):
        self.release()


def run_schedule(bits: str, sk: dict | None = None) -> dict:
    """One scheduler-controlled run on a fresh real Worker."""
    from harness import runtime_sim as rs
    import bqskit.runtime.worker as wmod
    from bqskit.runtime.worker import Worker
    from bqskit.runtime.task import RuntimeTask
    from bqskit.runtime.address import RuntimeAddress
    from bqskit.runtime.result import RuntimeResult
    from bqskit.runtime.message import RuntimeMessage as M
    sk = sk or skeleton()
    out = {'bits_given': bits, 'locked': sk['locked']}

    class Conn:
        def __init__(self):
            self.sent = []

        def send(self, m):
            self.sent.append(m)

    w = object.__new__(Worker)
    w._id = 0
    w._conn = Conn()
    w._tasks = {}
    w._delayed_tasks = []
    w._ready_task_ids = rs.NBQueue()
    w._cancelled_task_ids = set()
    w._active_task = None
    w._running = True
    w._mailboxes = {}
    w._mailbox_counter = 0
    w._cache = {}
    w.most_recent_read_submit = None
    w.read_receipt_mutex = threading.Lock()
    rs.autofill(w, [(Worker, ('__init__',))])
    root_addr = RuntimeAddress(-1, 0, 0)
    root = RuntimeTask((_parent, (), {}), root_addr, 0, tuple())
    boxes = {}

    def sbox(m):
        b = boxes.get(m)
        if b is None:
            b = w._mailboxes.get(m)
        if b is None:
            return '---'
        boxes[m] = b
        return (f'{int(m in w._mailboxes)}{b.num_results}'
                f'{int(b.dest_addr is not None)}')

    def nready():
        return sum(1 for a in list(w._ready_task_ids.queue) if a == root_addr)

    def snapshot():
        d = root.desired_box_id
        return (f'{sbox(0)} {sbox(1)} {"-" if d is None else d} '
                f'{int(root.wake_on_next)} {nready()}')

    sched = Sched(bits, snapshot, lambda: w._ready_task_ids.qsize() > 0)
    cur = {}                       # thread -> mailbox it is working on
    w._mailbox_mutex = SchedLock(sched, cur)
    pa_code = Worker._process_await.__code__
    hr_code = Worker._handle_result.__code__
    pa_lines, hr_lines = sk['pa_lines'], sk['hr_lines']

    def tracer(frame, event, arg):
        code = frame.f_code
        if code is pa_code:
            lines, kind = pa_lines, 'pa'
        elif code is hr_code:
            lines, kind = hr_lines, 'hr'
        else:
            return None
        if kind == 'pa':
            cur[sched.me()] = frame.f_locals['future'].mailbox_id
        else:
            cur[sched.me()] = \
                frame.f_locals['result'].return_address.mailbox_index

        def local(frame, event, arg):
            if event == 'line' and frame.f_lineno in lines:
                sched.checkpoint(
                    (kind, lines[frame.f_lineno], cur[sched.me()]))
            return local
        return local

    crash = {}

    def inc_prog():
        sched.ident[threading.get_ident()] = INC
        sys.settrace(tracer)
        try:
            for m in (0, 1):
                w._handle_result(RuntimeResult(
                    RuntimeAddress(0, m, 0), f'r{m}', 1))
        except Abort:
            pass
        except BaseException as e:      # the incoming thread dies
            crash['inc'] = repr(e)
        finally:
            sys.settrace(None)
            sched.finish()

    def root_msgs():
        res, errs = [], []
        for m in w._conn.sent:
            if m[0] == M.RESULT and m[1].return_address == root_addr:
                res.append(m[1].result)
            elif m[0] == M.ERROR:
                errs.append(m[1][1] if isinstance(m[1], tuple) else str(m[1]))
        return res, errs

    sched.ident[threading.get_ident()] = MAIN
    wmod._worker = w
    w._add_task(root)
    th = threading.Thread(target=inc_prog, daemon=True)
    old = sys.gettrace()
    k = 0
    try:
        sys.settrace(tracer)
        th.start()
        first = True
        while True:
            if not first:
                sched.checkpoint(('loop', k))
            first = False
            w._try_step_next_ready_task()
            k = root.desired_box_id if root.desired_box_id is not None else k
            res, errs = root_msgs()
            if res or errs:
                break
    except Abort as e:
        out['abort'] = str(e)
    except rs.Block:
        out['abort'] = 'main-blocked-unexpectedly'
    finally:
        sys.settrace(old)
        sched.finish()
        th.join(10.0)
        if th.is_alive():
            with sched.cv:
                sched.abort = sched.abort or 'incoming-thread-hung'
                sched.cv.notify_all()
            th.join(5.0)
            out['abort'] = out.get('abort') or 'incoming-thread-hung'
        wmod._worker = None
    res, errs = root_msgs()
    final = snapshot()
    log = sched.log
    out['bits'] = ''.join(str(b) for b, *_ in log)
    out['labels'] = [(b, lab, moved) for b, lab, _, _, moved in log]
    out['snaps'] = [s for _, _, s, _, _ in log] + [final]
    out['holders'] = [h for _, _, _, h, _ in log] + [sched.holder]
    out['blocked_on_lock'] = sum(
        1 for b, lab, _, _, moved in log if lab[0] == 'acq' and not moved)
    out['max_ready'] = max(int(s.split()[-1]) for s in out['snaps'])
    out['results'] = [repr(r) for r in res]
    out['errors'] = [e[-300:] for e in errs]
    out['inc_crash'] = crash.get('inc')
    out['assertion_error'] = any('AssertionError' in e for e in errs)
    ok = (res == [('r0', 'r1')] and not errs and not crash
          and out['max_ready'] <= 1 and 'abort' not in out)
    out['ok'] = ok
    for t in list(w._tasks.values()):
        try:
            t.coro.close()
        except Exception:
            pass
    return out


def expected_pcs(run: dict) -> list:
    """(thread, model pc string or set of admissible ones) per logged step."""
    out = []
    for b, lab, moved in run['labels']:
        if lab[0] == 'acq':
            pc = f'pa0.{lab[1]}' if b == MAIN else f'hr0.{lab[1]}'
        elif lab[0] == 'pa':
            pc = f'pa{lab[1]}.{lab[2]}'
        elif lab[0] == 'hr':
            pc = f'hr{lab[1]}.{lab[2]}'
        elif lab[0] == 'loop':
            pc = f'loop{lab[1]}'
        else:
            pc = ('finished', 'failed') if b == MAIN else ('done', 'crashed')
        out.append((b, pc))
    return out


def compare_with_model(run: dict, model_line: str) -> str | None:
    """Model states (before every step, then the final one) against the parked
    states of the real run.  Returns a description of the first difference."""
    states = model_line.split(' ;; ')
    if len(states) != len(run['snaps']):
        return f'model printed {len(states)} states for {len(run["snaps"])}'
    hold = {None: '-', MAIN: 'M', INC: 'I'}
    for i, st in enumerate(states):
        f = st.split()
        mpc, ipc, lock = f[0], f[1], f[2]
        shared = ' '.join(f[3:8])
        if shared != run['snaps'][i] or lock != hold[run['holders'][i]]:
            return (f'step {i}: model `{st}` vs real `{run["snaps"][i]}` '
                    f'lock {hold[run["holders"][i]]}')
        if i < len(run['labels']):
            b, pc = expected_pcs(run)[i]
            got = mpc if b == MAIN else ipc
            if (got != pc) if isinstance(pc, str) else (got not in pc):
                return (f'step {i}: thread {"main" if b else "incoming"} is '
                        f'at {pc} in the real run, at {got} in the model')
    last = states[-1].split()
    real_end = ('failed' if run['errors'] else 'finished' if run['results']
                else 'open')
    if real_end != 'open' and last[0] != real_end:
        return f'end: real run {real_end}, model {last[0]}'
    return None


def double_wake_replay() -> dict:
    """The schedule of the repaired finding on the live code."""
    r = run_schedule(RACE_BITS)
    return {k: r[k] for k in ('locked', 'bits', 'blocked_on_lock', 'max_ready',
                              'results', 'errors', 'assertion_error', 'ok')
            if k in r} | ({'abort': r['abort']} if 'abort' in r else {})


def _child(x):
    return x


async def _parent():
    from bqskit.runtime import get_runtime
    f0 = get_runtime().submit(_child, 1)
    f1 = get_runtime().submit(_child, 2)
    a = await f0
    b = await f1
    return (a, b)
