"""Shared runner for C04 (program order) and C05 (views): runs the history
batch on the real code (parallel), replays it through `bqdriver circ`, and
classifies every disagreement."""
from __future__ import annotations

import multiprocessing as mp
import re

from harness import circ_sim
from harness.common import Check


def split_reply(s: str):
    parts = s.split(' # ')
    if len(parts) != 3:
        return s, '', {}
    ret, ct, vs = parts
    views = {}
    for tok in vs.split(' '):
        if '=' in tok:
            k, v = tok.split('=', 1)
            views[k] = v
    return ret, ct, views


def ret_matches(impl_ret: str, model_ret: str) -> bool:
    if impl_ret == 'IGN':
        return model_ret.startswith('ok')
    return impl_ret == model_ret


C04_VIEWS = ('iter', 'rev')          # program order observables
C05_VIEWS = ('kahn', 'first', 'last', 'front', 'rear', 'next', 'prev', 'nops',
             'nparams', 'ncycles', 'active', 'coupling', 'depth', 'counts',
             'blocks', 'inv')


def run_batch(ck: Check, n_hist: int, length: int, kinds=None, tag=''):
    """Returns list of per-history results:
    dict(i, lines, impl, model, calls, internal)"""
    base = ck.seed * 7919 + 17
    nproc = min(16, max(1, n_hist // 40))
    chunk = max(1, (n_hist + nproc * 4 - 1) // (nproc * 4))
    jobs = [(base, s, min(chunk, n_hist - s), length, kinds)
            for s in range(0, n_hist, chunk)]
    if nproc > 1:
        with mp.Pool(nproc) as pool:
            res = pool.map(circ_sim.worker, jobs)
    else:
        res = [circ_sim.worker(j) for j in jobs]
    hists = [h for chunk_ in res for h in chunk_]
    all_lines = []
    for i, lines, impl, calls, internal, ubad in hists:
        if lines is None:
            raise RuntimeError(f'harness failure in history {i}: {internal}')
        all_lines += lines
    outs = ck.driver('circ', all_lines)
    if len(outs) != len(all_lines):
        raise RuntimeError('driver output length mismatch')
    pos = 0
    out = []
    for i, lines, impl, calls, internal, ubad in hists:
        out.append(dict(i=i, seed=circ_sim.seed_of(base, i), lines=lines,
                        impl=impl, model=outs[pos:pos + len(lines)],
                        calls=calls, internal=internal, ubad=ubad))
        pos += len(lines)
    return out


def run_exhaustive(ck: Check, maxlen: int):
    """every sequence of menu calls up to `maxlen` on 2 and 3 qubits"""
    import itertools as it
    jobs = []
    total = 0
    for nq in (2, 3):
        m = len(circ_sim.menu(nq))
        seqs = []
        for L in range(1, maxlen + 1):
            if nq == 3 and L == maxlen and maxlen >= 3:
                # 3-qubit menu is larger: full enumeration one step shorter
                continue
            seqs += list(it.product(range(m), repeat=L))
        total += len(seqs)
        chunk = max(1, len(seqs) // 48)
        jobs += [(nq, seqs[i:i + chunk]) for i in range(0, len(seqs), chunk)]
    with mp.Pool(min(16, len(jobs))) as pool:
        res = pool.map(circ_sim.menu_worker, jobs)
    hists = [h for r in res for h in r]
    all_lines = []
    for key, lines, impl, calls, internal, ubad in hists:
        if lines is None:
            raise RuntimeError(f'harness failure in menu history {key}: '
                               f'{internal}')
        all_lines += lines
    outs = ck.driver('circ', all_lines)
    pos = 0
    out = []
    for key, lines, impl, calls, internal, ubad in hists:
        out.append(dict(i=key, seed=str(key), lines=lines, impl=impl,
                        model=outs[pos:pos + len(lines)], calls=calls,
                        internal=internal, ubad=ubad))
        pos += len(lines)
    ck.coverage['exhaustive'] = True
    ck.coverage['exhaustive_space'] = (
        f'all call sequences of length <= {maxlen} over the 2-qubit menu '
        f'({len(circ_sim.menu(2))} calls) and <= {max(1, maxlen - 1) if maxlen >= 3 else maxlen} over the 3-qubit '
        f'menu ({len(circ_sim.menu(3))} calls): {total} histories')
    return out


def classify(ck: Check, hists, which: str):
    """which in {'C04','C05'}: report the first disagreement of each history
    that belongs to this property."""
    for h in hists:
        ncalls = len(h['lines'])
        kinds = [ln.split(' ', 1)[0] for ln in h['lines']]
        ck.count((which, tuple(h['lines'])), nontrivial=ncalls > 3)
        ck.bump('traces_validated_against_impl')
        ck.bump('history_length', str(min(ncalls // 5 * 5, 40)))
        for k in kinds:
            ck.bump('calls_by_kind', k)
        if which == 'C04' and h.get('ubad'):
            ck.violation(
                'unitary-changed:' + h['ubad'][0].split('(')[0],
                f'{h["ubad"][0]}: {h["ubad"][1]} (numeric oracle on the real '
                'circuit)', {'history_seed': h['seed'], 'calls': h['calls'],
                             'lines': h['lines']})
        if h['impl'] and h['impl'][0].startswith('PROBE-FAILED'):
            if which == 'C05':
                ck.violation(
                    'internal-error:probe:' + h['internal'][1].split('(')[0],
                    'reading the circuit through the public API failed on a '
                    'state the API itself reported as occupied: '
                    + h['internal'][1][:300],
                    {'history_seed': h['seed'], 'error': h['internal']})
            continue
        for j, (line, impl, model) in enumerate(
                zip(h['lines'], h['impl'], h['model'])):
            if line.startswith('defblock'):
                continue
            iret, ict, iv = split_reply(impl)
            mret, mct, mv = split_reply(model)
            if iret.startswith('err'):
                ck.bump('error_kinds', iret)
            replay = {'history_seed': h['seed'],
                      'calls': h['calls'][:j + 1],
                      'lines': h['lines'][:j + 1],
                      'impl': impl, 'model': model}
            kind = line.split(' ', 1)[0]
            if iret.startswith('internal'):
                if which == 'C05':
                    ck.violation(
                        f'internal-error:{kind}:{iret.split()[1]}',
                        f'{h["calls"][j]} fails with an internal error: '
                        f'{(h["internal"] or ("", ""))[1][:300]}',
                        {**replay, 'error': h['internal']})
                elif ict != mct and mret != 'bad-op':
                    # C04's own clause: whatever the call did, the circuit no
                    # longer holds what the reference model holds
                    ck.violation(
                        f'program-order:{kind}:state-after-internal-error',
                        f'{h["calls"][j]} failed internally ('
                        f'{iret.split()[1]}) and left the circuit different '
                        'from the reference model (which '
                        + ('performed the call' if mret.startswith('ok')
                           else 'rejected the call and kept its state')
                        + ')', {**replay, 'error': h['internal']})
                break
            if ict == 'VIEW-ERROR':
                ck.violation(
                    (f'view-error:{kind}' if which == 'C05'
                     else f'program-order:{kind}:unreadable'),
                    'the circuit cannot be read back through the public API '
                    'after ' + h['calls'][j] + ': '
                    + (h['internal'] or ('', ''))[1][:300],
                    {**replay, 'error': h['internal']})
                break
            if mret == 'bad-op':
                raise RuntimeError(f'driver rejected line: {line}')
            bad04 = []
            if mret == 'violated inv':      # only Inv fails: C05's clause
                mret = 'ok-rel'
            if not ret_matches(iret, mret):
                bad04.append('return')
            if ict != mct:
                bad04.append('grid')
            for k in C04_VIEWS:
                if iv.get(k) != mv.get(k):
                    bad04.append(k)
            bad05 = [k for k in C05_VIEWS if iv.get(k) != mv.get(k)]
            if mret.startswith('violated') and mret != 'violated inv':
                bad04.append(mret)
            if which == 'C04' and iv.get('inv', 'true') == 'false:cells':
                ck.violation(
                    f'program-order:{kind}:cells-vs-location',
                    f'after {h["calls"][j]} an operation sits in cells that '
                    'are not its location: the circuit does not hold the '
                    'operations of the reference model', replay)
                break
            if which == 'C05' and iv.get('inv', 'true') != 'true':
                ck.violation(
                    f'inv:{iv["inv"].split(":")[-1]}:{kind}',
                    f'after {h["calls"][j]} the circuit violates its '
                    f'documented invariant ({iv["inv"]})', replay)
                break
            if which == 'C05' and iv.get('probes', 'ok') != 'ok':
                ck.violation(
                    f'views-inconsistent:{kind}:' + iv['probes'],
                    f'after {h["calls"][j]} the read accessors '
                    + iv['probes'] + ' do not describe the grid (direct '
                    'oracle computed from the cells)', replay)
                break
            if which == 'C05' and 'probes' in iv:
                ck.bump('accessor_probe_rounds')
            if which == 'C04' and bad04:
                tl_i = circ_sim.timelines_from_text(ict)
                tl_m = circ_sim.timelines_from_text(mct)
                semantic = (tl_i != tl_m or 'return' in bad04
                            or any(b.startswith('violated') for b in bad04))
                if semantic:
                    ck.violation(
                        f'program-order:{kind}:' + ','.join(
                            sorted(set(b.split()[0] for b in bad04))),
                        f'after {h["calls"][j]} the circuit differs from the '
                        'reference model in ' + ','.join(bad04)
                        + ' (per-qudit order / return value / documented '
                        'effect)', replay)
                else:
                    ck.violation(
                        f'layout-correspondence:{kind}',
                        f'after {h["calls"][j]} implementation and model '
                        'disagree only in cycle layout/' + ','.join(bad04)
                        + '; every qudit timeline agrees, so no input '
                        'violating the property was found (correspondence '
                        'BqVerif.Circ <-> circuit.py no longer checks)',
                        {**replay, 'broken': 'correspondence circ'},
                        found_input=False)
                break
            if which == 'C05' and bad05:
                # views differ: is the implementation inconsistent with its
                # own grid (property violated) or is the model off?
                self_incons = views_inconsistent(ict, iv)
                if self_incons:
                    ck.violation(
                        f'views-inconsistent:{kind}:' + ','.join(
                            self_incons),
                        f'after {h["calls"][j]} the views '
                        + ','.join(self_incons)
                        + ' do not describe the grid', replay)
                else:
                    ck.violation(
                        f'views-correspondence:{kind}:' + ','.join(bad05),
                        f'after {h["calls"][j]} views ' + ','.join(bad05)
                        + ' differ between implementation and model but '
                        'agree with the implementation\'s own grid',
                        {**replay, 'broken': 'correspondence circ views'},
                        found_input=False)
                break
            if bad04 or (bad05 and which == 'C05'):
                break   # the other property's business; history is off
            # which == 'C04' and only derived views differ: the grids still
            # agree, so the history continues (a stale view shows up as a
            # program-order difference a few calls later)
        else:
            continue


def views_inconsistent(ct: str, v: dict) -> list[str]:
    """Recompute the derived views from the grid text (independent of the
    Lean model) and list those the implementation reported differently."""
    try:
        rad, body = ct.split(':', 1)
    except ValueError:
        return ['grid']
    n = len(rad.split(','))
    cycles = []
    for cyc in (body.split('/') if body else []):
        ops = []
        for t in (cyc.split('+') if cyc else []):
            g, p, loc, r = t.split(';')
            ops.append((t, int(g), [x for x in p.split(',') if x],
                        [int(x) for x in loc.split(',')]))
        cycles.append(ops)
    bad = []
    nops = sum(len(c) for c in cycles)
    if v.get('nops') != str(nops):
        bad.append('nops')
    if v.get('ncycles') != str(len(cycles)):
        bad.append('ncycles')
    if v.get('nparams') != str(sum(len(o[2]) for c in cycles for o in c)):
        bad.append('nparams')
    active = sorted({q for c in cycles for o in c for q in o[3]})
    if v.get('active') != ','.join(map(str, active)):
        bad.append('active')
    coup = sorted({(min(a, b), max(a, b)) for c in cycles for o in c
                   for a in o[3] for b in o[3] if a != b})
    if v.get('coupling') != ','.join(f'{a}.{b}' for a, b in coup):
        bad.append('coupling')
    counts = {}
    blocks = 0
    for c in cycles:
        for o in c:
            if o[1] >= 1000:
                blocks += 1
            else:
                counts[o[1]] = counts.get(o[1], 0) + 1
    if v.get('counts') != ','.join(f'{g}:{counts[g]}' for g in sorted(counts)):
        bad.append('counts')
    if v.get('blocks') != str(blocks):
        bad.append('blocks')
    first = ['-'] * n
    last = ['-'] * n
    for k, c in enumerate(cycles):
        for o in c:
            for q in o[3]:
                if q < n:
                    if first[q] == '-':
                        first[q] = f'{k}.{o[3][0]}'
                    last[q] = f'{k}.{o[3][0]}'
    if v.get('first') != ','.join(first):
        bad.append('first')
    if v.get('last') != ','.join(last):
        bad.append('last')
    # iteration: every op exactly once, order compatible with each timeline
    it = v.get('iter', '')
    items = [x.split(':', 1) for x in it.split('+')] if it else []
    flat = sorted(f'{k}:{o[0]}' for k, c in enumerate(cycles) for o in c)
    if sorted(f'{a}:{b}' for a, b in items) != flat:
        bad.append('iter')
    else:
        seenq = [-1] * n
        for a, b in items:
            for q in b.split(';')[2].split(','):
                if int(a) <= seenq[int(q)]:
                    bad.append('iter-order')
                seenq[int(q)] = int(a)
    depth = [0] * n
    for k, c in enumerate(cycles):
        for o in c:
            m = max(depth[q] for q in o[3]) + 1
            for q in o[3]:
                depth[q] = m
    if v.get('depth') != str(max(depth) if depth else 0):
        bad.append('depth')
    return sorted(set(bad))


def replay(ck: Check, which: str):
    """./check Cxx --replay replays/Cxx/<hash>.json : re-run that one history
    on the current tree and report what it shows now."""
    import ast
    import json
    body = json.loads(open(ck.replay_path).read())
    seed = body['replay'].get('history_seed')
    alpha = circ_sim.Alphabet()
    if isinstance(seed, str) and seed.startswith("('menu'"):
        _, nq, seq = ast.literal_eval(seed)
        sim = circ_sim.run_menu(alpha, nq, seq)
    elif isinstance(seed, int):
        sim = circ_sim.run_history(alpha, seed, 28)
    else:
        print('replay file has no re-runnable history (proof obligation or '
              'correspondence entry): ' + json.dumps(body['replay'])[:500])
        return
    outs = ck.driver('circ', sim.lines)
    h = dict(i=0, seed=seed, lines=sim.lines, impl=sim.impl, model=outs,
             calls=sim.calls, internal=sim.internal_error,
             ubad=sim.unitary_bad)
    classify(ck, [h], which)
    for c, i, m in zip(sim.calls, sim.impl, outs):
        flag = '  ' if i.split(' # ')[:2] == m.split(' # ')[:2] else '!!'
        print(f'{flag} {c[:110]}')
        if flag == '!!':
            print('     impl :', i[:300])
            print('     model:', m[:300])
            break
    ck.coverage['rule'] = 'replay of one recorded history'
    ck.sample({'calls': sim.calls[:30]})


def run(ck: Check, which: str):
    if ck.replay_path:
        ck.lean_obligations()
        return replay(ck, which)
    proved = ck.lean_obligations()
    thorough = ck.tier == 'thorough'
    n = 40000 if thorough else 2000
    hists = run_batch(ck, n, 28)
    classify(ck, hists, which)
    classify(ck, run_exhaustive(ck, 4 if thorough else 3), which)
    # a few sample histories
    for h in hists[:3]:
        ck.sample({'calls': h['calls'][:12],
                   'final': h['impl'][-1].split(' # ')[1]})
    ck.coverage['rule'] = (
        'seeded random histories of public Circuit editing calls (valid and '
        'malformed arguments, 1-7 qudits, radixes 2/3, arity 1-3, blocks) on '
        'the real Circuit, replayed call by call through the Lean model; a '
        'history is non-trivial when it has more than 3 calls; distinct = '
        'distinct line sequence')
    if not proved:
        ck.violation(
            'proof-obligation', f'Lean obligations of Props/{which} do not '
            'check: ' + (ck.proof_failure or '')[:400],
            {'broken': f'BqVerif.Props.{which}', 'log': ck.proof_failure},
            found_input=False)
