"""In-process streams of the pipeline cluster (strengthening round 3).

Nothing here needs a real runtime (no machine-wide lock):

* `InProcCompiler` -- a `Compiler` whose submit/result/compile execute the workflow in THIS process
  on a synchronous runtime handle (`MonRuntime`).  The REAL `bqskit.compile()` is called with it
  (`compiler=`), so everything compile() itself does -- building one workflow per element of a
  list, submitting, collecting, pairing results with inputs, reading the mappings out of the pass
  data -- is the code under test; only the transport is replaced.
* contract monitor: while a workflow runs in process, `ForEachBlockPass.run` is wrapped (class
  attribute, restored afterwards; /repo is not touched) and the synchronous runtime handle sees
  every `_sub_do_work` batch: the sub-model of every block must be the restriction of the
  circuit's CURRENT connectivity -- edges (i, j) with (placement[i], placement[j]) coupled in
  data.model, computed here from `data.model` and `data.placement` alone -- to the block's
  location, renumbered.  How often that differs from the restriction of the model's own graph is
  recorded (`discriminating`): only those entries can tell the two apart.
* stage-level stream: exactly the mapping fragments compile() builds -- `SetModelPass(model),
  build_sabre_mapping_workflow(), ApplyPlacement()` (levels 1-3), the same with routing from the
  greedy placement only (the routing leaf alone), and `SetModelPass(model),
  build_seqpam_mapping_optimization_workflow(block_size=2)` (level 4) -- on inputs far larger than
  any full compile() of the batch can afford (10-15 qubits, 60-120 two-qudit gates, line / ring /
  star; nested long-range front layers in the style of tests/passes/mapping/test_local_min.py,
  which is how a SABRE router is driven into its backtracking branch).  Oracle: the C01 equation
  on product / basis states by state-vector simulation under the REPORTED mappings, plus the
  coupling clause of C02.  This validates the contract of the mapping leaves that
  `C02_Pipe_sound` assumes (hypothesis `Contracts`).
"""
from __future__ import annotations

import asyncio
import contextlib
import copy
import inspect
import math
import random
import time
import uuid
import warnings

import numpy as np


# =========================================================================
# synchronous runtime handle with the ForEachBlockPass contract monitor
# =========================================================================
class Monitor:
    def __init__(self):
        self.stack: list[dict] = []
        self.entries = 0
        self.blocks = 0
        self.discriminating = 0
        self.nonidentity_placements = 0
        self.bad: list[str] = []

    def summary(self) -> dict:
        return {'foreach_entries': self.entries, 'blocks': self.blocks,
                'discriminating_blocks': self.discriminating,
                'entries_nonidentity_placement': self.nonidentity_placements,
                'violations': list(self.bad)}


def _edges(g) -> set:
    return {frozenset((int(a), int(b))) for a, b in g}


def current_connectivity(model, placement, width: int) -> set:
    """Edges between circuit qudits under the placement, from the model's graph alone."""
    me = _edges(model.coupling_graph)
    pl = list(placement)
    out = set()
    for i in range(min(width, len(pl))):
        for j in range(i + 1, min(width, len(pl))):
            if frozenset((pl[i], pl[j])) in me:
                out.add(frozenset((i, j)))
    return out


class MonRuntime:
    """RuntimeHandle that runs every mapped task in this process, in order, on deep copies of
    the arguments (the real runtime pickles them)."""

    def __init__(self, mon: Monitor | None = None):
        self.mon = mon

    def _check_foreach(self, args):
        mon = self.mon
        if mon is None or not mon.stack:
            return
        fr = mon.stack[-1]
        try:
            datas = args[2]
        except Exception:
            return
        for bd in datas:
            try:
                sn = dict(bd['subnumbering'])
                sub = _edges(bd['model'].coupling_graph)
            except Exception:
                continue
            mon.blocks += 1
            want = {frozenset((sn[a], sn[b])) for a, b in map(tuple, fr['conn'])
                    if a in sn and b in sn}
            naive = {frozenset((sn[a], sn[b])) for a, b in map(tuple, fr['model_edges'])
                     if a in sn and b in sn}
            if want != naive:
                mon.discriminating += 1
            if sub != want and len(mon.bad) < 6:
                mon.bad.append(
                    f"block on circuit qudits {sorted(sn)}: sub-model edges "
                    f"{sorted(tuple(sorted(e)) for e in sub)}, the circuit's current "
                    f"connectivity (placement {fr['placement']}) restricted to the block is "
                    f"{sorted(tuple(sorted(e)) for e in want)}"
                    + (' (= the restriction of the MODEL graph by circuit index)'
                       if sub == naive else ''))

    async def map(self, fn, *args, **kwargs):
        kwargs.pop('log_context', None)
        kwargs.pop('task_name', None)
        if getattr(fn, '__name__', '') == '_sub_do_work':
            self._check_foreach(args)
        out = []
        for a in zip(*args):
            r = fn(*copy.deepcopy(a), **kwargs)
            if inspect.isawaitable(r):
                r = await r
            out.append(r)
        return out

    async def submit(self, fn, *args, **kwargs):
        kwargs.pop('log_context', None)
        kwargs.pop('task_name', None)
        r = fn(*copy.deepcopy(args), **kwargs)
        if inspect.isawaitable(r):
            r = await r
        return r

    def get_cache(self):
        return {}


@contextlib.contextmanager
def monitored(mon: Monitor | None):
    """Install the synchronous runtime handle and the ForEachBlockPass entry monitor."""
    import bqskit.runtime.worker as rw
    from bqskit.passes.control.foreach import ForEachBlockPass
    old_worker = rw._worker
    rw._worker = MonRuntime(mon)
    orig = ForEachBlockPass.run

    async def run(self, circuit, data):
        if mon is None:
            return await orig(self, circuit, data)
        try:
            w = circuit.num_qudits
            pl = list(data.placement)
            fr = {'conn': current_connectivity(data.model, pl, w),
                  'model_edges': {e for e in _edges(data.model.coupling_graph)
                                  if max(e) < w},
                  'placement': pl}
            mon.entries += 1
            if pl[:w] != list(range(w)):
                mon.nonidentity_placements += 1
        except Exception:
            fr = None
        if fr is None:
            return await orig(self, circuit, data)
        mon.stack.append(fr)
        try:
            return await orig(self, circuit, data)
        finally:
            mon.stack.pop()
    ForEachBlockPass.run = run
    try:
        yield
    finally:
        ForEachBlockPass.run = orig
        rw._worker = old_worker


def make_inproc_compiler(mon: Monitor | None, datas: list):
    from bqskit.compiler import Compiler
    from bqskit.compiler.passdata import PassData
    from bqskit.compiler.workflow import Workflow

    class InProcCompiler(Compiler):
        def __init__(self):          # no server, no workers
            self._jobs = {}
            self.p = None
            self.conn = None

        def submit(self, circuit, workflow, request_data=False, *a, **k):
            circuit = copy.deepcopy(circuit)
            workflow = copy.deepcopy(Workflow(workflow))
            data = PassData(circuit)
            with monitored(mon):
                asyncio.run(workflow.run(circuit, data))
            datas.append(data)
            jid = uuid.uuid4()
            self._jobs[jid] = (circuit, data) if request_data else circuit
            return jid

        def result(self, jid):
            return self._jobs.pop(jid)

        def compile(self, circuit, workflow, request_data=False, *a, **k):
            return self.result(self.submit(circuit, workflow, request_data))

        def close(self):
            pass

        def __del__(self):
            pass

    return InProcCompiler()


def compile_in_process(job: dict, ins: list, model, timeout: int = 300) -> dict:
    """The REAL compile() on an in-process compiler; returns the fields of a batch result."""
    from bqskit import compile as bq_compile
    from harness.pipe_rt import alarm
    mon = Monitor()
    datas: list = []
    comp = make_inproc_compiler(mon, datas)
    arg = ins if len(ins) > 1 else ins[0]
    with warnings.catch_warnings(), alarm(timeout):
        warnings.simplefilter('ignore')
        out = bq_compile(arg, model, optimization_level=job['level'],
                         max_synthesis_size=job['ms'], error_threshold=job['thr'],
                         seed=job['cseed'], with_mapping=True, compiler=comp)
    outs = list(out) if len(ins) > 1 else [out]
    # PassData objects in SUBMISSION order; K is only used as a budget, so take the maximum
    return {'out': [(c, tuple(pi), tuple(pf)) for c, pi, pf in outs],
            'datas': datas, 'monitor': mon.summary()}


# =========================================================================
# state-vector simulation (independent of Circuit.get_unitary / get_statevector)
# =========================================================================
def apply_gate(psi: np.ndarray, u: np.ndarray, loc, n: int) -> np.ndarray:
    """psi: tensor of shape [2]*n (qudit 0 = axis 0); u: 2^k x 2^k, first location most significant."""
    k = len(loc)
    t = u.reshape([2] * (2 * k))
    psi = np.tensordot(t, psi, axes=(list(range(k, 2 * k)), list(loc)))
    # result axes: the k output axes first, then the remaining axes in order
    rest = [q for q in range(n) if q not in loc]
    src = list(loc) + rest
    return np.transpose(psi, np.argsort(src))


def simulate(circ, psi: np.ndarray) -> np.ndarray:
    n = circ.num_qudits
    t = psi.reshape([2] * n)
    for op in circ:
        nm = type(op.gate).__name__
        if nm in ('BarrierPlaceholder', 'MeasurementPlaceholder', 'Reset'):
            continue
        t = apply_gate(t, np.asarray(op.get_unitary().numpy), list(op.location), n)
    return t.reshape(-1)


def embed_state(state: np.ndarray, mapping, m: int) -> np.ndarray:
    """Logical qudit q on physical qudit mapping[q] of m, the others in |0>."""
    n = len(mapping)
    full = np.zeros([2] * m, dtype=complex)
    sl = [0] * m
    for q in mapping:
        sl[q] = slice(None)
    order = sorted(range(n), key=lambda l: mapping[l])
    full[tuple(sl)] = state.reshape([2] * n).transpose(order)
    return full.reshape(-1)


def product_state(rng: np.random.RandomState, n: int, basis: bool) -> np.ndarray:
    v = np.ones(1, dtype=complex)
    for _ in range(n):
        if basis:
            q = np.zeros(2, dtype=complex)
            q[rng.randint(2)] = 1
        else:
            q = rng.randn(2) + 1j * rng.randn(2)
            q /= np.linalg.norm(q)
        v = np.kron(v, q)
    return v


# =========================================================================
# stage-level stream
# =========================================================================
def coupling(shape: str, m: int):
    from bqskit.qis.graph import CouplingGraph
    if shape == 'line':
        return CouplingGraph.linear(m)
    if shape == 'ring':
        return CouplingGraph.ring(m)
    if shape == 'star':
        return CouplingGraph.star(m)
    if shape == 'grid':
        return CouplingGraph.grid(2, m // 2)
    raise ValueError(shape)


def nested_pairs(rng: random.Random, n: int) -> list[tuple[int, int]]:
    """Front layer of nested long-range pairs (i, n-1-i) around an inner 'hill' -- the structure
    of tests/passes/mapping/test_local_min.py:looping_circuit, with sampled sizes, then shuffled
    and extended (the router must climb before it can execute anything)."""
    uphill = rng.randint(1, 3)
    outers = (n - 4 - uphill) // 2
    if outers < 2:
        return []
    nq = 2 * outers + 4 + uphill
    off = rng.randint(0, n - nq)
    pairs = [(i, nq - i - 1) for i in range(outers)]
    pairs += [(outers + 1, outers + 2 + uphill), (outers, outers + 1),
              (outers + 2 + uphill, outers + 3 + uphill)]
    pairs = [(a + off, b + off) for a, b in pairs]
    if rng.random() < 0.5:
        pairs = [(n - 1 - a, n - 1 - b) for a, b in pairs]
    if rng.random() < 0.7:
        rng.shuffle(pairs)
    return pairs


def stage_cases(seed: int, tier: str) -> list[dict]:
    rng = random.Random(f'pipe-stage-4/{seed}/{tier}')
    cases = []
    n_sabre = 24 if tier == 'quick' else 400
    for i in range(n_sabre):
        n = rng.randint(10, 14 if tier == 'quick' else 15)
        shape = rng.choice(['line', 'line', 'ring', 'ring', 'star'])
        m = n + rng.choice([0, 0, 0, 1] if tier == 'quick' else [0, 0, 0, 1, 2])
        fam = rng.choice(['random', 'nested', 'nested', 'nested+random'])
        pairs: list[tuple[int, int]] = []
        if fam != 'random':
            pairs = nested_pairs(rng, n)
            extra = rng.randint(0, 16) if fam == 'nested' else rng.randint(60, 110)
        else:
            extra = rng.randint(60, 120)
        for _ in range(extra):
            a, b = rng.sample(range(n), 2)
            pairs.append((a, b))
            if rng.random() < 0.15:              # repeated gate
                pairs.append((a, b))
        if fam == 'nested' and rng.random() < 0.5:
            rng.shuffle(pairs)
        cases.append({'stage': rng.choice(['sabre', 'sabre', 'route']), 'n': n, 'm': m,
                      'shape': shape, 'family': fam, 'pairs': pairs, 'heur': None,
                      'rseed': rng.randrange(2 ** 31), 'barrier': None})
    # the same fragments under an ADVERSARIAL swap heuristic (`_score_swap` replaced on the class
    # for the duration of the case): the contract of the mapping leaves -- same meaning under the
    # reported mappings, every gate on a coupled pair -- does not depend on how good the scores
    # are, and a router that scores badly is the one that reaches the backtracking branch
    # (> 5n speculative swaps without executing a gate) again and again
    n_adv = 16 if tier == 'quick' else 200
    for i in range(n_adv):
        n = rng.randint(5, 12)
        shape = rng.choice(['line', 'ring', 'star', 'line'])
        m = n + rng.choice([0, 0, 1])
        pairs = [tuple(rng.sample(range(n), 2)) for _ in range(rng.randint(6, 30))]
        cases.append({'stage': rng.choice(['sabre', 'route']), 'n': n, 'm': m,
                      'shape': shape, 'family': 'random', 'pairs': pairs,
                      'heur': rng.choice(['worst', 'random', 'mixed']),
                      'rseed': rng.randrange(2 ** 31), 'barrier': None})
    # the routing leaf with SAMPLED constructor parameters and its stock scoring code: a heavy
    # extended-set weight makes the look-ahead dominate the front layer, the router wanders and
    # backtracks in most cases (measured: 16 of 20 with extended_set_weight=10, 9 of 22 with
    # decay_delta=0 / weight 5, none with the defaults)
    n_par = 12 if tier == 'quick' else 150
    for i in range(n_par):
        n = rng.randint(6, 12)
        shape = rng.choice(['line', 'ring', 'star', 'line'])
        m = n + rng.choice([0, 0, 1])
        pairs = [tuple(rng.sample(range(n), 2)) for _ in range(rng.randint(10, 40))]
        params = {'extended_set_weight': rng.choice([3.0, 5.0, 10.0, 10.0, 20.0]),
                  'decay_delta': rng.choice([0.0, 0.001, 0.001]),
                  'decay_reset_on_gate': rng.random() < 0.6,
                  'extended_set_size': rng.choice([5, 20, 20, 50])}
        cases.append({'stage': 'route', 'n': n, 'm': m, 'shape': shape, 'family': 'random',
                      'pairs': pairs, 'heur': None, 'params': params,
                      'rseed': rng.randrange(2 ** 31), 'barrier': None})
    n_pam = 3 if tier == 'quick' else 24
    for i in range(n_pam):
        n = rng.randint(4, 6)
        shape = rng.choice(['line', 'star', 'ring'])
        m = n + rng.choice([0, 0, 1])
        pairs = [tuple(rng.sample(range(n), 2)) for _ in range(rng.randint(6, 12))]
        # a barrier over a proper subset of the qudits, somewhere in the first half
        # ... that leaves the gate right after it alone (ready in the same step as the barrier)
        at = rng.randint(1, max(1, len(pairs) // 2))
        rest = [q for q in range(n) if q not in pairs[at]]
        k = rng.randint(2, len(rest))
        cases.append({'stage': 'seqpam', 'n': n, 'm': m, 'shape': shape, 'family': 'random',
                      'pairs': pairs, 'rseed': rng.randrange(2 ** 31), 'heur': None,
                      'barrier': (at, sorted(rng.sample(rest, k)))})
    return cases


def build_stage_circuit(case: dict):
    from bqskit.ir import gates as G
    from bqskit.ir.circuit import Circuit
    rng = random.Random(case['rseed'])
    c = Circuit(case['n'])
    sq = [G.HGate(), G.TGate(), G.SqrtXGate()]
    for i, (a, b) in enumerate(case['pairs']):
        if case['barrier'] and i == case['barrier'][0]:
            loc = case['barrier'][1]
            c.append_gate(G.BarrierPlaceholder(len(loc)), loc)
        # CZ is symmetric and diagonal: CNOTs and single-qudit gates make a misplaced gate
        # visible on basis states as well
        c.append_gate(G.CZGate() if rng.random() < 0.5 else G.CNOTGate(), (a, b))
        if rng.random() < 0.3:
            c.append_gate(rng.choice(sq), rng.choice((a, b)))
    return c


def run_stage_case(case: dict) -> dict:
    from bqskit.compiler.compile import (build_sabre_mapping_workflow,
                                         build_seqpam_mapping_optimization_workflow)
    from bqskit.compiler.machine import MachineModel
    from bqskit.compiler.passdata import PassData
    from bqskit.compiler.workflow import Workflow
    from bqskit.passes import (ApplyPlacement, GeneralizedSabreRoutingPass,
                               GreedyPlacementPass, SetModelPass)
    from bqskit.passes.mapping.sabre import GeneralizedSabreAlgorithm
    from harness.pipe_rt import JobTimeout, alarm
    circ = build_stage_circuit(case)
    model = MachineModel(case['m'], coupling(case['shape'], case['m']))
    if case['stage'] == 'sabre':
        passes = [SetModelPass(model), build_sabre_mapping_workflow(), ApplyPlacement()]
    elif case['stage'] == 'route':
        passes = [SetModelPass(model), GreedyPlacementPass(),
                  GeneralizedSabreRoutingPass(**(case.get('params') or {})),
                  ApplyPlacement()]
    else:
        passes = [SetModelPass(model),
                  build_seqpam_mapping_optimization_workflow(4, 1e-8, 3, 2)]
    out = circ.copy()
    data = PassData(out)
    # how often the router backtracks out of a local minimum: `_uphill_swaps` is only called
    # from the backtracking branches of forward_pass / backward_pass
    r = {'case': {k: v for k, v in case.items() if k != 'pairs'}, 'npairs': len(case['pairs']),
         'pairs': case['pairs'], 'bad': [], 'exc': None}
    nback = [0]
    orig_uphill = GeneralizedSabreAlgorithm._uphill_swaps

    def counting(self, *a, **k):
        nback[0] += 1
        return orig_uphill(self, *a, **k)
    GeneralizedSabreAlgorithm._uphill_swaps = counting
    orig_score = GeneralizedSabreAlgorithm._score_swap
    if case.get('heur'):
        hr = random.Random(case['rseed'] + 1)
        mode = case['heur']

        def adversarial(self, *a, **k):
            if mode == 'random' or (mode == 'mixed' and hr.random() < 0.5):
                return hr.random()
            return -orig_score(self, *a, **k)        # 'worst': prefer what the heuristic dislikes
        GeneralizedSabreAlgorithm._score_swap = adversarial
    t0 = time.time()
    try:
        mon = Monitor()
        with monitored(mon), warnings.catch_warnings(), alarm(240):
            warnings.simplefilter('ignore')
            asyncio.run(Workflow(passes).run(out, data))
    except JobTimeout:
        r['exc'] = 'timeout'
        return r
    except Exception as e:
        r['exc'] = f'{type(e).__name__}: {e}'[:300]
        return r
    finally:
        GeneralizedSabreAlgorithm._uphill_swaps = orig_uphill
        GeneralizedSabreAlgorithm._score_swap = orig_score
    r['dt'] = round(time.time() - t0, 2)
    r['backtracks'] = nback[0]
    if mon.bad:
        r['bad'].append('foreach-submodel: ' + mon.bad[0])
    n = case['n']
    pi = list(data.get('initial_mapping', list(range(n))))
    pf = list(data.get('final_mapping', list(range(n))))
    r['pi'], r['pf'] = pi, pf
    r['out_ops'] = out.num_operations
    swaps = sum(1 for op in out if type(op.gate).__name__ == 'SwapGate')
    r['swaps'] = swaps
    m = out.num_qudits
    if m != case['m']:
        r['bad'].append(f'width {m} != model width {case["m"]}')
        return r
    if not (len(pi) == n and len(pf) == n and len(set(pi)) == n and len(set(pf)) == n
            and all(0 <= p < m for p in pi + pf)):
        r['bad'].append(f'mappings {pi}/{pf} are not injective maps into {m} qudits')
        return r
    me = _edges(model.coupling_graph)
    for op in out:
        if type(op.gate).__name__ in ('BarrierPlaceholder', 'MeasurementPlaceholder', 'Reset'):
            continue
        if op.num_qudits == 2 and frozenset(op.location) not in me:
            r['bad'].append(f'{op.gate.name}{tuple(op.location)} on an uncoupled pair')
            break
    nr = np.random.RandomState(case['rseed'] % (2 ** 31))
    worst = 0.0
    for k in range(2):
        psi = product_state(nr, n, basis=(k == 0))
        want = embed_state(simulate(circ, psi), pf, m)
        got = simulate(out, embed_state(psi, pi, m))
        worst = max(worst, 1 - abs(np.vdot(want, got)))
    r['worst'] = worst
    tol = 1e-7 if case['stage'] != 'seqpam' else 1e-5
    if worst > tol:
        r['bad'].append(
            f'the mapped circuit differs from the input under the reported mappings '
            f'pi={pi} pf={pf}: 1-|<expected|actual>| = {worst:.3e} on a product state')
    return r


def run_stage_stream(seed: int, tier: str, log=lambda s: None) -> list[dict]:
    out = []
    t0 = time.time()
    for case in stage_cases(seed, tier):
        out.append(run_stage_case(case))
    log(f'stage stream: {len(out)} cases in {time.time() - t0:.0f}s')
    return out
