"""C11 - block-wise and control-flow passes apply bodies exactly as specified.

Tie (A).  A *case* is plain data: an input circuit, an initial PassData, a table
of leaf passes (lists of primitive edits), tables of callables, a pass tree and
the oracles (scripted predicate outcomes, arrival batches of `runtime.next`).
From the same case the harness builds
  * the REAL passes of /repo (IfThenElsePass, WhileLoopPass, DoWhileLoopPass,
    DoThenDecide, ParallelDo, ForEachBlockPass, ClearAllBlockData, Workflow and
    the real predicates) around harness-defined module-level leaves, predicates
    and filters, and runs them (in-process with an in-process runtime handle, and
    a smaller number through a real `Compiler`), and
  * the lines for `bqdriver control` (Lean model `BqVerif.Control.exec`).
Compared: outcome, the trace of executed leaves with the state each saw, the
final circuit and the complete PassData (recursively, block data included).
The model does no numerics: distances asked for by `_sub_do_work` are computed
here by an independent embedding of the gate matrices and fed to the model as
an oracle stream (two driver passes).

Independent oracles (found_input=True) are evaluated on the real code only:
see `oracle_*` below.
"""
from __future__ import annotations

import asyncio
import json
import math
import os
import pickle
import random
import signal
import tempfile
import time
import warnings
from fractions import Fraction

import numpy as np

from bqskit.ir.circuit import Circuit  # noqa: F401  (import order)
from bqskit.compiler.basepass import BasePass
from bqskit.compiler.passdata import PassData
from bqskit.passes.control.predicate import PassPredicate

SCALE = 1024.0
# sqrt(1 - x^2) near x = 1 resolves distances only to about sqrt(eps) ~ 1.5e-8
NOISE = 2e-7

# ----------------------------------------------------------------- process state
G = {'script': None, 'log': None, 'alpha': None, 'seen_u': None}
TRACE_KEY = 'trace'


def alpha():
    if G['alpha'] is None:
        from harness.circ_sim import Alphabet
        G['alpha'] = Alphabet()
    return G['alpha']


# ------------------------------------------------------------ building circuits
def reparam_value(a, b, i):
    """the i-th parameter (scaled integer) of the re-parameterisation (a, b)"""
    return (a * i + b) % 6001 - 3000


def mk_op(spec, gates=None):
    """(gid, params_scaled, loc) | ('B', circspec, loc[, outer_params_scaled])

    A block operation normally carries the parameters frozen inside its
    CircuitGate; with a fourth entry the OPERATION's parameters are those (the
    inner circuit keeps its own: the state of a partitioned circuit that was
    re-parameterised afterwards).  `gates` (a dict) makes equal body specs share
    ONE CircuitGate object, so the same gate object occurs several times with
    different operation parameters."""
    from bqskit.ir.gates import CircuitGate
    from bqskit.ir.operation import Operation
    if spec[0] == 'B':
        key = json.dumps(spec[1], sort_keys=True)
        if gates is not None and key in gates:
            gate = gates[key]
        else:
            gate = CircuitGate(mk_circ(spec[1]))
            if gates is not None:
                gates[key] = gate
        if len(spec) > 3 and spec[3] is not None:
            ps = [p / SCALE for p in spec[3]]
        else:
            ps = list(gate._circuit.params)
        return Operation(gate, list(spec[2]), ps)
    gid, ps, loc = spec
    return Operation(alpha().by_gid[gid], list(loc), [p / SCALE for p in ps])


def apply_reparam(c, step):
    """('all', a, b): Circuit.set_params of the whole vector;
    ('one', i, v): Circuit.set_param of one entry (index modulo the length)"""
    n = c.num_params
    if n == 0:
        return
    if step[0] == 'all':
        c.set_params([reparam_value(step[1], step[2], i) / SCALE
                      for i in range(n)])
    else:
        c.set_param(step[1] % n, step[2] / SCALE)


def mk_circ(cs):
    c = Circuit(len(cs['radixes']), list(cs['radixes']))
    gates = {}
    for how, cyc, ospec in cs['ops']:
        op = mk_op(ospec, gates)
        if how == 'a':
            c.append(op)
        else:
            c.insert(cyc, op)
    # the circuit is re-parameterised from the outside AFTER its blocks were
    # formed: block operations then carry other parameters than the circuits
    # frozen inside their gates
    for step in cs.get('reparam', ()):
        apply_reparam(c, step)
    return c


def mk_target(k, n):
    from bqskit.qis.unitary import UnitaryMatrix
    return UnitaryMatrix(np.roll(np.eye(2 ** n), k % (2 ** n), axis=0))


def mk_model(n, edges, gids, radixes):
    from bqskit.compiler.machine import MachineModel
    from bqskit.compiler.gateset import GateSet
    return MachineModel(n, [tuple(e) for e in edges],
                        GateSet({alpha().by_gid[g] for g in gids}),
                        list(radixes))


def mk_val(v):
    if isinstance(v, dict):
        return {int(k): mk_val(x) for k, x in v.items()}
    if isinstance(v, (list, tuple)):
        return [mk_val(x) for x in v]
    return v


# --------------------------------------------------------------- canonical view
class TargetU:
    def __init__(self, m):
        self.m = np.asarray(m)


def x_op(op):
    from bqskit.ir.gates import CircuitGate
    loc = ','.join(map(str, op.location))
    rad = ','.join(map(str, op.radixes))
    if isinstance(op.gate, CircuitGate):
        body = op.gate._circuit.copy()
        body.set_params(op.params)
        return f'B[{x_circ(body)}];{loc};{rad}'
    ps = ','.join(str(int(round(float(p) * SCALE))) for p in op.params)
    return f'{alpha().gid(op.gate)};{ps};{loc};{rad}'


def x_circ(c):
    """expanded text of a real circuit (cells read one by one)"""
    cyc = []
    for k in range(c.num_cycles):
        seen = {}
        for q in range(c.num_qudits):
            if not c.is_point_idle((k, q)):
                op = c[k, q]
                seen.setdefault(id(op), op)
        ops = sorted(seen.values(), key=lambda o: min(o.location))
        cyc.append('+'.join(x_op(o) for o in ops))
    return ','.join(map(str, c.radixes)) + ':' + '/'.join(cyc)


def se_ints(name, l):
    return [name] + [str(int(x)) for x in l]


def se_val(v):
    from bqskit.ir.point import CircuitPoint  # noqa: F401
    if v is None:
        return 'none'
    if isinstance(v, (bool, np.bool_)):
        return ['i', str(int(v))]
    if isinstance(v, (int, np.integer)):
        return ['i', str(int(v))]
    if isinstance(v, (float, np.floating)):
        return ['q', float(v)]
    if isinstance(v, str):
        return ['s', v] if v else ['s']
    if isinstance(v, Circuit):
        return ['c', x_circ(v)]
    if isinstance(v, PassData):
        return se_pdata_val(v)
    if isinstance(v, dict):
        return ['d'] + [[str(int(k)), se_val(x)] for k, x in sorted(v.items())]
    if isinstance(v, (list, tuple)):
        return ['l'] + [se_val(x) for x in v]
    return ['s', 'unrenderable:' + type(v).__name__]


def model_parts(m):
    edges = sorted(tuple(sorted(e)) for e in m.coupling_graph)
    gids = sorted(alpha().gid(g) for g in m.gate_set)
    return (m.num_qudits, m.coupling_graph.num_qudits), edges, gids, list(m.radixes)


def real_target(d):
    t = d._target
    if isinstance(t, Circuit):
        t = t.get_unitary()
    return TargetU(t.numpy) if hasattr(t, 'numpy') else TargetU(np.zeros(1))


def se_pdata_val(d):
    """a PassData stored as a value (the model's encPData)"""
    n, edges, gids, rad = model_parts(d.model)
    return ['l', ['s', 'passdata'], real_target(d), ['q', float(d.error)],
            ['l', ['i', str(n[0])], ['i', str(n[1])],
             ['l'] + [['l', ['i', str(a)], ['i', str(b)]] for a, b in edges],
             ['l'] + [['i', str(g)] for g in gids],
             ['l'] + [['i', str(r)] for r in rad]],
            ['l'] + [['i', str(x)] for x in d.placement],
            ['l'] + [['i', str(x)] for x in d.initial_mapping],
            ['l'] + [['i', str(x)] for x in d.final_mapping],
            'none' if d.seed is None else ['i', str(d.seed)],
            ['l'] + [['l', ['s', k], user_val(k, d._data[k])]
                     for k in sorted(d._data)]]


def user_val(k, v):
    if k == 'ChangePredicate_circuit_hash':
        return ['s', 'hash']
    return se_val(v)


def se_pdata(d):
    n, edges, gids, rad = model_parts(d.model)
    return ['pd', real_target(d), ['error', float(d.error)],
            ['model', str(n[0]), str(n[1]), ['e'] + [f'{a}-{b}' for a, b in edges],
             se_ints('g', gids), se_ints('r', rad)],
            se_ints('placement', d.placement),
            se_ints('imap', d.initial_mapping),
            se_ints('fmap', d.final_mapping),
            ['seed', 'none' if d.seed is None else str(d.seed)],
            ['data'] + [[k, user_val(k, d._data[k])] for k in sorted(d._data)]]


def se_state(c, d):
    return ['st', x_circ(c), se_pdata(d)]


# ---- S-expression text
def se_parse(s):
    toks = s.replace('(', ' ( ').replace(')', ' ) ').split()
    pos = 0

    def rec():
        nonlocal pos
        out = []
        while pos < len(toks):
            t = toks[pos]
            pos += 1
            if t == '(':
                out.append(rec())
            elif t == ')':
                return out
            else:
                out.append(t)
        return out
    return rec()


def se_text(e):
    if isinstance(e, list):
        return '(' + ' '.join(se_text(x) for x in e) + ')'
    if isinstance(e, float):
        f = Fraction(e).limit_denominator(10 ** 15)
        return f'{f.numerator}/{f.denominator}'
    return str(e)


# ---- own numerics (independent of bqskit's simulator; gate matrices only)
def split_top(s, sep):
    out, depth, cur = [], 0, []
    for ch in s:
        if ch == '[':
            depth += 1
        elif ch == ']':
            depth -= 1
        if ch == sep and depth == 0:
            out.append(''.join(cur))
            cur = []
        else:
            cur.append(ch)
    out.append(''.join(cur))
    return out


def embed(M, loc, radixes):
    n = len(radixes)
    N = int(np.prod(radixes))
    k = len(loc)
    T = np.asarray(M).reshape([radixes[q] for q in loc] * 2)
    I = np.eye(N, dtype=complex).reshape(list(radixes) + [N])
    R = np.tensordot(T, I, axes=(list(range(k, 2 * k)), list(loc)))
    R = np.moveaxis(R, list(range(k)), list(loc))
    assert R.ndim == n + 1
    return R.reshape(N, N)


def unitary_x(text):
    """unitary of a circuit given in expanded text"""
    rad, body = text.split(':', 1)
    radixes = [int(r) for r in rad.split(',')]
    N = int(np.prod(radixes))
    U = np.eye(N, dtype=complex)
    if body == '':
        return U
    for cy in split_top(body, '/'):
        for ot in split_top(cy, '+'):
            f = split_top(ot, ';')
            if f[0].startswith('B['):
                M = unitary_x(f[0][2:-1])
                loc = [int(x) for x in f[1].split(',')]
            else:
                gate = alpha().by_gid[int(f[0])]
                ps = [int(x) / SCALE for x in f[1].split(',')] if f[1] else []
                M = gate.get_unitary(ps).numpy
                loc = [int(x) for x in f[2].split(',')]
            U = embed(M, loc, radixes) @ U
    return U


def hs_distance(A, B):
    N = A.shape[0]
    t = abs(np.trace(A.conj().T @ B)) / N
    return math.sqrt(max(0.0, 1.0 - t * t))


# ---- comparison of a model S-expression with the real canonical view
def resolve_target(m):
    """model forms (target circ X) / (target named k n) / (l (s circ) (c X)) /
    (l (s named) (i k) (i n)) -> matrix"""
    if m[0] == 'target':
        if m[1] == 'circ':
            return unitary_x(m[2])
        return mk_target(int(m[2]), int(m[3])).numpy
    if m[1] == ['s', 'circ']:
        return unitary_x(m[2][1])
    return mk_target(int(m[2][1]), int(m[3][1])).numpy


def se_diff(m, r, path=''):
    """None when equal, else a short description of the first difference"""
    if isinstance(r, TargetU):
        try:
            M = resolve_target(m)
        except Exception as e:  # malformed
            return f'{path}: target unresolvable {e!r}'
        if M.shape != r.m.shape or not np.allclose(M, r.m, atol=1e-8):
            return f'{path}: target differs'
        return None
    if isinstance(r, float):
        try:
            x = float(Fraction(m))
        except Exception:
            return f'{path}: number expected, model has {m!r}'
        return None if abs(x - r) <= 1e-9 else f'{path}: {x} != {r}'
    if isinstance(r, list):
        if not isinstance(m, list):
            return f'{path}: model atom {m!r} vs real list'
        if len(m) == 2 and m[0] == 'ChangePredicate_circuit_hash':
            m = [m[0], ['s', 'hash']]
        if (len(m) == 3 and m[0] == 'l'
                and m[1] == ['s', 'ChangePredicate_circuit_hash']):
            m = ['l', m[1], ['s', 'hash']]
        if len(m) != len(r):
            return f'{path}: lengths {len(m)} != {len(r)}: {se_text(m)[:200]} vs {se_text(r)[:200]}'
        for i, (a, b) in enumerate(zip(m, r)):
            tag = m[0] if isinstance(m[0], str) else ''
            d = se_diff(a, b, f'{path}/{tag}[{i}]')
            if d:
                return d
        return None
    if isinstance(m, list):
        return f'{path}: model list vs real atom {r!r}'
    return None if m == r else f'{path}: {m!r} != {r!r}'


# --------------------------------------------------------------------- leaves
def log_event(lid, circuit, data, tag=None):
    f = os.environ.get('C11_LOGFILE')
    if f and G['log'] is None:
        pt = data._data.get('point')
        rec = {'leaf': lid, 'tag': tag,
               'point': None if pt is None else [int(pt[0]), int(pt[1])],
               'nops': circuit.num_operations, 'pid': os.getpid()}
        fd = os.open(f, os.O_WRONLY | os.O_APPEND | os.O_CREAT)
        os.write(fd, (json.dumps(rec) + '\n').encode())
        os.close(fd)
    elif G['log'] is not None:
        G['log'].append((lid, se_state(circuit, data)))


def apply_act(a, circuit, data):
    k = a[0]
    if k == 'append':
        circuit.append(mk_op(a[1]))
    elif k == 'insert':
        circuit.insert(a[1], mk_op(a[2]))
    elif k == 'pop':
        circuit.pop((a[1], a[2]))
    elif k == 'poplast':
        circuit.pop()
    elif k == 'replace':
        circuit.replace((a[1], a[2]), mk_op(a[3]))
    elif k == 'setcirc':
        circuit.become(mk_circ(a[1]))
    elif k == 'reparam':
        apply_reparam(circuit, ('all', a[1], a[2]))
    elif k == 'placement':
        data.placement = list(a[1])
    elif k == 'imap':
        data.initial_mapping = list(a[1])
    elif k == 'fmap':
        data.final_mapping = list(a[1])
    elif k == 'seed':
        data.seed = a[1]
    elif k == 'error':
        data.error = a[1][0] / a[1][1]
    elif k == 'model':
        data.model = mk_model(*a[1:])
    elif k == 'gateset':
        from bqskit.compiler.gateset import GateSet
        data.gate_set = GateSet({alpha().by_gid[g] for g in a[1]})
    elif k == 'target':
        data.target = mk_target(a[1], a[2])
    elif k == 'put':
        data[a[1]] = mk_val(a[2])
    elif k == 'del':
        del data[a[1]]
    elif k == 'incr':
        v = data[a[1]] if a[1] in data else 0
        if not isinstance(v, int):
            raise TypeError('incr')
        data[a[1]] = v + a[2]
    elif k == 'push':
        v = data[a[1]] if a[1] in data else []
        if not isinstance(v, list):
            raise TypeError('push')
        data[a[1]] = v + [mk_val(a[2])]
    elif k == 'raise':
        raise RuntimeError('leaf raises')
    elif k == 'sleep':
        time.sleep(a[1])
    else:
        raise AssertionError(k)


class ActLeaf(BasePass):
    """A leaf pass: logs itself with the state it sees, then edits."""

    def __init__(self, lid, acts, tag=None):
        self.lid = lid
        self.acts = acts
        self.tag = tag        # which case (stragglers of cancelled jobs log late)

    async def run(self, circuit, data):
        log_event(self.lid, circuit, data, self.tag)
        for a in self.acts:
            apply_act(a, circuit, data)


# ----------------------------------------------------------------- predicates
def next_script_bit():
    s = G['script']
    if s is None or not s:
        raise RuntimeError('script exhausted / not available here')
    return s.pop(0)


class ScriptPred(PassPredicate):
    def get_truth_value(self, circuit, data):
        return next_script_bit()


class PopKeyPred(PassPredicate):
    def __init__(self, key):
        self.key = key

    def get_truth_value(self, circuit, data):
        v = data[self.key]
        if not isinstance(v, list):
            raise RuntimeError('popkey')
        if not v:
            return False
        data[self.key] = v[1:]
        return bool(v[0])


class KeyLtPred(PassPredicate):
    def __init__(self, key, n):
        self.key, self.n = key, n

    def get_truth_value(self, circuit, data):
        v = data[self.key]
        if isinstance(v, bool) or not isinstance(v, int):
            raise RuntimeError('keylt')
        return v < self.n


def mk_pred(p):
    from bqskit.passes.control.predicates import (AndPredicate,
                                                  ChangePredicate,
                                                  GateCountPredicate,
                                                  NotPredicate, OrPredicate,
                                                  WidthPredicate)
    if p == 'script':
        return ScriptPred()
    if p == 'change':
        return ChangePredicate()
    k = p[0]
    if k == 'popkey':
        return PopKeyPred(p[1])
    if k == 'keylt':
        return KeyLtPred(p[1], p[2])
    if k == 'width':
        return WidthPredicate(p[1])
    if k == 'gatecount':
        return GateCountPredicate([alpha().by_gid[g] for g in p[1]])
    if k == 'not':
        return NotPredicate(mk_pred(p[1]))
    if k == 'and':
        return AndPredicate(mk_pred(p[1]), mk_pred(p[2]))
    if k == 'or':
        return OrPredicate(mk_pred(p[1]), mk_pred(p[2]))
    raise AssertionError(p)


class ScriptCond:
    def __call__(self, a, b):
        return next_script_bit()


class CondFn:
    def __init__(self, spec):
        self.spec = spec

    def __call__(self, a, b):
        s = self.spec
        if s == 'true':
            return True
        if s == 'false':
            return False
        if s == 'opslt':
            return a.num_operations < b.num_operations
        if s == 'opsle':
            return a.num_operations <= b.num_operations
        if s == 'opsgt':
            return a.num_operations > b.num_operations
        if s == 'cycleslt':
            return a.num_cycles < b.num_cycles
        raise AssertionError(s)


class CollectFn:
    def __init__(self, spec):
        self.spec = spec

    def __call__(self, op):
        from bqskit.ir.gates import CircuitGate
        s = self.spec
        if s[0] == 'all':
            return True
        if s[0] == 'block':
            return isinstance(op.gate, CircuitGate)
        isblk = isinstance(op.gate, CircuitGate)
        if s[0] == 'gids':
            return (not isblk) and alpha().gid(op.gate) in s[1]
        if s[0] == 'notgids':
            return isblk or alpha().gid(op.gate) not in s[1]
        if s[0] == 'arity':
            return op.num_qudits == s[1]
        if s[0] == 'minq':
            return min(op.location) == s[1]
        raise AssertionError(s)


class RFiltFn:
    def __init__(self, spec):
        self.spec = spec

    def __call__(self, new, old):
        from bqskit.ir.gates import CircuitGate
        s = self.spec
        if s[0] == 'true':
            return True
        if s[0] == 'false':
            return False
        if s[0] == 'opsltold':
            n = (old.gate._circuit.num_operations
                 if isinstance(old.gate, CircuitGate) else 1)
            return new.num_operations < n
        if s[0] == 'opslt':
            return new.num_operations < s[1]
        if s[0] == 'lochas':
            return s[1] in old.location
        raise AssertionError(s)


# ------------------------------------------------------------------ real trees
def mk_tree(t, case):
    from bqskit.compiler.workflow import Workflow
    from bqskit.passes.control import (DoThenDecide, DoWhileLoopPass,
                                       ForEachBlockPass, IfThenElsePass,
                                       ParallelDo, WhileLoopPass)
    from bqskit.passes.control.foreach import ClearAllBlockData
    k = t[0]
    if k == 'leaf':
        return ActLeaf(t[1], case['leaves'][t[1]], case.get('tag'))
    if k == 'seq':
        return Workflow([mk_tree(x, case) for x in t[1]])
    if k == 'ite':
        return IfThenElsePass(mk_pred(t[1]), mk_tree(t[2], case),
                              None if t[3] is None else mk_tree(t[3], case))
    if k == 'while':
        return WhileLoopPass(mk_pred(t[1]), mk_tree(t[2], case))
    if k == 'dowhile':
        return DoWhileLoopPass(mk_pred(t[1]), mk_tree(t[2], case))
    if k == 'dtd':
        return DoThenDecide(mk_cond(t[1], case), mk_tree(t[2], case))
    if k == 'par':
        return ParallelDo([mk_tree(x, case) for x in t[1]],
                          mk_cond(t[2], case), t[3])
    if k == 'foreach':
        col = None if t[2] == 'default' else CollectFn(case['collects'][t[2][1]])
        rf = t[3][1] if t[3][0] == 'named' else RFiltFn(case['rfilts'][t[3][1]])
        return ForEachBlockPass(mk_tree(t[4], case), t[1], col, rf)
    if k == 'clearall':
        return ClearAllBlockData()
    raise AssertionError(t)


def mk_cond(c, case):
    if c == 'script':
        return ScriptCond()
    return CondFn(case['conds'][c[1]])


# ----------------------------------------------------- in-process runtime handle
class FakeFuture:
    def __init__(self, rt, fnargs):
        self.rt, self.fnargs = rt, fnargs
        self.results = {}

    async def run_one(self, i):
        if i not in self.results:
            fn, args, kwargs = self.fnargs[i]
            args, kwargs = pickle.loads(pickle.dumps((args, kwargs)))
            saved = G['script']
            G['script'] = None           # workers do not share the client's globals
            try:
                self.results[i] = await fn(*args, **kwargs)
            finally:
                G['script'] = saved
        return self.results[i]

    def __await__(self):
        async def all_():
            return [await self.run_one(i) for i in range(len(self.fnargs))]
        return all_().__await__()


class FakeRuntime:
    """`get_runtime()` for in-process runs: tasks are executed one after the
    other on pickled copies of their arguments; `next` returns the scripted
    first batch (only those tasks are executed)."""

    def __init__(self, arrivals):
        self.arrivals = [list(a) for a in arrivals]

    def map(self, fn, *args, **kwargs):
        if len(args) == 1:
            fnargs = [(fn, (a,), kwargs) for a in args[0]]
        else:
            fnargs = [(fn, sub, kwargs) for sub in zip(*args)]
        if not fnargs:
            raise RuntimeError('Unable to map 0 tasks.')
        return FakeFuture(self, fnargs)

    async def next(self, fut):
        batch = self.arrivals.pop(0)
        for i in sorted(batch):
            await fut.run_one(i)
        return [(i, fut.results[i]) for i in batch]

    def cancel(self, fut):
        pass


class Timeout(Exception):
    pass


def _alarm(signum, frame):
    raise Timeout()


def run_real(case, circuit, data, limit=20):
    """run the real passes in-process; returns (outcome, log)"""
    import bqskit.runtime.worker as W
    wf = mk_tree(case['tree'], case)
    G['script'] = [bool(b) for b in case['script']]
    G['log'] = []
    W._worker = FakeRuntime(case.get('arrivals', []))
    old = signal.signal(signal.SIGALRM, _alarm)
    signal.alarm(limit)
    try:
        asyncio.run(wf.run(circuit, data))
        out = 'ok'
    except Timeout:
        out = 'timeout'
    except Exception as e:  # the pass raised
        out = 'raised:' + type(e).__name__
    finally:
        signal.alarm(0)
        signal.signal(signal.SIGALRM, old)
        W._worker = None
    log = G['log']
    left = list(G['script'] or [])
    G['log'] = None
    G['script'] = None
    return out, log, left


# ----------------------------------------------------------------- driver lines
def t_pred(p):
    if isinstance(p, str):
        return p
    k = p[0]
    if k in ('popkey',):
        return f'(popkey {p[1]})'
    if k == 'keylt':
        return f'(keylt {p[1]} {p[2]})'
    if k == 'width':
        return f'(width {p[1]})'
    if k == 'gatecount':
        return '(gatecount ' + ' '.join(map(str, p[1])) + ')'
    if k == 'not':
        return f'(not {t_pred(p[1])})'
    return f'({k} {t_pred(p[1])} {t_pred(p[2])})'


def t_cond(c):
    return 'script' if c == 'script' else f'(fn {c[1]})'


def t_tree(t):
    k = t[0]
    if k == 'leaf':
        return f'(leaf {t[1]})'
    if k == 'seq':
        return '(seq ' + ' '.join(t_tree(x) for x in t[1]) + ')'
    if k == 'ite':
        e = '' if t[3] is None else ' ' + t_tree(t[3])
        return f'(ite {t_pred(t[1])} {t_tree(t[2])}{e})'
    if k in ('while', 'dowhile'):
        return f'({k} {t_pred(t[1])} {t_tree(t[2])})'
    if k == 'dtd':
        return f'(dtd {t_cond(t[1])} {t_tree(t[2])})'
    if k == 'par':
        return (f'(par {t_cond(t[2])} {int(t[3])} (ws '
                + ' '.join(t_tree(x) for x in t[1]) + '))')
    if k == 'foreach':
        col = 'default' if t[2] == 'default' else f'(fn {t[2][1]})'
        rf = f'(named {t[3][1]})' if t[3][0] == 'named' else f'(fn {t[3][1]})'
        return f'(foreach {int(t[1])} {col} {rf} {t_tree(t[4])})'
    if k == 'clearall':
        return 'clearall'
    raise AssertionError(t)


class Texts:
    """input-format circuit text with the defblock lines it needs"""

    def __init__(self):
        from harness.circ_sim import Sim
        self.sim = Sim(alpha(), random.Random(0))
        self.defs = []

    def circ(self, c):
        t = self.sim.circ_text(c)
        self.defs += self.sim.pending_defs
        self.sim.pending_defs = []
        return t

    def op(self, op):
        t = self.sim.op_text(op)
        self.defs += self.sim.pending_defs
        self.sim.pending_defs = []
        return t


def t_val(v, tx):
    if v is None:
        return 'none'
    if isinstance(v, bool):
        return f'(i {int(v)})'
    if isinstance(v, int):
        return f'(i {v})'
    if isinstance(v, str):
        return f'(s {v})' if v else '(s)'
    if isinstance(v, dict):
        return '(d' + ''.join(f' ({k} {t_val(x, tx)})'
                              for k, x in sorted(v.items())) + ')'
    if isinstance(v, (list, tuple)):
        return '(l' + ''.join(' ' + t_val(x, tx) for x in v) + ')'
    raise AssertionError(v)


def t_model(n, edges, gids, radixes):
    if isinstance(n, int):       # a spec: graph size as the real constructor makes it
        n = (n, mk_model(n, edges, gids, radixes).coupling_graph.num_qudits)
    return (f'(model {n[0]} {n[1]} (e' + ''.join(f' {a}-{b}' for a, b in edges)
            + ') (g' + ''.join(f' {g}' for g in gids) + ') (r'
            + ''.join(f' {r}' for r in radixes) + '))')


def t_act(a, tx):
    k = a[0]
    if k == 'append':
        return f'(append {tx.op(mk_op(a[1]))})'
    if k == 'insert':
        return f'(insert {a[1]} {tx.op(mk_op(a[2]))})'
    if k == 'pop':
        return f'(pop {a[1]} {a[2]})'
    if k == 'poplast':
        return '(poplast)'
    if k == 'replace':
        return f'(replace {a[1]} {a[2]} {tx.op(mk_op(a[3]))})'
    if k == 'setcirc':
        return f'(setcirc {tx.circ(mk_circ(a[1]))})'
    if k == 'reparam':
        return f'(reparam {a[1]} {a[2]})'
    if k in ('placement', 'imap', 'fmap', 'gateset'):
        return f'({k}' + ''.join(f' {x}' for x in a[1]) + ')'
    if k == 'seed':
        return f'(seed {"none" if a[1] is None else a[1]})'
    if k == 'error':
        return f'(error {a[1][0]}/{a[1][1]})'
    if k == 'model':
        return t_model(*a[1:])
    if k == 'target':
        return f'(target {a[1]} {a[2]})'
    if k == 'put':
        return f'(put {a[1]} {t_val(a[2], tx)})'
    if k == 'del':
        return f'(del {a[1]})'
    if k == 'incr':
        return f'(incr {a[1]} {a[2]})'
    if k == 'push':
        return f'(push {a[1]} {t_val(a[2], tx)})'
    if k == 'raise':
        return '(raise)'
    if k == 'sleep':
        return None
    raise AssertionError(a)


def t_pdata0(circuit, data, tx, target_named=None):
    """the real initial PassData as a driver `state` line"""
    n, edges, gids, rad = model_parts(data.model)
    if target_named is None:
        tgt = f'(target circ {tx.circ(circuit)})'
    else:
        tgt = f'(target named {target_named[0]} {target_named[1]})'
    e = Fraction(float(data.error)).limit_denominator(10 ** 12)
    kv = ''.join(f' ({k} {t_val(v, tx)})' for k, v in data._data.items())
    return (f'(pd {tgt} (error {e.numerator}/{e.denominator}) '
            + t_model(n, edges, gids, rad)
            + ' (placement' + ''.join(f' {x}' for x in data.placement) + ')'
            + ' (imap' + ''.join(f' {x}' for x in data.initial_mapping) + ')'
            + ' (fmap' + ''.join(f' {x}' for x in data.final_mapping) + ')'
            + f' (seed {"none" if data.seed is None else data.seed})'
            + f' (data{kv}))')


def spec_words(s):
    return ' '.join(','.join(map(str, x)) if isinstance(x, (list, tuple))
                    else str(x) for x in s)


def case_lines(case, circuit, data, tables, errs, fuel=400):
    tx = Texts()
    body = []
    for i, acts in case['leaves'].items():
        ts = [t_act(a, tx) for a in acts]
        body.append(f'leaf {i} (' + ' '.join(t for t in ts if t) + ')')
    for i, s in case.get('conds', {}).items():
        body.append(f'cond {i} {s}')
    for i, s in case.get('collects', {}).items():
        body.append(f'collect {i} {spec_words(s)}')
    for i, s in case.get('rfilts', {}).items():
        body.append(f'rfilt {i} {spec_words(s)}')
    body.append('script ' + ' '.join(str(int(b)) for b in case['script']))
    body.append('errs ' + ' '.join(errs))
    body.append('arrivals ' + ' '.join(
        ','.join(map(str, a)) for a in case.get('arrivals', [])))
    st = f'state {tx.circ(circuit)} ' + t_pdata0(
        circuit, data, tx, case.get('target_named'))
    body.append(st)
    body.append(f'run {fuel} {t_tree(case["tree"])}')
    head = ['case'] + tx.defs
    head.append('fields ' + (','.join(tables['copy']) or '-') + ' '
                + (','.join(tables['become']) or '-'))
    for name, kind in tables['filters']:
        head.append(f'filter {name} {kind}')
    return head + body


def parse_run_reply(line):
    parts = line.split(' # ')
    if len(parts) != 5:
        return {'outcome': line.strip(), 'trace': [], 'st': None, 'left': None,
                'dist': []}
    tr = se_parse(parts[1])[0]
    st = se_parse(parts[2])[0]
    left = se_parse(parts[3])[0]
    dist = se_parse(parts[4])[0][1:]
    return {'outcome': parts[0], 'trace': tr, 'st': st, 'left': left,
            'dist': dist}


def frac_text(x):
    f = Fraction(float(x)).limit_denominator(10 ** 12)
    return f'{f.numerator}/{f.denominator}'


# =====================================================================
# generators
# =====================================================================
Q1 = [1, 2, 3, 4, 5, 18]          # X H T RZ U3 Tdg
Q2 = [6, 7, 8, 9]                 # CNOT CZ RZZ SWAP
NPAR = {1: 0, 2: 0, 3: 0, 4: 1, 5: 3, 18: 0, 6: 0, 7: 0, 8: 1, 9: 0, 10: 0,
        11: 0, 12: 0, 13: 0, 14: 0}


def rdx(nq):
    """a width (qubits) or a list of radixes -> list of radixes"""
    return [2] * nq if isinstance(nq, int) else list(nq)


def g_radixes(rng, nq, pmixed=0.25):
    """qubits, or (a quarter of the circuits) qubits and qutrits: gates 11
    (shift), 12 (CSUM), 13/14 (constant unitaries on qubit x qutrit, which the
    DEFAULT collection filter of ForEachBlockPass selects) become possible and
    the radixes of sub-circuits / sub-models differ from qudit to qudit"""
    if rng.random() >= pmixed:
        return [2] * nq
    return [3 if rng.random() < 0.4 else 2 for _ in range(nq)]


def g_params(rng, gid):
    return tuple(rng.randint(-3000, 3000) for _ in range(NPAR[gid]))


def g_plain_op(rng, nq, max_arity=3):
    rad = rdx(nq)
    nq = len(rad)
    ar = rng.choice([1, 1, 2, 2, 3]) if nq >= 3 and max_arity >= 3 else \
        rng.choice([1, 2]) if nq >= 2 and max_arity >= 2 else 1
    loc = tuple(rng.sample(range(nq), ar))
    rs = tuple(rad[q] for q in loc)
    if ar == 3 and rs != (2, 2, 2):
        ar, loc, rs = 2, loc[:2], rs[:2]
    if ar == 1:
        gid = rng.choice(Q1) if rs == (2,) else 11
    elif ar == 2:
        gid = {(2, 2): None, (3, 3): 12, (2, 3): 13, (3, 2): 14}[rs]
        if gid is None:
            gid = rng.choice(Q2)
    else:
        gid = 10
    return (gid, g_params(rng, gid), loc)


def g_body(rng, k, parametric=False):
    rad = rdx(k)
    n = rng.randint(1, 4)
    ops = [('a', 0, g_plain_op(rng, rad)) for _ in range(n)]
    qubits = [q for q, r in enumerate(rad) if r == 2]
    if parametric and qubits and not any(spec_nparams(o[2]) for o in ops):
        gid = rng.choice([4, 5])
        ops.insert(rng.randint(0, len(ops)),
                   ('a', 0, (gid, g_params(rng, gid), (rng.choice(qubits),))))
    return {'radixes': rad, 'ops': ops}


def spec_nparams(ospec):
    """number of parameters of an operation spec"""
    if ospec[0] == 'B':
        return sum(spec_nparams(o[2]) for o in ospec[1]['ops'])
    return NPAR[ospec[0]]


def g_outer(rng, body):
    """operation parameters differing from the ones frozen in the body"""
    n = spec_nparams(('B', body, ()))
    return [rng.randint(-3000, 3000) for _ in range(n)]


def g_reparam(rng):
    """re-parameterisation steps applied after the circuit (its blocks) exists"""
    steps = []
    for _ in range(rng.randint(1, 2)):
        if rng.random() < 0.7:
            steps.append(('all', rng.randint(1, 900), rng.randint(0, 6000)))
        else:
            steps.append(('one', rng.randint(0, 40), rng.randint(-3000, 3000)))
    return steps


def g_circuit(rng, nq, nops, pblock=0.0, nested=0.1, preparam=0.35,
              parametric=0.5):
    """`nq`: a number of qubits or a list of radixes.
    `preparam`: probability that the finished circuit is re-parameterised
    from the outside (set_params / set_param), that a block operation is given
    its own parameters, and that a block re-uses the CircuitGate object of an
    earlier block with other parameters - in all three cases the operation's
    parameters differ from those frozen inside its CircuitGate."""
    rad = rdx(nq)
    nq = len(rad)
    ops = []
    bodies = []
    for _ in range(nops):
        if rng.random() < pblock:
            k = rng.randint(1, min(3, nq))
            loc = rng.sample(range(nq), k)
            if rng.random() < 0.7:
                loc.sort()
            brad = [rad[q] for q in loc]
            same = [b for b in bodies if b['radixes'] == brad]
            if same and rng.random() < preparam * 0.7:
                body = rng.choice(same)        # the same CircuitGate object again
            else:
                body = g_body(rng, brad, rng.random() < parametric)
                if rng.random() < nested and k >= 2:
                    iq = rng.randrange(k)
                    inner = g_body(rng, [brad[iq]], rng.random() < parametric)
                    io = ('B', inner, (iq,))
                    if rng.random() < preparam:
                        io = io + (g_outer(rng, inner),)
                    body['ops'].append(('a', 0, io))
                bodies.append(body)
            o = ('B', body, tuple(loc))
            if rng.random() < preparam:
                o = o + (g_outer(rng, body),)
        else:
            o = g_plain_op(rng, rad)
        r = rng.random()
        if r < 0.7 or not ops:
            ops.append(('a', 0, o))
        else:
            ops.append(('i', rng.randint(-1, len(ops)), o))
    cs = {'radixes': rad, 'ops': ops}
    if rng.random() < preparam:
        cs['reparam'] = g_reparam(rng)
    return cs


def has_param_blocks(cs):
    """the circuit spec contains a block operation with parameters"""
    return any(o[2][0] == 'B' and spec_nparams(o[2]) > 0 for o in cs['ops'])


def reparam_twin(rng, cs):
    """the same circuit, re-parameterised after its blocks were formed"""
    return dict(cs, reparam=list(cs.get('reparam', ())) + [
        ('all', rng.randint(1, 900), rng.randint(0, 6000))])


def g_edges(rng, n):
    import itertools as it
    allp = list(it.combinations(range(n), 2))
    r = rng.random()
    if r < 0.35:
        return allp
    if r < 0.6:
        return [(i, i + 1) for i in range(n - 1)]
    return [e for e in allp if rng.random() < 0.6]


def g_pdata(rng, nq):
    """spec of the edits applied to PassData(circuit) before the run"""
    acts = []
    rad = rdx(nq)
    nq = len(rad)
    n = nq + rng.choice([0, 0, 1, 2])
    gs = rng.choice([[5, 6], [1, 2, 3, 4, 6], [5, 7, 10], [2, 6, 9, 5], [6]])
    if rad != [2] * nq:
        gs = rng.choice([gs, gs + [12, 13], [11, 12, 13, 14, 6], [14, 5]])
    acts.append(('model', n, g_edges(rng, n), gs, rad + [2] * (n - nq)))
    if rng.random() < 0.6:
        pl = rng.sample(range(n), nq)
        if rng.random() < 0.5:
            pl.sort()
        acts.append(('placement', pl))
    if rng.random() < 0.4:
        acts.append(('imap', rng.sample(range(nq), nq)))
    if rng.random() < 0.4:
        acts.append(('fmap', rng.sample(range(nq), nq)))
    if rng.random() < 0.4:
        acts.append(('seed', rng.randint(0, 99)))
    if rng.random() < 0.3:
        acts.append(('error', (rng.randint(1, 50), 1000)))
    acts.append(('put', 'c1', 0))
    acts.append(('put', 'bits', [rng.randint(0, 1) for _ in range(rng.randint(0, 5))]))
    if rng.random() < 0.5:
        acts.append(('put', 'ForEachBlockPass_pass_down_x', rng.randint(0, 9)))
    r = rng.random()
    if r < 0.4:
        acts.append(('put', 'ForEachBlockPass_specific_pass_down_y',
                     {i: [i, 7] for i in rng.sample(range(5), 3)}))
    elif r < 0.55:
        # a LIST: `i in value` is membership, `value[i]` is indexing
        acts.append(('put', 'ForEachBlockPass_specific_pass_down_y',
                     [rng.randint(0, 4) for _ in range(rng.randint(1, 4))]))
    return acts


def g_top_leaf(rng, lid, nq):
    rad = rdx(nq)
    nq = len(rad)
    acts = [('push', TRACE_KEY, lid)]
    r = rng.random()
    if r < 0.09:
        pass
    elif r < 0.12:      # the pass replaces the whole circuit (blocks included)
        acts.append(('setcirc', g_circuit(rng, rad, rng.randint(0, 4), pblock=0.4)))
    elif r < 0.4:
        acts.append(('append', g_plain_op(rng, rad)))
    elif r < 0.46:
        acts.append(('poplast',))
    elif r < 0.5:       # a parameter-tuning pass: blocks keep their gates
        acts.append(('reparam', rng.randint(1, 900), rng.randint(0, 6000)))
    elif r < 0.56:
        acts.append(('insert', rng.choice([0, -1, 1, 5]), g_plain_op(rng, rad)))
    elif r < 0.62:
        acts.append(('imap', rng.sample(range(nq), nq)))
    elif r < 0.68:
        acts.append(('fmap', rng.sample(range(nq), nq)))
    elif r < 0.72:
        acts.append(('placement', rng.sample(range(nq), nq)))
    elif r < 0.75:
        acts.append(('seed', rng.choice([None, rng.randint(0, 9)])))
    elif r < 0.79:
        acts.append(('error', (rng.randint(0, 99), 1000)))
    elif r < 0.82:
        acts.append(('gateset', rng.choice([[5, 6], [1, 6, 7], [2, 3]])))
    elif r < 0.85:
        acts.append(('target', rng.randint(0, 3), nq))
    elif r < 0.9:
        acts.append(('put', rng.choice(['u1', 'u2', 'calculate_error_bound']),
                     rng.choice([0, 1, 5, 'a', None, [1, 2]])))
    elif r < 0.93:
        # (without 'bits' / 'c1' the harness predicates raise)
        acts.append(('del', rng.choice(['u1', 'u2', 'u1', 'u2', 'bits', 'c1'])))
    elif r < 0.97:
        acts.append(('incr', 'u3', rng.randint(1, 3)))
    else:
        acts.append(('raise',))
    return acts


def g_body_leaf(rng, lid):
    acts = [('push', TRACE_KEY, lid)]
    r = rng.random()
    if r < 0.15:
        pass
    elif r < 0.45:
        g = rng.choice(Q1)
        acts.append(('append', (g, g_params(rng, g), (0,))))
    elif r < 0.55:
        acts.append(('append', (4, (rng.randint(1, 200),), (0,))))   # small RZ
    elif r < 0.65:
        acts += [('append', (1, (), (0,))), ('append', (1, (), (0,)))]
    elif r < 0.75:
        acts.append(('poplast',))
    elif r < 0.8:
        acts.append(('reparam', rng.randint(1, 900), rng.randint(0, 6000)))
    elif r < 0.86:
        acts.append(('append', (rng.choice(Q2[:2]), (), (0, 1))))
    elif r < 0.9:
        acts.append(('put', 'u1', rng.randint(0, 5)))
    elif r < 0.93:
        acts.append(('error', (rng.randint(0, 99), 1000)))
    elif r < 0.96:
        acts.append(('put', 'calculate_error_bound', rng.choice([0, 1])))
    elif r < 0.98:
        acts.append(('seed', rng.randint(0, 9)))
    else:
        acts.append(('raise',))
    return acts


class CaseGen:
    def __init__(self, rng, nq):
        self.rng, self.rad = rng, rdx(nq)
        self.nq = len(self.rad)
        self.leaves = {}
        self.conds, self.collects, self.rfilts = {}, {}, {}
        self.min_pf = 99      # fewest branches of a pick_first ParallelDo
        self.nctr = 0

    def leaf(self, body):
        lid = len(self.leaves)
        self.leaves[lid] = (g_body_leaf(self.rng, lid) if body
                            else g_top_leaf(self.rng, lid, self.rad))
        return ('leaf', lid)

    def incr_leaf(self, key):
        lid = len(self.leaves)
        self.leaves[lid] = [('push', TRACE_KEY, lid), ('incr', key, 1)]
        return ('leaf', lid)

    def ident_leaf(self):
        lid = len(self.leaves)
        self.leaves[lid] = [('push', TRACE_KEY, lid)]
        return ('leaf', lid)

    def cond(self, worker):
        if not worker and self.rng.random() < 0.5:
            return 'script'
        i = len(self.conds)
        self.conds[i] = self.rng.choice(['true', 'false', 'opslt', 'opsle',
                                         'opsgt', 'cycleslt'])
        return ('fn', i)

    def pred(self, worker, depth=0):
        rng = self.rng
        r = rng.random()
        if depth < 2 and r < 0.2:
            k = rng.choice(['not', 'and', 'or'])
            if k == 'not':
                return ('not', self.pred(worker, depth + 1))
            return (k, self.pred(worker, depth + 1), self.pred(worker, depth + 1))
        if not worker and r < 0.65:
            return 'script'
        r = rng.random()
        if r < 0.5:
            return ('popkey', 'bits')
        if r < 0.7:
            return ('width', rng.randint(1, 5))
        if r < 0.85:
            return ('keylt', 'c1', rng.randint(0, 3))
        return rng.choice(['change', ('gatecount', rng.sample(Q1 + Q2, 2))])

    def loop_pred(self, worker):
        """(pred, extra body leaf | None): a predicate under which loops end"""
        rng = self.rng
        r = rng.random()
        if not worker and r < 0.6:
            return 'script', None
        if r < 0.8:
            return ('popkey', 'bits'), None
        return ('keylt', 'c1', rng.randint(1, 3)), self.incr_leaf('c1')

    def tree(self, depth, worker=False, body=False, allow_rt=True):
        rng = self.rng
        if depth <= 0:
            return self.leaf(body)
        r = rng.random()
        if r < 0.2:
            return self.leaf(body)
        if r < 0.4:
            return ('seq', [self.tree(depth - 1, worker, body, allow_rt)
                            for _ in range(rng.randint(1, 3))])
        if r < 0.52:
            e = self.tree(depth - 1, worker, body, allow_rt) if rng.random() < 0.6 else None
            return ('ite', self.pred(worker), self.tree(depth - 1, worker, body, allow_rt), e)
        if r < 0.64:
            p, extra = self.loop_pred(worker)
            b = self.tree(depth - 1, worker, body, allow_rt)
            if extra:
                b = ('seq', [b, extra])
            return ('while', p, b)
        if r < 0.74:
            p, extra = self.loop_pred(worker)
            b = self.tree(depth - 1, worker, body, allow_rt)
            if extra:
                b = ('seq', [b, extra])
            return ('dowhile', p, b)
        if r < 0.86:
            return ('dtd', self.cond(worker), self.tree(depth - 1, worker, body, allow_rt))
        if not allow_rt:
            return self.leaf(body)
        if r < 0.93:
            n = rng.randint(1, 3)
            ws = [self.tree(depth - 1, True, body, allow_rt) for _ in range(n)]
            pf = rng.random() < 0.35
            if pf:
                self.min_pf = min(self.min_pf, n)
            # less_than is called by the pass itself (not inside a job): at the
            # top level it may be scripted
            return ('par', ws, self.cond(worker), pf)
        return self.foreach(depth - 1)

    def foreach(self, depth, calc=None, rfilter=None, collect=None, body=None):
        rng = self.rng
        if collect is None:
            if rng.random() < 0.5:
                collect = 'default'
            else:
                i = len(self.collects)
                self.collects[i] = rng.choice([
                    ('all',), ('block',), ('gids', rng.sample(Q1 + Q2, 3)),
                    ('notgids', rng.sample(Q1 + Q2, 3)), ('arity', rng.randint(1, 3)),
                    ('minq', rng.randrange(self.nq))])
                collect = ('fn', i)
        if rfilter is None:
            if rng.random() < 0.65:
                rfilter = ('named', rng.choice(NAMED))
            else:
                i = len(self.rfilts)
                self.rfilts[i] = rng.choice([('true',), ('false',), ('opsltold',),
                                             ('opslt', rng.randint(1, 4)),
                                             ('lochas', rng.randrange(self.nq))])
                rfilter = ('fn', i)
        if calc is None:
            calc = rng.random() < 0.5
        if body is None:
            body = self.tree(depth, True, True, allow_rt=rng.random() < 0.3)
        return ('foreach', calc, collect, rfilter, body)

    def acts_leaf(self, acts):
        lid = len(self.leaves)
        self.leaves[lid] = [('push', TRACE_KEY, lid)] + list(acts)
        return ('leaf', lid)

    def case(self, tree, circ, pd, kind):
        return {'kind': kind, 'circ': circ, 'pdata': pd, 'leaves': self.leaves,
                'conds': self.conds, 'collects': self.collects,
                'rfilts': self.rfilts, 'tree': tree,
                'script': [int(self.rng.random() < 0.45) for _ in range(30)],
                # a pick_first node may run many times (loops, blocks): one
                # batch of arrived branch indices per execution
                'arrivals': [] if self.min_pf == 99 else [
                    self.rng.sample(range(self.min_pf),
                                    self.rng.randint(1, self.min_pf))
                    for _ in range(40)]}


NAMED = ['always', 'less-than', 'less-than-multi', 'less-than-many',
         'less-than-respecting', 'less-than-respecting-multi',
         'less-than-respecting-many', 'less-than-respecting-fully',
         'less-than-respecting-fully-multi', 'less-than-respecting-fully-many']


def gen_control_case(rng):
    nq = g_radixes(rng, rng.randint(1, 4))
    g = CaseGen(rng, nq)
    tree = g.tree(rng.randint(2, 4))
    circ = g_circuit(rng, nq, rng.randint(0, 6), pblock=0.25)
    return g.case(tree, circ, g_pdata(rng, nq), 'control')


def gen_foreach_case(rng, named=None, calc=None):
    nq = g_radixes(rng, rng.randint(2, 5))
    g = CaseGen(rng, nq)
    rf = ('named', named) if named else None
    fe = g.foreach(rng.randint(0, 2), calc=calc, rfilter=rf)
    r = rng.random()
    if r < 0.6:
        tree = fe
    elif r < 0.8:
        tree = ('seq', [fe, g.foreach(rng.randint(0, 1), calc=calc)])
    else:
        tree = ('seq', [g.leaf(False), fe, 'clearall' if rng.random() < 0.5 else g.leaf(False)])
        tree = ('seq', [t if t != 'clearall' else ('clearall',) for t in tree[1]])
    circ = g_circuit(rng, nq, rng.randint(1, 8), pblock=0.6)
    return g.case(tree, circ, g_pdata(rng, nq), 'foreach')


def gen_reparam_case(rng):
    """ForEachBlockPass (alone, twice with a parameter-tuning leaf in between,
    nested, under DoThenDecide / ParallelDo) on circuits whose block operations
    carry other parameters than the circuits frozen in their CircuitGates, with
    bodies that do nothing / only look / perturb parameters / replace the whole
    circuit / are arbitrary"""
    nq = rng.randint(2, 4)
    g = CaseGen(rng, nq)
    circ = g_circuit(rng, nq, rng.randint(2, 7), pblock=0.7, nested=0.3,
                     preparam=0.9, parametric=1.0)
    always = ('named', 'always') if rng.random() < 0.5 else None

    def body(width=None):
        r = rng.random()
        if r < 0.3:
            return g.ident_leaf()
        if r < 0.45:
            return g.acts_leaf([('reparam', rng.randint(1, 900),
                                 rng.randint(0, 6000))])
        if r < 0.6 and width is not None:
            return g.acts_leaf([('setcirc', g_circuit(
                rng, width, rng.randint(0, 3), pblock=0.3, nested=0.0))])
        if r < 0.75:          # nested: the blocks inside the blocks
            return g.foreach(0, rfilter=('named', 'always'),
                             body=g.ident_leaf() if rng.random() < 0.5 else None)
        return None

    k = rng.randrange(5)
    if k == 0:
        tree = g.foreach(1, rfilter=always, body=body())
    elif k == 1:
        w = rng.randint(1, min(3, nq))
        i = len(g.collects)
        g.collects[i] = ('arity', w)
        tree = g.foreach(1, rfilter=always, collect=('fn', i), body=body(w))
    elif k == 2:
        tune = g.acts_leaf([('reparam', rng.randint(1, 900), rng.randint(0, 6000))])
        tree = ('seq', [g.foreach(1, rfilter=('named', 'always'), body=body()),
                        tune, g.foreach(1, rfilter=always, body=body())])
    elif k == 3:
        tree = ('dtd', g.cond(False), g.foreach(1, rfilter=always, body=body()))
    else:
        tree = ('par', [g.foreach(0, rfilter=always, body=body()), g.leaf(False)],
                g.cond(True), False)
    return g.case(tree, circ, g_pdata(rng, nq), 'reparam')


def malformed_case(rng):
    """inputs the passes must reject or survive: invalid placement for the
    connectivity, unknown filter name, empty circuit, body that always raises"""
    nq = rng.randint(1, 3)
    g = CaseGen(rng, nq)
    k = rng.randrange(4)
    pd = g_pdata(rng, nq)
    circ = g_circuit(rng, nq, rng.randint(0, 4), pblock=0.6)
    if k == 0:
        pd.append(('placement', [0] * nq if nq > 1 else [7]))
        tree = g.foreach(0)
    elif k == 1:
        tree = g.foreach(0, rfilter=('named', 'fewer-gates'))
    elif k == 2:
        circ = {'radixes': [2] * nq, 'ops': []}
        tree = ('seq', [g.foreach(0), g.leaf(False)])
    else:
        lid = len(g.leaves)
        g.leaves[lid] = [('push', TRACE_KEY, lid), ('raise',)]
        tree = ('seq', [g.leaf(False), ('dtd', ('fn', 0), ('leaf', lid)), g.leaf(False)])
        g.conds[0] = 'true'
    return g.case(tree, circ, pd, 'malformed')


# =====================================================================
# running and comparing
# =====================================================================
def count_own_params(c):
    """block operations whose parameters differ from those frozen in their gate"""
    from bqskit.ir.gates import CircuitGate
    return sum(1 for op in c if isinstance(op.gate, CircuitGate)
               and list(op.params) != list(op.gate._circuit.params))


def build_real(case):
    circuit = mk_circ(case['circ'])
    data = PassData(circuit)
    for a in case['pdata']:
        apply_act(a, circuit, data)
    return circuit, data


def model_run(ck, batch, tables):
    """batch: list of (case, circuit, data).  Two driver passes (the second
    with the measured distances).  Returns the parsed `run` replies."""
    def one_pass(errs_list):
        lines, idx = [], []
        for (case, circuit, data), errs in zip(batch, errs_list):
            ls = case_lines(case, circuit, data, tables, errs)
            lines += ls
            idx.append(len(lines) - 1)
        out = ck.driver('control', lines)
        bad = [i for i, o in enumerate(out) if o == 'bad-line']
        if bad:
            from harness.common import InfraError
            raise InfraError('driver rejected line: ' + lines[bad[0]][:400])
        return [parse_run_reply(out[i]) for i in idx]
    zeros = ['0'] * 64
    first = one_pass([zeros] * len(batch))
    errs_list = []
    need = False
    for rep in first:
        ds = []
        for pair in rep['dist']:
            ds.append(frac_text(hs_distance(unitary_x(pair[0]), unitary_x(pair[1]))))
        need = need or bool(ds)
        errs_list.append(ds + ['0'] * 8)
    if not need:
        return first
    return one_pass(errs_list)


def compare_case(case, rep, out, log, left, circuit, data):
    """None or a description of the first disagreement"""
    mo = rep['outcome']
    if mo.startswith('err'):
        if not out.startswith('raised'):
            return f'model raises ({mo}), real: {out}'
    elif mo == 'ok':
        if out != 'ok':
            return f'model ok, real: {out}'
    else:
        return f'model reply {mo!r}'
    evs = [e for e in rep['trace'] if e[2] == '0']
    if len(evs) != len(log):
        return (f'trace lengths differ: model {[e[1] for e in evs]} real '
                f'{[l for l, _ in log]}')
    for i, (e, (lid, st)) in enumerate(zip(evs, log)):
        if int(e[1]) != lid:
            return (f'trace differs at {i}: model {[e[1] for e in evs]} real '
                    f'{[l for l, _ in log]}')
        d = se_diff(e[3], st, f'state seen by leaf {lid} (event {i})')
        if d:
            return d
    d = se_diff(rep['st'], se_state(circuit, data), 'final')
    if d:
        return d
    mleft = [int(x) for x in rep['left'][1][1:]]
    if mleft != [int(b) for b in left]:
        return f'script consumption differs: model left {mleft}, real {left}'
    return None


# =====================================================================
# independent oracles (real code only)
# =====================================================================
def ref_trace(t, script, leaves):
    """textbook semantics of script-driven trees whose leaves never raise:
    the list of executed leaf ids"""
    k = t[0]
    if k == 'leaf':
        return [t[1]]
    if k == 'seq':
        out = []
        for x in t[1]:
            out += ref_trace(x, script, leaves)
        return out
    if k == 'ite':
        if ref_pred(t[1], script):
            return ref_trace(t[2], script, leaves)
        return [] if t[3] is None else ref_trace(t[3], script, leaves)
    if k == 'while':
        out = []
        while ref_pred(t[1], script):
            out += ref_trace(t[2], script, leaves)
        return out
    if k == 'dowhile':
        out = ref_trace(t[2], script, leaves)
        while ref_pred(t[1], script):
            out += ref_trace(t[2], script, leaves)
        return out
    if k == 'dtd':
        out = ref_trace(t[2], script, leaves)
        script.pop(0)
        return out
    raise AssertionError(t)


def ref_pred(p, script):
    if p == 'script':
        return bool(script.pop(0))
    if p[0] == 'not':
        return not ref_pred(p[1], script)
    if p[0] == 'and':
        return ref_pred(p[1], script) and ref_pred(p[2], script)
    if p[0] == 'or':
        return ref_pred(p[1], script) or ref_pred(p[2], script)
    raise AssertionError(p)


def gen_script_tree(rng, depth, g):
    if depth <= 0 or rng.random() < 0.25:
        lid = len(g.leaves)
        acts = [('push', TRACE_KEY, lid)]
        if rng.random() < 0.5:
            acts.append(('append', g_plain_op(rng, g.nq, 2)))
        g.leaves[lid] = acts
        return ('leaf', lid)
    r = rng.random()
    sub = lambda: gen_script_tree(rng, depth - 1, g)  # noqa: E731

    def sp(d=0):
        if d < 2 and rng.random() < 0.3:
            k = rng.choice(['not', 'and', 'or'])
            return ('not', sp(d + 1)) if k == 'not' else (k, sp(d + 1), sp(d + 1))
        return 'script'
    if r < 0.3:
        return ('seq', [sub() for _ in range(rng.randint(1, 3))])
    if r < 0.5:
        return ('ite', sp(), sub(), sub() if rng.random() < 0.5 else None)
    if r < 0.68:
        return ('while', sp(), sub())
    if r < 0.84:
        return ('dowhile', sp(), sub())
    return ('dtd', 'script', sub())


def snapshot(circuit, data):
    """every attribute of the PassData instance and the circuit, canonically"""
    out = {'circuit': x_circ(circuit)}
    for k, v in vars(data).items():
        if k == '_target':
            out[k] = real_target(data)
        elif k == '_model':
            out[k] = model_parts(v)
        elif k == '_data':
            out[k] = ['data'] + [[kk, se_val(v[kk])] for kk in sorted(v)]
        else:
            out[k] = se_val(v)
    return out


def snap_diff(a, b):
    for k in sorted(set(a) | set(b)):
        if k not in a or k not in b:
            return k
        x, y = a[k], b[k]
        if isinstance(x, TargetU):
            if x.m.shape != y.m.shape or not np.allclose(x.m, y.m, atol=1e-9):
                return k
        elif se_text(x) != se_text(y) if isinstance(x, list) else x != y:
            return k
    return None


FIELD_LEAVES = {
    '_target': [('target', 1, None)],
    '_error': [('error', (1, 8))],
    '_model': [('model', None)],
    '_placement': [('placement', None)],
    '_initial_mapping': [('imap', None)],
    '_final_mapping': [('fmap', None)],
    '_data': [('put', 'u9', 3)],
    '_seed': [('seed', 77)],
}


class Mutate(BasePass):
    """changes attribute `attr` of the PassData generically (for attributes the
    model does not know)"""

    def __init__(self, attr):
        self.attr = attr

    async def run(self, circuit, data):
        v = getattr(data, self.attr)
        if isinstance(v, list):
            setattr(data, self.attr, list(reversed(v)) + [0])
        elif isinstance(v, dict):
            v['mut'] = 1
        elif isinstance(v, (int, float)) and not isinstance(v, bool):
            setattr(data, self.attr, v + 1)
        else:
            setattr(data, self.attr, 12345)


def field_leaf_acts(attr, nq):
    if attr == '_target':
        return [('target', 1, nq)]
    if attr == '_model':
        return [('model', nq + 1, [(0, nq)], [6], [2] * (nq + 1))]
    if attr in ('_placement', '_initial_mapping', '_final_mapping'):
        key = {'_placement': 'placement', '_initial_mapping': 'imap',
               '_final_mapping': 'fmap'}[attr]
        return [(key, list(reversed(range(nq))) if nq > 1 else [0])]
    return list(FIELD_LEAVES[attr])


def oracle_restore(ck, rng, n):
    """a rejected DoThenDecide, the untaken branch of an IfThenElse and the
    unselected branches of a ParallelDo leave circuit and EVERY PassData
    attribute (enumerated from the live instance) as they were"""
    from bqskit.passes.control import DoThenDecide, IfThenElsePass, ParallelDo
    import bqskit.runtime.worker as W
    for it in range(n):
        nq = rng.randint(2, 4)
        cs = g_circuit(rng, nq, rng.randint(1, 5), pblock=0.3)
        circuit = mk_circ(cs)
        data = PassData(circuit)
        pd = g_pdata(rng, nq)
        for a in pd:
            apply_act(a, circuit, data)
        attrs = sorted(vars(data))
        attr = attrs[it % len(attrs)]
        if attr in FIELD_LEAVES:
            body = ActLeaf(0, field_leaf_acts(attr, nq)
                           + [('append', g_plain_op(rng, nq, 2))])
        else:
            body = Mutate(attr)
        before = snapshot(circuit, data)
        which = it % 3
        G['log'] = None
        rep = {'circ': cs, 'pdata': pd, 'attribute': attr}
        if which == 0:
            p = DoThenDecide(CondFn('false'), body)
            out = safe_run(p, circuit, data)
            d = snap_diff(before, snapshot(circuit, data)) or (
                None if out == 'ok' else out)
            ck.count(('restore-dtd', attr, x_circ(circuit)))
            if d:
                ck.violation(
                    f'dothendecide-reject-changes-{d}',
                    f'a rejected DoThenDecide whose body changes {attr} leaves '
                    f'{d} changed', dict(rep, construct='DoThenDecide'))
        elif which == 1:
            G['script'] = [False]
            p = IfThenElsePass(ScriptPred(), body)
            out = safe_run(p, circuit, data)
            G['script'] = None
            d = snap_diff(before, snapshot(circuit, data)) or (
                None if out == 'ok' else out)
            ck.count(('restore-ite', attr, x_circ(circuit)))
            if d:
                ck.violation(
                    f'ifthenelse-untaken-changes-{d}',
                    f'IfThenElsePass with a false condition changed {d}',
                    dict(rep, construct='IfThenElsePass'))
        else:
            # branch 0 does nothing and is preferred; branch 1 changes `attr`
            W._worker = FakeRuntime([])
            try:
                p = ParallelDo([ActLeaf(1, []), body], CondFn('false'))
                out = safe_run(p, circuit, data)
            finally:
                W._worker = None
            d = snap_diff(before, snapshot(circuit, data)) or (
                None if out == 'ok' else out)
            ck.count(('restore-par', attr, x_circ(circuit)))
            if d:
                ck.violation(
                    f'paralleldo-unselected-changes-{d}',
                    f'ParallelDo selected the branch that does nothing, yet {d} '
                    f'shows the unselected branch ({attr})',
                    dict(rep, construct='ParallelDo'))


def safe_run(p, circuit, data):
    try:
        asyncio.run(p.run(circuit, data))
        return 'ok'
    except Exception as e:
        return 'raised:' + type(e).__name__


def oracle_decisions(ck, rng, n):
    """DoThenDecide keeps the new circuit iff condition(old, new); ParallelDo
    ends with the first less_than-minimal result (fold order); IfThenElse
    runs exactly the selected branch"""
    from bqskit.passes.control import DoThenDecide, IfThenElsePass, ParallelDo
    import bqskit.runtime.worker as W
    for it in range(n):
        nq = rng.randint(1, 3)
        cs = g_circuit(rng, nq, rng.randint(2, 5))
        circuit = mk_circ(cs)
        data = PassData(circuit)
        n0 = circuit.num_operations
        G['log'] = None
        which = it % 3
        if which == 0:
            grow = rng.random() < 0.5
            body = ActLeaf(0, [('append', g_plain_op(rng, nq, 2))] if grow
                           else [('poplast',)])
            spec = rng.choice(['opslt', 'opsgt', 'opsle'])
            out = safe_run(DoThenDecide(CondFn(spec), body), circuit, data)
            n1 = n0 + 1 if grow else n0 - 1
            accept = {'opslt': n0 < n1, 'opsgt': n0 > n1, 'opsle': n0 <= n1}[spec]
            want = n1 if accept else n0
            ck.count(('dec-dtd', x_circ(circuit), spec, grow))
            if out != 'ok' or circuit.num_operations != want:
                ck.violation(
                    'dothendecide-decision',
                    f'condition {spec}(old={n0} ops, new={n1} ops) is {accept} '
                    f'but the circuit has {circuit.num_operations} operations '
                    f'(outcome {out})',
                    {'circ': cs, 'cond': spec, 'grow': grow})
        elif which == 1:
            k = rng.randint(2, 4)
            sizes = [rng.randint(0, 3) for _ in range(k)]
            ws = [ActLeaf(i, [('append', (1, (), (0,)))] * sz + [('put', 'who', i)])
                  for i, sz in enumerate(sizes)]
            spec = rng.choice(['opslt', 'opsgt'])
            W._worker = FakeRuntime([])
            try:
                out = safe_run(ParallelDo(ws, CondFn(spec)), circuit, data)
            finally:
                W._worker = None
            best = min(sizes) if spec == 'opslt' else max(sizes)
            want = sizes.index(best)
            ck.count(('dec-par', tuple(sizes), spec, x_circ(circuit)))
            who = data['who'] if 'who' in data else None
            if out != 'ok' or who != want or circuit.num_operations != n0 + best:
                ck.violation(
                    'paralleldo-choice',
                    f'branches add {sizes} operations, less_than={spec}: the '
                    f'first preferred result is branch {want}, the pass ended '
                    f'with branch {who} (outcome {out})', {'circ': cs, 'sizes': sizes,
                                                    'less_than': spec})
        else:
            b = rng.random() < 0.5
            G['script'] = [b]
            has_else = rng.random() < 0.6
            p = IfThenElsePass(ScriptPred(), ActLeaf(0, [('put', 'br', 1)]),
                               ActLeaf(1, [('put', 'br', 2)]) if has_else else None)
            out = safe_run(p, circuit, data)
            left = G['script']
            G['script'] = None
            want = 1 if b else (2 if has_else else None)
            got = data['br'] if 'br' in data else None
            ck.count(('dec-ite', b, has_else, x_circ(circuit)))
            if out != 'ok' or got != want or left:
                ck.violation(
                    'ifthenelse-branch',
                    f'condition {b}, else branch present: {has_else}: ran branch '
                    f'{got}, expected {want}; outcome {out} (the condition must be '
                    f'evaluated exactly once); outcomes left: {left}',
                    {'circ': cs, 'cond': b, 'else': has_else})


def oracle_control(ck, rng, n):
    """order and number of executed bodies = textbook semantics (python
    reference interpreter written here), for script-driven trees"""
    for _ in range(n):
        nq = rng.randint(1, 3)
        g = CaseGen(rng, nq)
        tree = gen_script_tree(rng, rng.randint(1, 4), g)
        script = [int(rng.random() < 0.5) for _ in range(60)]
        try:
            s2 = list(script)
            want = ref_trace(tree, s2, g.leaves)
            if len(want) > 60:
                continue
        except IndexError:
            continue
        case = g.case(tree, {'radixes': [2] * nq, 'ops': []}, [], 'oracle')
        case['script'] = script
        circuit, data = build_real(case)
        out, log, left = run_real(case, circuit, data)
        got = [lid for lid, _ in log]
        ck.count(('ctl', t_tree(tree), tuple(script[:len(script) - len(s2)])),
                 nontrivial=len(want) >= 1)
        ck.bump('oracle_control_trace_len', str(min(len(want), 10)))
        if out != 'ok' or got != want or list(left) != [bool(b) for b in s2]:
            ck.violation(
                'control-order-or-count',
                f'executed leaves {got} (outcome {out}, {len(left)} outcomes '
                f'left), textbook semantics gives {want} ({len(s2)} left) for '
                f'{t_tree(tree)}',
                {'tree': t_tree(tree), 'script': script, 'leaves': g.leaves})


def timelines_without(c, skip_ids):
    """per-qudit sequence of the operations not in skip_ids"""
    out = []
    for q in range(c.num_qudits):
        tl = []
        for k in range(c.num_cycles):
            if not c.is_point_idle((k, q)):
                op = c[k, q]
                if id(op) not in skip_ids:
                    tl.append(x_op(op))
        out.append(tl)
    return out


def batch_replace_cases(ck, rng, n):
    """Circuit.batch_replace alone (the write-back primitive), also with
    replacements on OTHER location sets: cycles vanish and appear, and the
    points collected before the batch must still hit the intended operations.
    Oracle: exactly the operations at the given points disappear, exactly the
    new ones appear, all other operations keep their per-qudit order."""
    lines, metas = [], []
    for _ in range(n):
        nq = rng.randint(2, 5)
        cs = g_circuit(rng, nq, rng.randint(2, 9), pblock=0.0)
        c = mk_circ(cs)
        cells = cell_ops(c)
        keys = sorted(cells)
        k = rng.randint(1, min(4, len(keys)))
        chosen = rng.sample(keys, k)
        pts, ops, specs = [], [], []
        mode = rng.choice(['same', 'mixed', 'mixed', 'malformed'])
        for (cyc, q0) in chosen:
            old = cells[(cyc, q0)]
            q = rng.choice(list(old.location))
            if mode == 'same' or rng.random() < 0.3:
                loc = list(old.location)
                rng.shuffle(loc)
                ar = len(loc)
                gid = rng.choice(Q1) if ar == 1 else rng.choice(Q2) if ar == 2 else 10
                spec = (gid, g_params(rng, gid), tuple(loc))
            else:
                # another location sharing at least one qudit with the old one
                ar = rng.choice([1, 2, 2, 3]) if nq >= 3 else rng.choice([1, 2])
                keep = rng.choice(list(old.location))
                others = [x for x in range(nq) if x != keep]
                loc = [keep] + rng.sample(others, ar - 1)
                rng.shuffle(loc)
                gid = rng.choice(Q1) if ar == 1 else rng.choice(Q2) if ar == 2 else 10
                spec = (gid, g_params(rng, gid), tuple(loc))
            pc, pq = cyc, q
            if rng.random() < 0.2:
                pc = cyc - c.num_cycles
            if rng.random() < 0.2:
                pq = q - nq
            pts.append((pc, pq))
            specs.append(spec)
        if mode == 'malformed':
            r = rng.random()
            if r < 0.4:
                pts[0] = (c.num_cycles + 2, 0)
            elif r < 0.7 and nq >= 2:
                old = cells[chosen[0]]
                free = [x for x in range(nq) if x not in old.location]
                if free:
                    specs[0] = (1, (), (free[0],))
            else:
                idle = [(a, b) for a in range(c.num_cycles) for b in range(nq)
                        if c.is_point_idle((a, b))]
                if idle:
                    pts[0] = idle[0]
        ops = [mk_op(sp) for sp in specs]
        tx = Texts()
        before_txt = tx.circ(c)
        items = ' '.join(f'{a} {b} {tx.op(o)}' for (a, b), o in zip(pts, ops))
        targeted = {id(cells[kq]) for kq in chosen}
        tl0 = timelines_without(c, targeted)
        removed = sorted(x_op(cells[kq]) for kq in chosen)
        all0 = sorted(x_op(o) for o in cells.values())
        try:
            c.batch_replace(pts, ops)
            ret = 'ok'
        except (IndexError, ValueError) as e:
            ret = 'err'
        lines += ['case', f'breplace {before_txt} {items}']
        metas.append((cs, pts, specs, mode, ret, x_circ(c)))
        ck.count(('br', before_txt, items))
        ck.bump('batch_replace', mode + ':' + ret)
        if ret == 'ok' and mode != 'malformed':
            cells1 = cell_ops(c)
            all1 = sorted(x_op(o) for o in cells1.values())
            added = sorted(x_op(o) for o in ops)
            want = sorted([x for x in all0] + added)
            for x in removed:
                want.remove(x)
            new_ids = {id(o) for o in cells1.values() if any(o is n for n in ops)}
            # the new operations are the objects handed in
            tl1 = timelines_without(c, new_ids)
            if all1 != want:
                ck.violation(
                    'batch-replace-wrong-operations',
                    'after batch_replace the operations are not (old - those '
                    'at the given points + the new ones): the shifted points '
                    'hit other operations', {'circ': cs, 'points': pts,
                                             'new': specs})
            elif tl1 != tl0 and len(new_ids) == len(ops):
                ck.violation(
                    'batch-replace-order',
                    'batch_replace changed the per-qudit order of operations '
                    'it was not asked to replace', {'circ': cs, 'points': pts,
                                                    'new': specs})
    out = ck.driver('control', lines)
    bad = []
    for i, (cs, pts, specs, mode, ret, after) in enumerate(metas):
        rep = out[2 * i + 1].split(' # ')
        mret = 'ok' if rep[0] == 'ok' else 'err'
        if mret != ret or (len(rep) > 1 and rep[1] != after):
            bad.append(({'kind': 'batch_replace', 'circ': cs, 'points': pts,
                         'new': specs},
                        f'batch_replace: model {rep[0]} {rep[1] if len(rep) > 1 else ""} '
                        f'real {ret} {after}'))
    return bad


# ---- documented replace filters, written from the docstring of ForEachBlockPass
def doc_counts(c):
    many = sum(1 for op in c if op.num_qudits > 2)
    two = sum(1 for op in c if op.num_qudits == 2)
    one = sum(1 for op in c if op.num_qudits == 1)
    return many, two, one


def doc_respects(c, loc, model, fully):
    for op in c:
        if op.num_qudits >= 2 or fully:
            if op.gate not in model.gate_set:
                return False
        if op.num_qudits >= 2:
            import itertools as it
            edges = {tuple(sorted(e)) for e in model.coupling_graph}
            for a, b in it.combinations(op.location, 2):
                if tuple(sorted((loc[a], loc[b]))) not in edges:
                    return False
    return True


def doc_filter(name, new, old, model):
    from bqskit.ir.gates import CircuitGate
    if name == 'always':
        return True
    if not isinstance(old.gate, CircuitGate):
        return True
    org = old.gate._circuit
    nm, nt, no = doc_counts(new)
    om, ot, oo = doc_counts(org)
    if name.endswith('multi'):
        fewer = (nm + nt, no) < (om + ot, oo)
    elif name.endswith('many'):
        fewer = (nm, nt, no) < (om, ot, oo)
    else:
        fewer = new.num_operations < org.num_operations
    if 'respecting' not in name:
        return fewer
    fully = 'fully' in name
    if not doc_respects(org, old.location, model, fully):
        return True
    if not doc_respects(new, old.location, model, fully):
        return False
    return fewer


def cell_ops(c):
    """{(cycle, min qudit): op}"""
    out = {}
    for k in range(c.num_cycles):
        for q in range(c.num_qudits):
            if not c.is_point_idle((k, q)):
                op = c[k, q]
                out[(k, min(op.location))] = op
    return out


class ReadUnitary(BasePass):
    """a body that only READS: records the unitary (bqskit's own simulation) of
    the circuit it is handed, per block point (in-process runs only)"""

    async def run(self, circuit, data):
        pt = data._data.get('point')
        if G.get('seen_u') is not None and pt is not None:
            G['seen_u'].append(((int(pt[0]), int(pt[1])),
                                np.array(circuit.get_unitary().numpy)))


def expected_text(before, repl):
    """expanded text of `before` with the operations at the cells of `repl`
    ({(cycle, min qudit): op text}) replaced; the replacements sit on the same
    locations, so the grid is unchanged"""
    cyc = []
    for k in range(before.num_cycles):
        seen = {}
        for q in range(before.num_qudits):
            if not before.is_point_idle((k, q)):
                op = before[k, q]
                seen.setdefault(id(op), op)
        ops = sorted(seen.values(), key=lambda o: min(o.location))
        cyc.append('+'.join(repl.get((k, min(o.location))) or x_op(o)
                            for o in ops))
    return ','.join(map(str, before.radixes)) + ':' + '/'.join(cyc)


def g_oracle_bodies(rng, width):
    """1-3 leaves that never raise on a non-empty block; kinds: identity /
    read-only, equivalent rewrite (XX), growing, shrinking, bounded and
    unbounded perturbation (small RZ, re-parameterisation), replacement of the
    whole circuit (only when every collected block has `width` qudits)"""
    bodies = []
    kind = rng.random()
    if kind < 0.2:
        return [[]], 'identity'
    for _ in range(rng.randint(1, 3)):
        r = rng.random()
        if r < 0.25:
            acts = [('append', (4, (rng.randint(1, 120),), (0,)))]
        elif r < 0.4:
            acts = [('append', (1, (), (0,))), ('append', (1, (), (0,)))]
        elif r < 0.6:
            acts = [('poplast',), ('append', (2, (), (0,)))]
        elif r < 0.7:
            acts = [('reparam', rng.randint(1, 900), rng.randint(0, 6000))]
        elif r < 0.8 and width is not None:
            acts = [('setcirc', g_circuit(rng, width, rng.randint(0, 3),
                                          pblock=0.2, nested=0.0))]
        else:
            acts = []
        bodies.append(acts)
    # make shrinking possible: two pops on big blocks
    if rng.random() < 0.2:
        bodies[0] = [('append', (3, (), (0,))), ('poplast',), ('poplast',)]
    return bodies, 'mixed'


def oracle_foreach(ck, rng, n, tables):
    """what the body is handed = the collected operation (gate AND current
    parameters); body exactly once per selected block; exactly the accepted
    results written back at the originals' points; everything else identical
    and in place; the whole circuit's unitary = the initial one with exactly the
    accepted results substituted (identity body: unchanged); reported error
    bound vs measured distance.  A third of the circuits are re-parameterised
    after their blocks were formed (operation parameters differ from the ones
    frozen in the CircuitGates, the same gate object occurs with several
    parameter vectors)."""
    from bqskit.ir.gates import CircuitGate
    from bqskit.passes.control import ForEachBlockPass
    from bqskit.passes.control.foreach import default_collection_filter
    import bqskit.runtime.worker as W
    pending = None
    for it in range(n):
        nq = rng.randint(2, 4)
        rad = g_radixes(rng, nq)
        heavy = it % 3 == 0
        if pending is not None:
            # the circuit of the previous case again, re-parameterised
            rad, cs = pending
            nq = len(rad)
            pending = None
        else:
            cs = g_circuit(rng, rad, rng.randint(2, 7), pblock=0.6, nested=0.0,
                           preparam=0.9 if heavy else 0.3,
                           parametric=1.0 if heavy else 0.5)
            if has_param_blocks(cs) and rng.random() < 0.4:
                pending = (rad, reparam_twin(rng, cs))
        circuit = mk_circ(cs)
        data = PassData(circuit)
        pd = [a for a in g_pdata(rng, rad) if a[0] != 'error']
        for a in pd:
            apply_act(a, circuit, data)
        name = NAMED[it % len(NAMED)]
        width = rng.choice([None, None, 1, 2, 3])
        if width is not None and width <= nq and rad == [2] * nq:
            col_spec = ('arity', width)
        else:
            width = None
            col_spec = rng.choice([None, ('block',), ('all',), ('arity', 2),
                                   ('minq', 0), ('notgids', [6, 7])])
        bodies, bkind = g_oracle_bodies(rng, width)
        leaves = [ReadUnitary()] + [ActLeaf(i, a) for i, a in enumerate(bodies)]
        calc = it % 2 == 0
        before = circuit.copy()
        cells0 = cell_ops(before)
        U0 = before.get_unitary()
        U0_own = unitary_x(x_circ(before))
        E0 = float(data.error)
        col = None if col_spec is None else CollectFn(col_spec)
        p = ForEachBlockPass(leaves, calc, col, name)
        G['log'] = []
        G['seen_u'] = []
        W._worker = FakeRuntime([])
        try:
            asyncio.run(p.run(circuit, data))
            out = 'ok'
        except Exception as e:
            out = 'raised:' + type(e).__name__
        finally:
            W._worker = None
        log = G['log']
        seen_u = G['seen_u']
        G['log'] = None
        G['seen_u'] = None
        rep = {'circ': cs, 'pdata': pd, 'filter': name, 'collect': col_spec,
               'body': bodies, 'calc': calc}
        ck.count(('fe', x_circ(before), name, str(col_spec), str(bodies), calc))
        ck.bump('oracle_foreach_body', bkind)
        # expected selection (own filter) and expected results (own extraction
        # of the sub-circuit: the gate's circuit WITH the operation's parameters)
        sel = []
        for cyc, op in before.operations_with_cycles():
            if (default_collection_filter(op) if col is None else col(op)):
                sel.append((cyc, op))
        stale = 0
        exp = []
        body_fails = False
        for cyc, op in sel:
            if isinstance(op.gate, CircuitGate):
                sub = op.gate._circuit.copy()
                if list(sub.params) != list(op.params):
                    stale += 1
                sub.set_params(op.params)
            else:
                sub = Circuit.from_operation(op)
            old_sub = sub.copy()
            dd = PassData(sub)
            try:
                for acts in bodies:
                    for a in acts:
                        apply_act(a, sub, dd)
            except Exception:
                body_fails = True
            exp.append((old_sub, sub))
        ck.bump('oracle_foreach_blocks_with_own_params', str(min(stale, 3)))
        # a block-specific pass-down value is documented as a dict; with a LIST
        # `i in value` is membership and `value[i]` may be out of range
        for a in pd:
            if (a[0] == 'put' and a[1].startswith('ForEachBlockPass_specific_')
                    and isinstance(a[2], list)):
                if any(i in a[2] and i >= len(a[2]) for i in range(len(sel))):
                    body_fails = True
        if out != 'ok':
            if not body_fails:
                ck.violation(
                    'foreach-raises',
                    f'ForEachBlockPass raised ({out}) although no body fails '
                    '(model graph with an uncoupled highest qudit? unsorted '
                    'block location?)', rep)
            continue
        if body_fails:
            ck.violation(
                'foreach-swallows-failure',
                'a body fails on one of the selected blocks (pop from an '
                'empty circuit) but ForEachBlockPass returned normally', rep)
            continue
        # (1) body exactly once per selected block, in order
        per = {}
        first_seen = {}
        for lid, st in log:
            pt = None
            for kv in st[2][-1][1:]:
                if kv[0] == 'point':
                    pt = (int(kv[1][1][1]), int(kv[1][2][1]))
            per.setdefault(pt, []).append(lid)
            first_seen.setdefault(pt, st[1])
        want = {(cyc, op.location[0]): list(range(len(bodies))) for cyc, op in sel}
        if per != want or sorted(k for k, _ in seen_u) != sorted(want):
            ck.violation(
                'foreach-body-runs',
                f'body executions per block {per} (reading leaf: '
                f'{sorted(k for k, _ in seen_u)}) != once per selected block '
                f'{want}', rep)
            continue
        # (1a) what each body was handed is the collected operation: the gate's
        # circuit carrying the OPERATION's current parameters
        badin = None
        useen = dict(seen_u)
        for i, (cyc, op) in enumerate(sel):
            key = (cyc, op.location[0])
            want_txt = x_circ(exp[i][0])
            if first_seen[key] != want_txt:
                badin = (f'block {i} at {key}: the body was handed '
                         f'{first_seen[key]}, the collected operation is '
                         f'{want_txt}')
                break
            d = hs_distance(unitary_x(want_txt), useen[key])
            if d > 1e-6 or unitary_x(want_txt).shape != useen[key].shape:
                badin = (f'block {i} at {key}: the unitary of the circuit the '
                         f'body was handed is at distance {d} from the unitary '
                         f'of the collected operation {x_op(op)}')
                break
        if badin:
            ck.violation('foreach-body-input', badin, rep)
        # (1b) sub-model = induced coupling graph of the connectivity,
        # renumbered by position in op.location; block parameters set
        if sel:
            conn = {tuple(sorted((a, b)))
                    for a in range(len(data.placement))
                    for b in range(a + 1, len(data.placement))
                    if tuple(sorted((data.placement[a], data.placement[b])))
                    in {tuple(sorted(e)) for e in data.model.coupling_graph}}
            badm = None
            for i, (cyc, op) in enumerate(sel):
                bd = data['ForEachBlockPass_data'][-1][i]
                loc = list(op.location)
                want_e = {tuple(sorted((i1, i2)))
                          for i1 in range(len(loc)) for i2 in range(i1 + 1, len(loc))
                          if tuple(sorted((loc[i1], loc[i2]))) in conn}
                got_e = {tuple(sorted(e)) for e in bd.model.coupling_graph}
                want_r = [before.radixes[q] for q in loc]
                if (got_e != want_e or bd.model.num_qudits != len(loc)
                        or list(bd.model.radixes) != want_r
                        or dict(bd['subnumbering']) != {q: j for j, q in enumerate(loc)}
                        or tuple(bd['point']) != (cyc, loc[0])):
                    badm = (f'block {i} at location {loc}: sub-model edges '
                            f'{sorted(got_e)}, expected {sorted(want_e)}; radixes '
                            f'{list(bd.model.radixes)}, expected {want_r}; '
                            f'subnumbering {dict(bd["subnumbering"])}, point '
                            f'{tuple(bd["point"])}')
            if badm:
                ck.violation('foreach-submodel', badm, rep)
                continue
            # (1c) sub-data: seed of the parent, the error-bound switch, the
            # documented pass-down keys (general: copied; block-specific: the
            # entry of block i of a dict value)
            bads = None
            for i, (cyc, op) in enumerate(sel):
                bd = data['ForEachBlockPass_data'][-1][i]
                if bd.seed != data.seed:
                    bads = f'block {i}: seed {bd.seed}, the pass data has {data.seed}'
                if bool(bd['calculate_error_bound']) != calc:
                    bads = f'block {i}: calculate_error_bound {bd["calculate_error_bound"]}'
                for a in pd:
                    if a[0] != 'put' or not a[1].startswith('ForEachBlockPass_'):
                        continue
                    if a[1].startswith('ForEachBlockPass_pass_down_'):
                        if a[1] not in bd or bd[a[1]] != mk_val(a[2]):
                            bads = f'block {i}: pass-down key {a[1]} not handed down'
                    elif isinstance(a[2], dict):
                        v = mk_val(a[2])
                        if (i in v) != (a[1] in bd) or (i in v and bd[a[1]] != v[i]):
                            bads = (f'block {i}: block-specific pass-down key '
                                    f'{a[1]} = {v}: block data has '
                                    f'{bd[a[1]] if a[1] in bd else "nothing"}')
            if bads:
                ck.violation('foreach-subdata', bads, rep)
                continue
        # (2) write-back
        cells1 = cell_ops(circuit)
        exp_S = 0.0
        bad = None
        accepted = 0
        repl = {}
        recs = data['ForEachBlockPass_data'][-1] if sel else []
        for i, (cyc, op) in enumerate(sel):
            old_sub, sub = exp[i]
            acc = doc_filter(name, sub, op, data.model)
            key = (cyc, min(op.location))
            now = cells1.get(key)
            if acc:
                accepted += 1
                want_txt = (f'B[{x_circ(sub)}];' + ','.join(map(str, op.location))
                            + ';' + ','.join(map(str, op.radixes)))
                repl[key] = want_txt
                if now is None or x_op(now) != want_txt:
                    bad = bad or (
                        f'accepted result of block {i} at {key} not written '
                        f'back: found {None if now is None else x_op(now)}, '
                        f'expected {want_txt}')
                if calc:
                    exp_S += hs_distance(unitary_x(x_circ(old_sub)),
                                         unitary_x(x_circ(sub)))
            else:
                if now is None or x_op(now) != x_op(op):
                    bad = bad or (
                        f'rejected block {i} at {key} changed: '
                        f'{None if now is None else x_op(now)} vs {x_op(op)}')
            if sel and bool(recs[i]['replaced']) != acc:
                bad = bad or f'block {i}: replaced flag {recs[i]["replaced"]} but documented filter {name} says {acc}'
        selkeys = {(cyc, min(op.location)) for cyc, op in sel}
        for key, op in cells0.items():
            if key in selkeys:
                continue
            now = cells1.get(key)
            if now is None or x_op(now) != x_op(op):
                bad = bad or (f'unselected operation at {key} not identical and '
                              f'in place: {None if now is None else x_op(now)}')
        if set(cells1) != set(cells0):
            bad = bad or 'operations appeared or vanished'
        ck.bump('oracle_foreach_accepted', str(min(accepted, 4)))
        if bad:
            ck.violation('foreach-writeback', bad, rep)
            if set(cells1) != set(cells0):
                continue
        # (2b) the WHOLE circuit: its unitary (own embedding of the gate
        # matrices, and bqskit's simulation) is that of the initial circuit with
        # exactly the accepted results substituted; identity bodies: unchanged
        U_exp = unitary_x(expected_text(before, repl))
        U1_own = unitary_x(x_circ(circuit))
        U1 = circuit.get_unitary()
        d_own = hs_distance(U_exp, U1_own)
        d_bq = hs_distance(U_exp, np.array(U1.numpy))
        if max(d_own, d_bq) > 1e-6:
            ck.violation(
                'foreach-unitary',
                f'the circuit after the pass is at distance {max(d_own, d_bq)} '
                'from the initial circuit with the accepted results '
                f'substituted ({accepted} accepted)', rep)
        truth_own = hs_distance(U0_own, U1_own)
        if bkind == 'identity' and truth_own > 1e-6:
            ck.violation(
                'foreach-identity-body-changes-circuit',
                f'a body that does nothing moved the circuit by {truth_own}', rep)
        # (3) error bound
        if calc:
            E1 = float(data.error)
            truth = max(U1.get_distance_from(U0), truth_own)
            ck.bump('oracle_foreach_distance',
                    '0' if truth < 1e-7 else '<0.1' if truth < 0.1 else '>=0.1')
            S = exp_S
            if E1 < truth - (E0 * S + NOISE):
                ck.violation(
                    'foreach-error-bound-too-small',
                    f'reported bound {E1} < measured distance {truth} '
                    f'(previous bound {E0}, block errors sum {S})', rep)
            want_E = 1 - (1 - E0) * (1 - S)
            if abs(E1 - want_E) > 1e-7:
                # (a larger bound does not violate the stated property)
                ck.violation(
                    'foreach-error-formula',
                    f'reported bound {E1} != 1-(1-E)(1-S) = {want_E} with the '
                    f'measured block distances of the REPLACED blocks (E={E0}, '
                    f'S={S}); not smaller than the measured distance {truth}',
                    rep, found_input=False)
        # (4) ClearAllBlockData: "clear all block data and passed down data",
        # nothing else
        from bqskit.passes.control.foreach import ClearAllBlockData
        snap0 = snapshot(circuit, data)
        keys0 = {k: se_text(se_val(data._data[k])) for k in data._data
                 if not k.startswith('ForEachBlockPass_')}
        outc = safe_run(ClearAllBlockData(), circuit, data)
        snap1 = snapshot(circuit, data)
        left = [k for k in data._data
                if k.startswith('ForEachBlockPass_data')
                or k.startswith('ForEachBlockPass_pass_down_')]
        keys1 = {k: se_text(se_val(data._data[k])) for k in data._data
                 if not k.startswith('ForEachBlockPass_')}
        other = [k for k in snap0 if k != '_data' and snap_diff({k: snap0[k]}, {k: snap1[k]})]
        if outc != 'ok' or left or keys0 != keys1 or other:
            ck.violation(
                'clearall',
                f'ClearAllBlockData ({outc}) left the keys {left}; other keys '
                f'changed: {keys0 != keys1}; attributes changed: {other}', rep)


# =====================================================================
# a few runs through a REAL Compiler (the runtime executes the jobs)
# =====================================================================
import contextlib
import fcntl


@contextlib.contextmanager
def runtime_lock(max_wait):
    """machine-wide lock: only one real BQSKit runtime at a time (fixed ports);
    yields False when it could not be taken within max_wait seconds.  The wait
    is a BLOCKING flock interrupted by an alarm (a polling non-blocking attempt
    starves behind the blocking waiters of other checks)."""
    f = open('/tmp/bqskit_runtime.lock', 'w')
    got = False
    try:
        try:
            fcntl.flock(f, fcntl.LOCK_EX | fcntl.LOCK_NB)
            got = True
        except OSError:
            if max_wait > 0:
                old = signal.signal(signal.SIGALRM, _alarm)
                signal.alarm(int(max_wait))
                try:
                    fcntl.flock(f, fcntl.LOCK_EX)
                    got = True
                except Timeout:
                    pass
                finally:
                    signal.alarm(0)
                    signal.signal(signal.SIGALRM, old)
        yield got
    finally:
        if got:
            fcntl.flock(f, fcntl.LOCK_UN)
        f.close()


def gen_runtime_case(rng, kind):
    nq = rng.randint(2, 4)
    g = CaseGen(rng, nq)
    if kind == 'foreach':
        tree = g.foreach(rng.randint(0, 1), calc=rng.random() < 0.6)
        circ = g_circuit(rng, nq, rng.randint(2, 7), pblock=0.6)
    elif kind == 'par':
        ws = [g.tree(rng.randint(0, 2), True, False, allow_rt=False)
              for _ in range(rng.randint(2, 3))]
        tree = ('par', ws, g.cond(True), False)
        circ = g_circuit(rng, nq, rng.randint(1, 5), pblock=0.2)
    else:   # pick_first: branch `fast` returns at once, the others sleep
        n = rng.randint(2, 3)
        fast = rng.randrange(n)
        ws = []
        for i in range(n):
            lid = len(g.leaves)
            g.leaves[lid] = ([] if i == fast else [('sleep', 1.5)]) + [
                ('push', TRACE_KEY, lid), ('put', 'winner', i),
                ('append', g_plain_op(rng, nq, 2))]
            ws.append(('leaf', lid))
        tree = ('par', ws, g.cond(True), True)
        circ = g_circuit(rng, nq, rng.randint(1, 4), pblock=0.2)
        g.fast = fast
    # the whole PassData preparation is the first pass of the workflow
    init = len(g.leaves)
    g.leaves[init] = [a for a in g_pdata(rng, nq)]
    case = g.case(('seq', [('leaf', init), tree]), circ, [], 'runtime-' + kind)
    case['script'] = []
    case['arrivals'] = []
    case['fast'] = getattr(g, 'fast', None)
    return case


def real_runtime_cases(ck, rng, n, tables, max_wait):
    """returns the disagreements; ck.coverage['real_runtime'] says what ran"""
    from bqskit.compiler import Compiler
    cases = [gen_runtime_case(rng, ('foreach', 'par', 'pick')[i % 3])
             for i in range(n)]
    built = []
    for case in cases:
        circuit = mk_circ(case['circ'])
        built.append((case, circuit, PassData(circuit)))
    logf = tempfile.NamedTemporaryFile(prefix='c11log', suffix='.jsonl',
                                       delete=False)
    logf.close()
    results = []
    os.environ['C11_LOGFILE'] = logf.name
    try:
        with runtime_lock(max_wait) as got:
            if not got:
                ck.coverage['real_runtime'] = (
                    'skipped: the machine-wide runtime lock was busy for '
                    f'{max_wait} s')
                return []
            compiler = None
            aborted = False
            try:
                for case, circuit, data in built:
                    # a failing task closes the attached Compiler (client drops
                    # the connection): start a fresh one for the next case
                    if compiler is None or compiler.conn is None:
                        if compiler is not None:
                            compiler.close()
                        compiler = None
                        for attempt in range(6):
                            # the port of a server that is still shutting down
                            # (or of a runtime started without the lock) resets
                            # the connection: wait and retry
                            try:
                                compiler = Compiler(num_workers=2)
                                break
                            except Exception:
                                time.sleep(1.0 + attempt)
                        if compiler is None:
                            aborted = True
                            break
                    case['tag'] = len(results)
                    wf = mk_tree(case['tree'], case)
                    try:
                        oc, od = compiler.compile(circuit.copy(), wf,
                                                  request_data=True)
                        out = 'ok'
                    except Exception as e:
                        oc, od, out = None, None, 'raised:' + type(e).__name__
                        if os.environ.get('C11_DEBUG'):
                            print('runtime case raised:', case['kind'],
                                  str(e)[-300:], repr(e.__cause__)[-300:],
                                  flush=True)
                    with open(logf.name) as f:
                        log = [r for r in (json.loads(l) for l in f if l.strip())
                               if r.get('tag') == case['tag']]
                    results.append((oc, od, out, log))
            finally:
                if compiler is not None:
                    compiler.close()
    finally:
        os.environ.pop('C11_LOGFILE', None)
        os.unlink(logf.name)
    # arrivals of pick_first cases are an input of the model: observed winner
    for (case, circuit, data), (oc, od, out, log) in zip(built, results):
        if case['fast'] is not None and out == 'ok':
            w = od['winner'] if 'winner' in od else None
            case['arrivals'] = [[w if w is not None else 0]]
            ck.bump('pick_first_arrival',
                    'expected' if w == case['fast'] else 'other')
    reps = model_run(ck, built, tables)
    bad = []
    for (case, circuit, data), rep, (oc, od, out, log) in zip(built, reps, results):
        ck.count((case['kind'], t_tree(case['tree']), json.dumps(case['circ'])))
        ck.bump('outcomes', case['kind'] + ':' + ('ok' if out == 'ok' else 'raised'))
        mo = rep['outcome']
        d = None
        if mo == 'ok' and out == 'ok':
            d = se_diff(rep['st'], se_state(oc, od), 'final')
            # every leaf execution the model has (outside cancelled / failed
            # jobs) must be in the workers' log, with the same multiplicity
            want = {}
            for e in rep['trace']:
                if e[2] == '0':
                    want[int(e[1])] = want.get(int(e[1]), 0) + 1
            have = {}
            for r in log:
                have[r['leaf']] = have.get(r['leaf'], 0) + 1
            if d is None and case['fast'] is None and want != have:
                d = f'leaf executions differ: model {want} workers {have}'
            if d is None and case['fast'] is not None and any(
                    have.get(k, 0) < v for k, v in want.items()):
                d = f'leaf executions missing: model {want} workers {have}'
        elif mo.startswith('err') and out.startswith('raised'):
            pass
        else:
            d = f'model {mo}, real {out}'
        if d:
            bad.append((case, d))
    ck.coverage['real_runtime'] = (
        f'{len(results)} cases through Compiler(num_workers=2)'
        + (' (then the runtime could not be restarted: port busy)'
           if len(results) < len(built) else ''))
    return bad


# =====================================================================
# entry point
# =====================================================================
def run(ck):
    warnings.simplefilter('ignore')
    # Workflow.run calls seed_random_sources(seed) before every pass when a seed
    # is set; that forks `ldconfig` through ctypes.util.find_library (0.1-0.2 s
    # each).  Cache the lookup (pure function of the machine) for this process.
    import functools
    import bqskit.utils.random as bq_random
    if not hasattr(bq_random.find_library, 'cache_info'):
        bq_random.find_library = functools.lru_cache(None)(bq_random.find_library)
    from translate import fields_c11 as tr_fields
    tables = tr_fields.main()
    if ck.replay_path:
        # a replay file records seed and tier; every case is derived from the
        # seed, so re-running with them reproduces the recorded violation (the
        # file's 'replay' entry holds the concrete failing input for reading)
        body = json.loads(open(ck.replay_path).read())
        ck.seed = int(body.get('seed', ck.seed))
        ck.tier = body.get('tier', ck.tier)
        ck.rng = random.Random(ck.seed * 1000003 + int(ck.pid[1:]))
        print(f'replaying seed={ck.seed} tier={ck.tier}: {body.get("what", "")[:200]}')
    if os.environ.get('C11_SKIP_LEAN'):      # development only
        proved = True
    else:
        proved = ck.lean_obligations()
    rng = ck.rng
    thorough = ck.tier == 'thorough'
    n_control = 2500 if thorough else 220
    n_foreach = 1500 if thorough else 130
    n_malformed = 200 if thorough else 30
    n_reparam = 600 if thorough else 90
    dev = float(os.environ.get('C11_DEV_SCALE', '1'))     # development only
    n_control, n_foreach, n_malformed = (int(n_control * dev), int(n_foreach * dev),
                                         int(n_malformed * dev))
    n_reparam = int(n_reparam * dev)

    cases = []
    for _ in range(n_control):
        cases.append(gen_control_case(rng))
    for i in range(n_foreach):
        cases.append(gen_foreach_case(
            rng, named=NAMED[i % len(NAMED)] if i % 2 == 0 else None,
            calc=True if i % 3 == 0 else None))
    for _ in range(n_malformed):
        cases.append(malformed_case(rng))
    for _ in range(n_reparam):
        cases.append(gen_reparam_case(rng))
    # every foreach / malformed case whose circuit has parameterised blocks is
    # ALSO run in a re-parameterised variant (same tree, leaves, PassData)
    twins = []
    for case in cases:
        if case['kind'] in ('foreach', 'malformed') and has_param_blocks(case['circ']):
            twins.append(dict(case, circ=reparam_twin(rng, case['circ']),
                              kind=case['kind'] + '-twin'))
    cases += twins

    batch = []
    for case in cases:
        try:
            circuit, data = build_real(case)
        except Exception as e:   # generator produced an invalid initial state
            ck.bump('skipped', 'initial-state-' + type(e).__name__)
            continue
        batch.append((case, circuit, data))
        ck.bump('initial_blocks_with_own_params',
                case['kind'] + ':' + str(min(count_own_params(circuit), 3)))
    reps = model_run(ck, batch, tables)
    disagreements = []
    for (case, circuit, data), rep in zip(batch, reps):
        if rep['outcome'] == 'out-of-fuel':
            ck.bump('skipped', 'model-out-of-fuel')
            continue
        out, log, left = run_real(case, circuit, data)
        ck.count((case['kind'], t_tree(case['tree']), json.dumps(case['circ']),
                  tuple(case['script'])), nontrivial=len(log) >= 1)
        ck.bump('outcomes', case['kind'] + ':' + ('ok' if out == 'ok' else 'raised'))
        ck.bump('radixes', ('qubits' if set(case['circ']['radixes']) <= {2}
                            else 'mixed') + ':' + ('ok' if out == 'ok' else 'raised'))
        ck.bump('trace_len', str(min(len(log), 12)))
        ck.coverage['traces_validated_against_impl'] += 1
        d = compare_case(case, rep, out, log, left, circuit, data)
        if d:
            disagreements.append((case, d))
        elif len(log) >= 2:
            ck.sample({'tree': t_tree(case['tree']), 'kind': case['kind'],
                       'leaves_run': [l for l, _ in log], 'outcome': out})

    # direct oracles on the real code
    oracle_control(ck, rng, 600 if thorough else 120)
    oracle_restore(ck, rng, 240 if thorough else 48)
    oracle_decisions(ck, rng, 300 if thorough else 60)
    oracle_foreach(ck, rng, 700 if thorough else 150, tables)

    for c_, d_ in batch_replace_cases(ck, rng, 2000 if thorough else 150):
        disagreements.append((dict(c_, tree=('leaf', 0)), d_))
    disagreements += real_runtime_cases(
        ck, rng, 60 if thorough else 9, tables,
        int(os.environ.get('C11_RT_WAIT', 900 if thorough else 15)))

    for case, d in disagreements[:5]:
        ck.violation(
            f'{case["kind"]}-correspondence',
            f'{case["kind"]}: real passes and Lean model disagree ({d}); the '
            'direct oracles decide whether the property itself is violated',
            {'case': case, 'difference': d, 'broken': 'correspondence control'},
            found_input=False)
    if not proved:
        ck.violation(
            'proof-obligation', 'Lean obligations of Props/C11 do not check: '
            + (ck.proof_failure or '')[:400],
            {'broken': 'BqVerif.Props.C11', 'log': ck.proof_failure,
             'tables': tables}, found_input=False)
    ck.coverage['rule'] = (
        'each case = one generated pass tree (depth <= 4, all nine constructs, '
        'real And/Or/Not/Width/GateCount/Change and scripted predicates) run on '
        'one generated circuit (1-5 qudits, a quarter with qutrits; circuit-gate '
        'blocks at sorted and unsorted locations, blocks alone in a cycle via '
        'insert, nested blocks; a third re-parameterised after the blocks were '
        'formed - set_params / set_param of the outer circuit, block operations '
        'with their own parameter vector, one CircuitGate object used with '
        'several vectors - so that operation parameters differ from the ones '
        'frozen in the gate) '
        'with one generated PassData (model with possibly uncoupled qudits, '
        'placement, mappings, seed, error, pass-down keys) and one script, '
        'through the real control passes and the Lean interpreter; compared: '
        'outcome, executed leaves with the state each saw, final circuit, all '
        'PassData fields (block data recursively), script consumption. '
        'Further case families: re-parameterised (ForEach alone / twice around '
        'a parameter-tuning leaf / nested / under DoThenDecide and ParallelDo, '
        'bodies that do nothing, only read, perturb parameters, replace the '
        'circuit), malformed (invalid placement, unknown filter, '
        'empty circuit, raising body), direct batch_replace calls (same / other '
        'locations / malformed points), real-Compiler runs, and the direct '
        'oracles (reference interpreter, restore snapshots, decisions, '
        'foreach body input / once per block / sub-model / sub-data / write-back '
        '/ whole-circuit unitary / identity body / error bound / ClearAllBlockData). '
        'distinct = distinct '
        '(family, tree, circuit, script or arguments); non-trivial = at least '
        'one leaf pass executed (control families) / every case (others)')
    ck.assumptions += [
        'leaf passes, predicates, two-circuit callables and filters are the '
        'harness-defined ones (the model is parametric in them)',
        'in-process runs use an in-process stand-in for the runtime handle '
        '(map/next/cancel executing tasks on pickled copies); real Compiler '
        'runs are fewer',
        'distances are computed by the harness (own embedding of the gate '
        'matrices) and handed to the model as an oracle',
    ]
